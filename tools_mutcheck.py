#!/usr/bin/env python3
"""
Coordinator tool: validate the changes a mutation sub-agent left in /tmp/mut-<pid>/out/<i>/ and
store the confirmed ones under /verif/seeded/<PID>-<i>/.

For every change: (1) apply patch.diff in the scratch worktree, rebuild extensions if a
.pyx/.pxi/.cc changed, (2) run the whole existing test suite there (must pass), (3) run demo.py
(must exit non-zero), (4) run the checks named on the command line with VERIF_REPO=<worktree>
(records exit status and VIOLATION lines), (5) revert; finally rebuild and run every demo on the
clean tree (must exit 0).  Nothing is ever applied to /repo by this tool.

usage: tools_mutcheck.py <PID> [--checks C01,C08] [--only 1,2] [--skip-suite]
"""
import argparse, json, os, shutil, subprocess, sys, time

VERIF = os.path.dirname(os.path.abspath(__file__))
PY = '/venv/bin/python'


def sh(cmd, cwd=None, env=None, timeout=3600):
    p = subprocess.run(cmd, cwd=cwd, env=env, shell=isinstance(cmd, str), stdout=subprocess.PIPE,
                       stderr=subprocess.STDOUT, text=True, timeout=timeout)
    return p.returncode, p.stdout


def main():
    ap = argparse.ArgumentParser()
    ap.add_argument('pid')
    ap.add_argument('--checks', default=None)
    ap.add_argument('--only', default=None)
    ap.add_argument('--skip-suite', action='store_true')
    ap.add_argument('--round', type=int, default=1, help='2 reads <worktree>/out2 and stores seeded/<PID>-r2-<i>')
    a = ap.parse_args()
    pid = a.pid.upper()
    wt = '/tmp/mut-' + pid.lower()
    checks = (a.checks or pid).split(',')
    env = dict(os.environ, PYTHONPATH=wt, XDG_CACHE_HOME=os.path.join(wt, '.xdg'))
    # bring the worktree to /repo's HEAD (fixes may have landed since it was created)
    head = subprocess.check_output(['git', '-C', '/repo', 'rev-parse', 'HEAD'], text=True).strip()
    sh(['git', 'checkout', '-q', '--detach', head], cwd=wt)
    sh(['git', 'checkout', '--', '.'], cwd=wt)
    sh([PY, 'setup.py', 'build_ext', '--inplace', '-j8'], cwd=wt)
    OUT = 'out' if a.round == 1 else 'out%d' % a.round
    TAG = '' if a.round == 1 else 'r%d-' % a.round
    ids = sorted(d for d in os.listdir(os.path.join(wt, OUT)) if d.isdigit())
    if a.only:
        ids = [i for i in ids if i in a.only.split(',')]
    results = {}
    for i in ids:
        d = os.path.join(wt, OUT, i)
        patch = os.path.join(d, 'patch.diff')
        r = {'id': '%s-%s%s' % (pid, TAG, i)}
        rc, out = sh(['git', 'apply', '--check', patch], cwd=wt)
        r['applies_cleanly'] = rc == 0
        if rc != 0:
            r['error'] = out[-500:]
            results[i] = r
            continue
        sh(['git', 'apply', patch], cwd=wt)
        native = any(x in open(patch).read() for x in ('.pyx', '.pxi', '.cc', '.pxd'))
        if native:
            rc, out = sh([PY, 'setup.py', 'build_ext', '--inplace', '-j8'], cwd=wt)
            r['builds'] = rc == 0
        else:
            r['builds'] = True
        if not a.skip_suite:
            rc, out = sh([PY, '-m', 'pytest', '-q', '-p', 'no:cacheprovider', 'test'], cwd=wt, env=env)
            r['suite'] = out.strip().split('\n')[-1]
            r['suite_passes'] = rc == 0
        rc, out = sh([PY, os.path.join(d, 'demo.py')], cwd=wt, env=env)
        r['demo_exit_with_patch'] = rc
        r['demo_tail'] = out[-400:]
        r['checks'] = {}
        for c in checks:
            t = time.time()
            rc, out = sh([os.path.join(VERIF, 'check'), c, '--tier', 'quick'], cwd=VERIF,
                         env=dict(os.environ, VERIF_REPO=wt))
            viol = [l for l in out.split('\n') if l.startswith('VIOLATION')]
            r['checks'][c] = {'exit': rc, 'violations': viol[:6], 'wall_s': round(time.time() - t),
                              'tail': out[-300:] if rc not in (0, 1) else ''}
            # keep the replay of the first violation next to the seeded change
            for l in viol[:1]:
                pth = l.split('replay=')[1].split()[0]
                if os.path.exists(pth):
                    shutil.copy(pth, os.path.join(d, 'replay_%s.json' % c))
        sh(['git', 'checkout', '--', '.'], cwd=wt)
        results[i] = r
        print(json.dumps(r, indent=1)); sys.stdout.flush()
    sh([PY, 'setup.py', 'build_ext', '--inplace', '-j8'], cwd=wt)
    for i in ids:
        d = os.path.join(wt, OUT, i)
        rc, out = sh([PY, os.path.join(d, 'demo.py')], cwd=wt, env=env)
        results[i]['demo_exit_clean'] = rc
    for i in ids:
        r = results[i]
        d = os.path.join(wt, OUT, i)
        ok = r.get('applies_cleanly') and r.get('builds') and r.get('suite_passes', a.skip_suite) \
            and r.get('demo_exit_with_patch', 0) != 0 and r.get('demo_exit_clean') == 0
        r['kept'] = bool(ok)
        r['caught_by'] = [c for c, v in r.get('checks', {}).items() if v['exit'] == 1]
        if ok:
            dst = os.path.join(VERIF, 'seeded', '%s-%s%s' % (pid, TAG, i))
            os.makedirs(dst, exist_ok=True)
            for fn in os.listdir(d):
                if fn in ('patch.diff', 'demo.py') or fn.startswith('replay_'):
                    shutil.copy(os.path.join(d, fn), dst)
            meta = {}
            try:
                meta = json.load(open(os.path.join(d, 'meta.json')))
            except Exception:
                pass
            try:
                prev = json.load(open(os.path.join(dst, 'meta.json'))).get('confirmed_by_coordinator', {})
            except Exception:
                prev = {}
            if a.skip_suite:
                # re-validation after a check was strengthened: keep the suite result of the first validation
                for k in ('suite', 'suite_passes'):
                    if k in prev:
                        r[k] = prev[k]
                if prev.get('checks'):
                    r['checks_before_strengthening'] = prev.get('checks_before_strengthening', prev['checks'])
            meta['confirmed_by_coordinator'] = r
            meta['repo_head'] = head
            json.dump(meta, open(os.path.join(dst, 'meta.json'), 'w'), indent=1)
    print('SUMMARY', json.dumps({i: {'kept': r['kept'], 'caught_by': r['caught_by']} for i, r in results.items()}))


if __name__ == '__main__':
    main()
