"""
C20 — the on-disk compile cache survives crashes and concurrent compilation (DESIGN.md §6/C20).

theorems : Pyiga.Props.C20.*  (model Pyiga.Model.CompileCache, driver drv_c20)
tie      : K-stream `cache`.  Real subprocesses (`compile_vform` + assemble of the smallest 1-D
           forms, each in its own scratch XDG_CACHE_HOME under /verif/.cache) are driven through
           the same event sequences as the model: complete build -> external fault on one file ->
           fresh process; build killed at a named stage -> fresh process; the directory is
           classified file by file (absent / partial / complete) and the child's outcome
           (loaded / rebuilt / raised / killed by signal) is diffed with the model's answer.
           Which protocol model (`c` in-place writes, `r` private dir + atomic publish) applies is
           *measured*: a compiler wrapper (CC=...) logs the -o targets of the real build; the link
           target being the imported path means "in place".
property : evaluated directly, model-free: after every fault / kill / race each request must end
           with exit status 0 and the assembled matrix equal to the closed-form 1-D matrix.
           Failures whose start state has a non-loadable .so at the imported path (reachable by an
           interrupted in-place link) are reported under key  fault:so-truncated-at-final-path,
           failures of racing builders under  race:concurrent-same-form  (defect D12); anything
           else is an unlisted VIOLATION.

Stages are reached without touching /repo through the compiler wrapper (kill the building python
when gcc is invoked for compile / for link / after the link, or after truncating the link output =
interrupted link); when the guarded hook of fixes/C20-hook.patch is present its four stages
(after-pyx, after-cythonize, before-publish, after-publish) are driven as well.
"""
import glob
import itertools
import json
import os
import select
import shutil
import signal
import struct
import subprocess
import sys
import time
from concurrent.futures import ThreadPoolExecutor

from . import common
from .common import VERIF, REPO, PY

THEOREMS = [
    'Pyiga.Props.C20.current_interrupted_link_leaves_partial',
    'Pyiga.Props.C20.current_crash_witness', 'Pyiga.Props.C20.current_crash_persists',
    'Pyiga.Props.C20.current_race_import_witness', 'Pyiga.Props.C20.current_race_build_witness',
    'Pyiga.Props.C20.current_unsafe', 'Pyiga.Props.C20.current_lone_builder_ok',
    'Pyiga.Props.C20.safe_repaired_from', 'Pyiga.Props.C20.safe_repaired',
    'Pyiga.Props.C20.published_never_replaced', 'Pyiga.Props.C20.request_succeeds',
    'Pyiga.Props.C20.recovery', 'Pyiga.Props.C20.recovery_after_crashes',
    'Pyiga.Props.C20.step_touches_only_own_entry', 'Pyiga.Props.C20.repaired_heals_rejected_entry',
    'Pyiga.Props.C20.repaired_rebuilds_absent_entry', 'Pyiga.Props.C20.wipe_keeps_invariant', 'Pyiga.Props.C20.request_after_wipe',
    'Pyiga.Props.C20.digest_injectivity_needed', 'Pyiga.Props.C20.rename_atomicity_needed', 'Pyiga.Props.C20.sharedTmp_unsafe',
]
MODULES = ['Pyiga.Model.CompileCache', 'Pyiga.Proofs.CompileCache', 'Pyiga.Props.C20']

KEY_SO = 'fault:so-truncated-at-final-path'
KEY_RACE = 'race:concurrent-same-form'

# ----------------------------------------------------------------------------- child programs
WORKER = r'''
import os, sys, json, time
out = os.fdopen(os.dup(1), 'w')
dn = os.open(os.devnull, os.O_WRONLY); os.dup2(dn, 1); os.dup2(dn, 2)
form = sys.argv[1]; t0 = float(sys.argv[2])
res = {}; calls = []
try:
    import numpy as np
    from pyiga import compile, vform, bspline, assemble, geometry
    orig = compile._compile_cython_module_nocache
    def wrap(src, modname, verbose=False):
        calls.append(modname); return orig(src, modname, verbose=verbose)
    compile._compile_cython_module_nocache = wrap
    kv = bspline.make_knots(2, 0.0, 1.0, 5)
    geo = geometry.line_segment(0.0, 2.0)
    if form == 'mass':
        vf = vform.mass_vf(1); ref = 2.0 * assemble.bsp_mass_1d(kv).toarray()
    else:
        vf = vform.stiffness_vf(1); ref = 0.5 * assemble.bsp_stiffness_1d(kv).toarray()
    while time.time() < t0: time.sleep(0.0005)
    A = compile.compile_vform(vf)
    M = assemble.assemble_entries(A((kv,), geo), symmetric=False).toarray()
    err = float(abs(M - ref).max())
    res.update(outcome='ok' if err < 1e-12 else 'wrong', err=err, mod=A.__module__)
except BaseException as e:
    res.update(outcome='exc', kind=type(e).__name__, msg=str(e)[:160])
res['rebuilt'] = bool(calls)
out.write(json.dumps(res) + '\n'); out.flush()
os._exit(0)
'''

# a long-lived process: one request per stdin line `req <k>` (form (1+k/8)*u*v*dx), one JSON answer line each
SESSION = r'''
import os, sys, json
out = os.fdopen(os.dup(1), 'w')
dn = os.open(os.devnull, os.O_WRONLY); os.dup2(dn, 1); os.dup2(dn, 2)
import numpy as np
from pyiga import compile, vform, bspline, assemble, geometry
calls = []
orig = compile._compile_cython_module_nocache
def wrap(src, modname, verbose=False):
    calls.append(modname); return orig(src, modname, verbose=verbose)
compile._compile_cython_module_nocache = wrap
kv = bspline.make_knots(2, 0.0, 1.0, 5)
geo = geometry.line_segment(0.0, 2.0)
ref = 2.0 * assemble.bsp_mass_1d(kv).toarray()
for line in sys.stdin:
    w = line.split()
    if not w or w[0] != 'req':
        break
    k = int(w[1]); c = 1.0 + k / 8.0
    del calls[:]
    res = {'k': k}
    try:
        vf = vform.VForm(1)
        u, v = vf.basisfuns()
        vf.add(c * u * v * vform.dx)
        A = compile.compile_vform(vf)
        M = assemble.assemble_entries(A((kv,), geo), symmetric=False).toarray()
        err = float(abs(M - c * ref).max())
        res.update(outcome='ok' if err < 1e-12 else 'wrong', err=err, mod=A.__module__)
    except BaseException as e:
        res.update(outcome='exc', kind=type(e).__name__, msg=str(e)[:160])
    res['rebuilt'] = bool(calls)
    out.write(json.dumps(res) + '\n'); out.flush()
os._exit(0)
'''

# the FIRST compile request of a fresh process, released by a barrier immediately before the call
FIRST = r'''
import os, sys, json, time
out = os.fdopen(os.dup(1), 'w')
dn = os.open(os.devnull, os.O_WRONLY); os.dup2(dn, 1); os.dup2(dn, 2)
sync = sys.argv[1]; me = sys.argv[2]; tag = sys.argv[3]
res = {}
try:
    from pyiga import compile
    src = "def answer():\n    return %s\n" % tag
    open(os.path.join(sync, 'ready-' + me), 'w').close()
    go = os.path.join(sync, 'go')
    while not os.path.exists(go): time.sleep(0.001)
    t0 = float(open(go).read())
    while time.time() < t0: pass
    m = compile.compile_cython_module(src)
    res.update(outcome='ok' if m.answer() == int(tag) else 'wrong', mod=m.__name__)
except BaseException as e:
    res.update(outcome='exc', kind=type(e).__name__, msg=str(e)[:160])
out.write(json.dumps(res) + '\n'); out.flush()
os._exit(0)
'''

# loads one extension module file in a sandboxed child: rc 0 loadable, 3 ImportError, <0 signal
PROBE = r'''
import os, sys, importlib.util
dn = os.open(os.devnull, os.O_WRONLY); os.dup2(dn, 1); os.dup2(dn, 2)
path = sys.argv[1]; name = os.path.basename(path).split('.')[0]
try:
    spec = importlib.util.spec_from_file_location(name, path)
    m = importlib.util.module_from_spec(spec); spec.loader.exec_module(m)
    m.CustomAssembler
except BaseException:
    os._exit(3)
os._exit(0)
'''

# stands in for gcc (CC=<this>): logs -o targets, optionally kills the building python at a stage
WRAPPER = r'''#!%(py)s -SE
import os, sys, subprocess, signal, time
args = sys.argv[1:]
link = '-shared' in args
target = args[args.index('-o') + 1] if '-o' in args else ''
log = os.environ.get('C20_WRAP_LOG'); stage = os.environ.get('C20_WRAP_STAGE', '')
if log:
    with open(log, 'a') as f: f.write(('link ' if link else 'cc ') + target + '\n')
def die():
    os.kill(os.getppid(), signal.SIGKILL); os._exit(9)
if (stage == 'cc' and not link) or (stage == 'ld' and link): die()
rc = subprocess.call(['gcc'] + args)
if link and rc == 0 and stage in ('midlink', 'hold'):
    # an interrupted linker: only the first quarter of the output has reached the disk
    full = open(target, 'rb').read()
    with open(target, 'wb') as f: f.write(full[:len(full) // 4])
    if stage == 'midlink': die()
    flag = os.environ['C20_WRAP_RELEASE']
    open(flag + '.held', 'w').close()
    while not os.path.exists(flag): time.sleep(0.01)
    with open(target, 'wb') as f: f.write(full)
if link and stage == 'postlink': die()
sys.exit(rc)
'''

CLASSES = ['trunc0', 'header', 'page', 'quarter', 'half', 'allbut1', 'garbage', 'delete']
KINDS = ['pyx', 'c', 'o', 'so']


def child_env(cache, extra=None):
    env = dict(os.environ)
    env.pop('PYIGA_VERIF', None); env.pop('PYIGA_VERIF_COMPILE_FAULT', None)
    env['XDG_CACHE_HOME'] = cache
    env['OMP_NUM_THREADS'] = '1'
    env['OPENBLAS_NUM_THREADS'] = '1'
    if extra:
        env.update(extra)
    return env


def run_worker(cache, form='mass', t0=0.0, extra=None, timeout=300):
    """one fresh process requesting `form`; returns dict(outcome=ok|wrong|exc|signal|timeout, ...)"""
    p = subprocess.Popen([PY, '-B', '-c', WORKER, form, repr(t0)], env=child_env(cache, extra),
                         stdout=subprocess.PIPE, stderr=subprocess.DEVNULL, start_new_session=True)
    try:
        o, _ = p.communicate(timeout=timeout)
    except subprocess.TimeoutExpired:
        kill_group(p)
        return {'outcome': 'timeout'}
    return parse_worker(p.returncode, o)


def parse_worker(rc, o):
    if rc < 0:
        return {'outcome': 'signal', 'signal': -rc}
    try:
        return json.loads(o.decode().strip().split('\n')[-1])
    except Exception:
        return {'outcome': 'exit', 'rc': rc}


def kill_group(p):
    try:
        os.killpg(p.pid, signal.SIGKILL)
    except ProcessLookupError:
        pass
    p.wait()


def abstract_outcome(r):
    """real outcome -> model token"""
    if r['outcome'] == 'ok':
        return 'loaded'
    if r['outcome'] in ('signal',):
        return 'crashed'
    if r['outcome'] in ('exc', 'wrong'):
        return 'failed'
    return r['outcome']


# ----------------------------------------------------------------------------- directory
def moddir(cache):
    return os.path.join(cache, 'pyiga', 'modules')


def elf_complete(path):
    try:
        with open(path, 'rb') as f:
            h = f.read(64)
            if len(h) < 64 or h[:4] != b'\x7fELF':
                return False
            shoff = struct.unpack_from('<Q', h, 0x28)[0]
            shentsize, shnum = struct.unpack_from('<HH', h, 0x3A)
            return os.path.getsize(path) >= shoff + shentsize * shnum and shnum > 0
    except OSError:
        return False


def probe_so(path, cache):
    p = subprocess.run([PY, '-B', '-c', PROBE, path], env=child_env(cache), stdout=subprocess.DEVNULL, stderr=subprocess.DEVNULL)
    return 'ok' if p.returncode == 0 else ('signal' if p.returncode < 0 else 'error')


def scan(cache, refsrc, probe=True):
    """classify every build artefact below MODDIR.
    returns dict abstract-path -> (state, realpath); abstract path = ('S', kind) | ('P', t, kind)."""
    md = moddir(cache)
    out = {}
    if not os.path.isdir(md):
        return out
    tmps = sorted((e for e in os.listdir(md) if e.startswith('build-') and os.path.isdir(os.path.join(md, e))),
                  key=lambda e: os.stat(os.path.join(md, e)).st_ctime_ns)
    for root, dirs, files in os.walk(md):
        for fn in files:
            p = os.path.join(root, fn)
            rel = os.path.relpath(p, md)
            top = rel.split(os.sep)[0]
            if fn.endswith('.pyx'):
                kind = 'pyx'
                try:
                    st = 'C' if open(p).read() == refsrc else 'P'
                except Exception:
                    st = 'P'
            elif fn.endswith('.c'):
                kind = 'c'
                with open(p, 'rb') as f:
                    f.seek(max(0, os.path.getsize(p) - 120)); tail = f.read()
                st = 'C' if b'Code section: end' in tail and tail.rstrip().endswith(b'Py_PYTHON_H */') else 'P'
            elif fn.endswith('.o'):
                kind = 'o'; st = 'C' if elf_complete(p) else 'P'
            elif fn.endswith('.so'):
                kind = 'so'; st = None      # decided by the sandboxed loader below
            else:
                continue
            key = ('P', tmps.index(top), kind) if top in tmps else ('S', kind)
            out[key] = (st, p)
    for key, (st, p) in list(out.items()):
        if st is None:
            pr = probe_so(p, cache) if probe else 'ok'
            out[key] = ('C' if pr == 'ok' else 'P', p, pr)
    return out


def states(sc, ntmp=2):
    """fixed-order abstract listing compared with the model"""
    keys = [('S', k) for k in KINDS] + [('P', t, k) for t in range(ntmp) for k in KINDS]
    return ' '.join((sc[k][0] + ('7' if sc[k][0] == 'C' else '')) if k in sc else 'A' for k in keys)


def model_paths(ntmp=2):
    ps = ['S 7 ' + k for k in KINDS] + ['P %d %s' % (t, k) for t in range(ntmp) for k in KINDS]
    return '%d %s' % (len(ps), ' '.join(ps))


def clone(base, dst):
    """copy a cache tree to another root; distutils puts objects under build_temp + the absolute
    source path, so path components repeating the old root are rewritten to the new root"""
    shutil.rmtree(dst, ignore_errors=True)
    ob, nb = base.lstrip('/'), dst.lstrip('/')
    for root, dirs, files in os.walk(base):
        rel = os.path.relpath(root, base)
        rel = '' if rel == '.' else rel.replace(ob, nb)
        os.makedirs(os.path.join(dst, rel), exist_ok=True)
        for fn in files:
            shutil.copy2(os.path.join(root, fn), os.path.join(dst, rel, fn))
    return dst


def inject(path, cls):
    data = open(path, 'rb').read()
    n = len(data)
    if cls == 'delete':
        os.unlink(path)
        return
    new = {'trunc0': b'', 'header': data[:64], 'page': data[:4096], 'quarter': data[:n // 4], 'half': data[:n // 2],
           'allbut1': data[:n - 1], 'garbage': bytes((i * 37 + 11) % 256 for i in range(n))}[cls]
    with open(path, 'wb') as f:
        f.write(new)


# ----------------------------------------------------------------------------- the check
class Lab:
    def __init__(self, ctx):
        self.ctx = ctx
        self.root = os.path.join(VERIF, '.cache', 'c20-%d-%d' % (os.getpid(), ctx.seed))
        # scratch trees of runs that were killed (their pid is gone) are removed here
        cdir = os.path.join(VERIF, '.cache')
        os.makedirs(cdir, exist_ok=True)
        for e in os.listdir(cdir):
            parts = e.split('-')
            if e.startswith('c20-') and len(parts) == 3 and parts[1].isdigit() and not os.path.exists('/proc/' + parts[1]):
                shutil.rmtree(os.path.join(cdir, e), ignore_errors=True)
        shutil.rmtree(self.root, ignore_errors=True)
        os.makedirs(self.root)
        self.wrapper = os.path.join(self.root, 'cc-wrapper')
        with open(self.wrapper, 'w') as f:
            f.write(WRAPPER % {'py': PY})
        os.chmod(self.wrapper, 0o755)
        self.counter = itertools.count(1)

    def dir(self, tag):
        return os.path.join(self.root, '%s-%d' % (tag, next(self.counter)))

    def close(self):
        shutil.rmtree(self.root, ignore_errors=True)


def record_failure(ctx, key_hint, what, replay, start_scan=None):
    """a request that did not end with a correct assembler: classify and report"""
    key = key_hint
    if start_scan is not None and ('S', 'so') in start_scan and start_scan[('S', 'so')][0] == 'P':
        key = KEY_SO
    ctx.violation(key, what, replay, True)
    ctx.count('property-failures:' + key)


def run(ctx):
    ctx.build_repo()
    ctx.require_lean(['Pyiga.Props.C20', 'drv_c20'])
    ctx.audit(['Pyiga.Props.C20'], THEOREMS, MODULES)
    if ctx.tier == 'thorough':
        ctx.leanchecker(MODULES)
    ctx.trusted += [
        'modelled, not verified: POSIX rename atomicity (the `pub` step is atomic), freshness of mkdtemp names, dlopen behaviour on '
        'truncated files (both outcomes explored), the toolchain contract (Cython/gcc/ld turn a complete input into a complete output)',
        'digest injectivity (SHAKE-128/64 bit module names): hypothesis of the theorems',
        'real scheduling is sampled (seeded start offsets, kill times); the model explores all step interleavings',
        'file classification of the harness: .pyx by equality with the generated source, .c by Cython\'s end marker, .o by ELF section table, '
        '.so by loading it in a sandboxed child',
    ]
    ctx.assumptions += ['POSIX rename atomicity within a filesystem', 'digest injectivity', 'toolchain contract', 'mkdtemp freshness']
    lab = Lab(ctx)
    try:
        _run(ctx, lab)
    finally:
        lab.close()


def _run(ctx, lab):
    quick = ctx.tier == 'quick'
    rng = ctx.rng
    src_path = os.path.join(REPO, 'pyiga', 'compile.py')
    has_hook = 'PYIGA_VERIF_COMPILE_FAULT' in open(src_path).read()

    # ---- baseline build under the logging wrapper: which paths does the real build write?
    base = lab.dir('base')
    log = base + '.log'
    t = time.time()
    r = run_worker(base, 'mass', extra={'CC': lab.wrapper, 'C20_WRAP_LOG': log})
    ctx.extra['baseline_build_s'] = round(time.time() - t, 1)
    if r.get('outcome') != 'ok' or not r.get('rebuilt'):
        raise common.InfraError('baseline build of the 1-D mass form failed: %r' % (r,))
    modname = r['mod']
    md = moddir(base)
    finals = glob.glob(os.path.join(md, modname + '*.so'))
    if len(finals) != 1:
        raise common.InfraError('no extension module at the imported path after a successful build')
    final_so = finals[0]
    targets = [l.split(' ', 1) for l in open(log).read().split('\n') if l]
    link_targets = [p for (k, p) in targets if k == 'link']
    inplace = os.path.abspath(link_targets[-1]) == os.path.abspath(final_so) if link_targets else False
    proto = 'c' if inplace else 'r'
    ctx.extra['protocol_measured'] = {'link_target_is_imported_path': inplace, 'model': 'current' if inplace else 'repaired',
                                      'hook_present': has_hook, 'o_targets': [(k, os.path.relpath(p, md)) for k, p in targets]}
    # reference generated source (for classifying .pyx files)
    p = subprocess.run([PY, '-B', '-c', 'import sys\nfrom pyiga import compile, vform\nsys.stdout.write(compile.generate(vform.mass_vf(1)))'],
                       env=child_env(base), stdout=subprocess.PIPE, stderr=subprocess.DEVNULL)
    refsrc = p.stdout.decode()
    base_scan = scan(base, refsrc)
    ctx.extra['files_after_complete_build'] = sorted('/'.join(map(str, k)) for k in base_scan)
    if any(v[0] != 'C' for v in base_scan.values()):
        raise common.InfraError('classification rejects a file of an undisturbed complete build: %r' % ({k: v[0] for k, v in base_scan.items()},))
    nsteps = 14
    build_events = ['s 0 7'] + ['r 0 0'] * nsteps

    model_reqs, model_expect = [], []

    def tie(name, events, np_, real_line, replay):
        model_reqs.append('x %s %d %s %d %s' % (proto, len(events), ' '.join(events), np_, model_paths()))
        model_expect.append((name, real_line, replay))

    pool = ThreadPoolExecutor(14)
    futs = []
    # --replay <file>: re-run only the recorded case (its stream and parameters)
    rp = None
    if getattr(ctx, 'replay_file', None):
        rp = json.load(open(ctx.replay_file)).get('replay', {})

    def want(stream, **kw):
        if rp is None:
            return True
        if rp.get('stream') != stream:
            return False
        return all(json.loads(json.dumps(v)) == rp.get(k) for k, v in kw.items())

    # ---- stream A: complete build, one external fault, fresh process --------------------------
    def fault_case(akey, cls):
        d = clone(base, lab.dir('fault'))
        sc0 = scan(d, refsrc, probe=False)
        inject(sc0[akey][1], cls)
        # the .so was loadable in the undisturbed copy (probed once for the baseline); re-probe only if it was touched
        sc1 = scan(d, refsrc, probe=(akey[-1] == 'so'))
        r1 = run_worker(d)
        changed = r1.get('outcome') != 'ok' or r1.get('rebuilt')
        sc2 = scan(d, refsrc, probe=bool(changed)) if (changed or akey[-1] != 'so') else sc1
        # and once more (the damage must not persist); identical to the first run if nothing was rewritten
        r2 = run_worker(d) if changed else r1
        shutil.rmtree(d, ignore_errors=True)
        return ('fault', akey, cls, sc1, r1, sc2, r2)

    for akey in sorted(base_scan):
        # quick tier: every class on the extension module, two seeded classes on each other artefact
        cl = CLASSES if (akey[-1] == 'so' or not quick) else [CLASSES[i] for i in sorted(rng.permutation(len(CLASSES))[:2].tolist())]
        for cls in (CLASSES if rp else cl):
            if want('fault', **{'file': akey, 'class': cls}):
                futs.append(pool.submit(fault_case, akey, cls))

    # ---- stream B: build killed at a stage, fresh process ---------------------------------------
    mk = 0 if inplace else 1
    stages = [('wrap', 'cc', 5 + mk), ('wrap', 'ld', 7 + mk), ('wrap', 'midlink', 8 + mk), ('wrap', 'postlink', 9 + mk)]
    if has_hook and not inplace:
        stages += [('hook', 'after-pyx', 4), ('hook', 'after-cythonize:kill', 6), ('hook', 'before-publish', 10), ('hook', 'after-publish:kill', 11)]

    def stage_case(how, stage, k, second_fault=None):
        d = lab.dir('stage')
        extra = {'CC': lab.wrapper, 'C20_WRAP_STAGE': stage} if how == 'wrap' else {'PYIGA_VERIF': '1', 'PYIGA_VERIF_COMPILE_FAULT': stage}
        r0 = run_worker(d, extra=extra)
        if second_fault is not None:
            sc = scan(d, refsrc, probe=False)
            akey, cls = second_fault
            if akey not in sc:
                shutil.rmtree(d, ignore_errors=True)
                return None
            inject(sc[akey][1], cls)
        sc1 = scan(d, refsrc)
        r1 = run_worker(d)
        sc2 = scan(d, refsrc)
        shutil.rmtree(d, ignore_errors=True)
        return ('stage', how, stage, k, second_fault, r0, sc1, r1, sc2)

    for (how, stage, k) in stages:
        if want('stage', stage=stage, then_fault=None):
            futs.append(pool.submit(stage_case, how, stage, k))
    # faults in sequence across restarts: every file a killed build leaves x fault classes
    seq = [(('wrap', 'postlink', 9 + mk), ((('S',) if inplace else ('P', 0)) + (kind,)), cls)
           for kind in KINDS for cls in CLASSES if not (inplace and kind == 'so')]
    seq += [(('wrap', 'ld', 7 + mk), ((('S',) if inplace else ('P', 0)) + (kind,)), cls) for kind in ('pyx', 'c', 'o') for cls in CLASSES]
    if quick and not rp:
        seq = [seq[i] for i in sorted(rng.permutation(len(seq))[:3].tolist())]
    for (st, akey, cls) in seq:
        if want('stage', stage=st[1], then_fault=(akey, cls)):
            futs.append(pool.submit(stage_case, st[0], st[1], st[2], (akey, cls)))

    # ---- stream C: SIGKILL of the whole build (process group) at seeded random times -----------
    def kill_case(milestone, jitter):
        """SIGKILL the whole process group `jitter` seconds after the first file of kind `milestone` appears anywhere
        below MODDIR (kill points are tied to the build's own progress, so they do not depend on machine load)"""
        d = lab.dir('kill')
        p = subprocess.Popen([PY, '-B', '-c', WORKER, 'mass', '0'], env=child_env(d), stdout=subprocess.PIPE,
                             stderr=subprocess.DEVNULL, start_new_session=True)
        suffix = {'pyx': '.pyx', 'c': '.c', 'o': '.o', 'so': '.so'}[milestone]
        seen = None
        t = time.time()
        while p.poll() is None and time.time() - t < 600:
            if seen is None:
                for root, dirs, files in os.walk(d):
                    if any(f.endswith(suffix) for f in files):
                        seen = time.time()
            if seen is not None and time.time() - seen >= jitter:
                break
            time.sleep(0.003)
        finished = p.poll() is not None
        kill_group(p)
        sc1 = scan(d, refsrc)
        r1 = run_worker(d)
        shutil.rmtree(d, ignore_errors=True)
        return ('kill', '%s+%.3fs' % (milestone, jitter), finished, sc1, r1)

    nk = (4 if quick else 32) if want('kill') else 0
    for _ in range(nk):
        m = str(rng.choice(['pyx', 'c', 'o', 'o', 'so']))
        jit = float(rng.random()) * {'pyx': 2.0, 'c': 4.0, 'o': 0.2, 'so': 0.05}[m]
        futs.append(pool.submit(kill_case, m, jit))

    # ---- stream D: racing processes ----------------------------------------------------------------------
    def race(forms, offsets):
        d = lab.dir('race')
        os.makedirs(d)
        t0 = time.time() + 4.0
        ps = [subprocess.Popen([PY, '-B', '-c', WORKER, f, repr(t0 + off)], env=child_env(d), stdout=subprocess.PIPE,
                               stderr=subprocess.DEVNULL, start_new_session=True) for f, off in zip(forms, offsets)]
        outs = []
        for p in ps:
            try:
                o, _ = p.communicate(timeout=600)
                outs.append(parse_worker(p.returncode, o))
            except subprocess.TimeoutExpired:
                kill_group(p)
                outs.append({'outcome': 'timeout'})
        after = [run_worker(d, f) for f in sorted(set(forms))]
        left = sorted(os.listdir(moddir(d))) if os.path.isdir(moddir(d)) else []
        shutil.rmtree(d, ignore_errors=True)
        return ('race', forms, [round(o, 3) for o in offsets], outs, after, left)

    def held_link_race():
        """schedule-controlled witness (Props.C20.witnessRaceImport): A's linker has written part of its output and is
        descheduled; B requests the same form; then A continues."""
        d = lab.dir('held')
        os.makedirs(d)
        flag = d + '.release'
        pa = subprocess.Popen([PY, '-B', '-c', WORKER, 'mass', '0'], env=child_env(d, {'CC': lab.wrapper, 'C20_WRAP_STAGE': 'hold', 'C20_WRAP_RELEASE': flag}),
                              stdout=subprocess.PIPE, stderr=subprocess.DEVNULL, start_new_session=True)
        t = time.time()
        while not os.path.exists(flag + '.held') and time.time() - t < 240 and pa.poll() is None:
            time.sleep(0.05)
        held = os.path.exists(flag + '.held')
        rb = run_worker(d) if held else {'outcome': 'not-run'}
        open(flag, 'w').close()
        try:
            o, _ = pa.communicate(timeout=300)
            ra = parse_worker(pa.returncode, o)
        except subprocess.TimeoutExpired:
            kill_group(pa); ra = {'outcome': 'timeout'}
        rc = run_worker(d)
        shutil.rmtree(d, ignore_errors=True)
        return ('held', held, ra, rb, rc)

    rounds = []
    ns = [2, 6] if quick else [2, 3, 4, 6, 8, 12, 16]
    for n in ns:
        spread = float(rng.choice([0.0, 0.5, 3.0]))
        rounds.append((['mass'] * n, (spread * rng.random(n)).tolist()))
    rounds.append((['mass', 'stiff'] * (2 if quick else 4), (0.3 * rng.random(4 if quick else 8)).tolist()))
    # ---- stream E: long-lived processes, external cache wipes between their requests ------------------------
    def read_answer(proc, buf, timeout=600):
        """one JSON line from the session's stdout, or None if it died / timed out"""
        t = time.time()
        while b'\n' not in buf[0]:
            if time.time() - t > timeout:
                return None
            r, _, _ = select.select([proc.stdout], [], [], 1.0)
            if r:
                chunk = os.read(proc.stdout.fileno(), 65536)
                if not chunk:
                    return None
                buf[0] += chunk
        line, buf[0] = buf[0].split(b'\n', 1)
        try:
            return json.loads(line.decode())
        except Exception:
            return None

    def fresh_request(d, k):
        p = subprocess.run([PY, '-B', '-c', SESSION], input=('req %d\nquit\n' % k).encode(), env=child_env(d),
                           stdout=subprocess.PIPE, stderr=subprocess.DEVNULL, timeout=900)
        if p.returncode < 0:
            return {'outcome': 'signal', 'signal': -p.returncode, 'k': k}
        try:
            return json.loads(p.stdout.decode().strip().split('\n')[0])
        except Exception:
            return {'outcome': 'exit', 'rc': p.returncode, 'k': k}

    def session_case(hist):
        """hist: list of ('req', k) | ('fresh', k) | ('wipe',) | ('delso', k).  `req` are the successive requests of ONE
        long-lived process; `wipe` is scripts/clear-cache.py run by another process on the same cache."""
        d = lab.dir('sess')
        os.makedirs(d)
        sess = subprocess.Popen([PY, '-B', '-c', SESSION], env=child_env(d), stdin=subprocess.PIPE, stdout=subprocess.PIPE,
                                stderr=subprocess.DEVNULL, start_new_session=True)
        buf = [b'']
        alive = True
        mods = {}
        done = []
        for op in hist:
            op = tuple(op)
            if op[0] == 'req':
                if not alive:
                    done.append((op, {'outcome': 'session-dead', 'k': op[1]}))
                    continue
                try:
                    sess.stdin.write(('req %d\n' % op[1]).encode()); sess.stdin.flush()
                    r = read_answer(sess, buf)
                except (BrokenPipeError, OSError):
                    r = None
                if r is None:
                    alive = False
                    kill_group(sess)
                    rc = sess.returncode
                    r = {'outcome': 'signal', 'signal': -rc, 'k': op[1]} if rc is not None and rc < 0 else {'outcome': 'exit', 'rc': rc, 'k': op[1]}
                done.append((op, r))
            elif op[0] == 'fresh':
                r = fresh_request(d, op[1])
                done.append((op, r))
            elif op[0] == 'wipe':
                script = os.path.join(REPO, 'scripts', 'clear-cache.py')
                how = 'nothing to remove'
                if os.path.isdir(moddir(d)):
                    how = 'scripts/clear-cache.py'
                    pr = subprocess.run([PY, '-B', script], env=child_env(d), stdout=subprocess.DEVNULL, stderr=subprocess.DEVNULL)
                    if pr.returncode != 0 or os.path.isdir(moddir(d)):
                        how = 'rm -rf (clear-cache.py exit %d)' % pr.returncode
                        shutil.rmtree(moddir(d), ignore_errors=True)
                done.append((op, {'outcome': 'wiped', 'how': how}))
                continue
            elif op[0] == 'delso':
                fs = glob.glob(os.path.join(moddir(d), mods.get(op[1], 'no-such-module') + '*.so'))
                if not fs:
                    continue            # nothing published under that name: the event is dropped from the history
                for f in fs:
                    os.unlink(f)
                done.append((op, {'outcome': 'deleted'}))
                continue
            if r.get('outcome') == 'ok' and r.get('mod'):
                mods[op[1]] = r['mod']
        if alive:
            try:
                sess.stdin.write(b'quit\n'); sess.stdin.flush()
                sess.wait(timeout=30)
            except Exception:
                pass
            kill_group(sess)
        # published entries that load
        pub = []
        if os.path.isdir(moddir(d)):
            for f in sorted(glob.glob(os.path.join(moddir(d), 'mod*.so'))):
                pub.append((os.path.basename(f).split('.')[0], probe_so(f, d)))
        shutil.rmtree(d, ignore_errors=True)
        return ('session', done, mods, pub)

    def gen_history(nforms, nmid, ntail):
        """random history; always contains the pattern  session request … wipe … session request of a form the session has
        not seen  (the later requests of a long-lived process after its cache was cleared), the rest is free"""
        ks = [int(k) for k in rng.permutation(nforms) + 1]
        seen = [ks[0]]
        h = [('req', ks[0])]

        def free(n):
            for _ in range(n):
                kind = str(rng.choice(['req', 'req', 'fresh', 'wipe', 'delso']))
                if kind == 'wipe':
                    h.append(('wipe',))
                else:
                    k = int(rng.choice(ks))
                    h.append((kind, k))
                    if kind == 'req' and k not in seen:
                        seen.append(k)
        free(nmid)
        new = [k for k in ks if k not in seen]
        h.append(('wipe',))
        h.append(('req', new[0] if new else ks[0]))
        free(ntail)
        # afterwards every form is requested once more by a fresh process
        return h + [('fresh', k) for k in sorted(set(op[1] for op in h if len(op) > 1))]

    hists = [gen_history(2, 0, 1), gen_history(3, 1, 1)] if quick else [gen_history(int(rng.integers(2, 5)), int(rng.integers(0, 3)), int(rng.integers(0, 3))) for _ in range(8)]
    if rp is not None:
        hists = [rp['history']] if rp.get('stream') == 'session' else []
    sfuts = [pool.submit(session_case, h) for h in hists]

    # ---- stream F: concurrent FIRST requests on a cache directory that does not exist yet ---------------------
    def first_race(n, tag):
        """n fresh processes import pyiga, report ready, and are released together (spin on a common wall-clock instant)
        immediately before compile_cython_module(src) on an XDG_CACHE_HOME in which pyiga/modules does not exist"""
        d = lab.dir('first')
        sync = os.path.join(d, 'sync')
        os.makedirs(sync)
        cache = os.path.join(d, 'cache')
        ps = [subprocess.Popen([PY, '-B', '-c', FIRST, sync, str(i), str(tag)], env=child_env(cache), stdout=subprocess.PIPE,
                               stderr=subprocess.DEVNULL, start_new_session=True) for i in range(n)]
        t = time.time()
        while len([f for f in os.listdir(sync) if f.startswith('ready-')]) < n and time.time() - t < 600 and all(p.poll() is None for p in ps):
            time.sleep(0.01)
        with open(os.path.join(sync, 'go.tmp'), 'w') as f:
            f.write(repr(time.time() + 0.3))
        os.replace(os.path.join(sync, 'go.tmp'), os.path.join(sync, 'go'))
        outs = []
        for p in ps:
            try:
                o, _ = p.communicate(timeout=600)
                outs.append(parse_worker(p.returncode, o))
            except subprocess.TimeoutExpired:
                kill_group(p)
                outs.append({'outcome': 'timeout'})
        shutil.rmtree(d, ignore_errors=True)
        return ('first', n, tag, outs)

    frounds = [(6, 101), (8, 102)] if quick else [(int(n), 100 + i) for i, n in enumerate(rng.integers(4, 9, size=6))]
    if rp is not None:
        frounds = [(rp['processes'], 101), (rp['processes'], 102)] if rp.get('stream') == 'first-request-race' else []

    # quick: all rounds at once next to the other streams; thorough: one round at a time (cleaner timing)
    if rp is not None:
        rounds = [(rp['forms'], rp['start_offsets_s'])] * 3 if rp.get('stream') == 'race' else []
    rpool = ThreadPoolExecutor(len(rounds) + 1 if quick else 1)
    rpool2 = ThreadPoolExecutor(2 if quick else 1)
    ffuts = [rpool2.submit(first_race, n, tag) for n, tag in frounds]
    rfuts = [rpool.submit(race, f, o) for f, o in rounds] + [rpool.submit(held_link_race) for _ in range((1 if quick else 3) if want('held-link-race') else 0)]

    results = [f.result() for f in futs]
    sres = [f.result() for f in sfuts]
    pool.shutdown()

    # ---- evaluate A, B, C ---------------------------------------------------------------------------
    reach_note = []
    for res in results:
        if res is None:
            continue
        if res[0] == 'fault':
            _, akey, cls, sc1, r1, sc2, r2 = res
            name = 'fault %s %s' % ('/'.join(map(str, akey)), cls)
            ctx.case(('fault', akey, cls, proto))
            ctx.count('fault-cases')
            ctx.count('outcome:' + r1['outcome'] + (':rebuilt' if r1.get('rebuilt') else ''))
            if akey[-1] == 'so' and cls in ('header', 'quarter', 'half', 'delete'):
                ctx.sample('%s -> %s' % (name, json.dumps(r1)), limit=12)
            replay = {'stream': 'fault', 'file': akey, 'class': cls, 'start_state': states(sc1), 'first_fresh_process': r1, 'second_fresh_process': r2,
                      'how': 'compile vform.mass_vf(1) in an empty XDG_CACHE_HOME, apply the fault to the named file, run compile_vform+assemble in a fresh process'}
            # a non-loadable file at the imported path is reachable by interruption only if the build writes that path in place
            # ... so with a private link target only corruption that the loader *rejects* (ImportError: the code is meant to rebuild) or
            # deletion stays in scope; a published file damaged afterwards so that dlopen itself dies cannot be handled in-process
            # The property text names the classes empty / header-only / half / all-but-last-byte / deletion / garbage for every file the
            # build writes: those are always in scope.  `page` and `quarter` are extra classes of this harness, recorded only.
            external_only = (akey == ('S', 'so') and not inplace and cls in ('page', 'quarter') and len(sc1.get(akey, ())) > 2 and sc1[akey][2] == 'signal')
            for which, rr in (('first', r1), ('second', r2)):
                if rr['outcome'] != 'ok':
                    what = '%s: %s fresh process after the fault ended with %s' % (name, which, json.dumps(rr))
                    if external_only:
                        reach_note.append(what)
                        ctx.count('external-corruption-of-published-entry-not-survived')
                    else:
                        record_failure(ctx, 'fault:%s-%s' % (akey[-1], cls), what, replay, sc1)
                    break
            # model tie
            fs = 'A' if cls == 'delete' else ('C 7' if sc1.get(akey, ('A',))[0] == 'C' else 'P')
            mpath = ('S 7 %s' % akey[1]) if akey[0] == 'S' else ('P %d %s' % (akey[1], akey[2]))
            crash = 1 if (('S', 'so') in sc1 and len(sc1[('S', 'so')]) > 2 and sc1[('S', 'so')][2] == 'signal') else 0
            ev = build_events + ['f %s %s' % (mpath, fs), 's 1 7'] + ['r 1 %d' % crash] * nsteps
            real = 'pc loaded %s built 1 %d files %s' % (abstract_outcome(r1), 1 if r1.get('rebuilt') else 0, states(sc2))
            tie(name, ev, 2, real, replay)
        elif res[0] == 'stage':
            _, how, stage, k, second, r0, sc1, r1, sc2 = res
            name = 'stage %s%s' % (stage, (' then %s %s' % ('/'.join(map(str, second[0])), second[1])) if second else '')
            ctx.case(('stage', how, stage, second, proto))
            ctx.count('stage-cases')
            ctx.sample('%s: killed builder %s, state %s -> %s' % (name, json.dumps(r0), states(sc1), json.dumps(r1)), limit=12)
            replay = {'stream': 'stage', 'stage': stage, 'via': how, 'then_fault': second, 'killed_builder': r0, 'state_after_kill': states(sc1), 'fresh_process': r1}
            if r0['outcome'] not in ('signal', 'exit'):
                ctx.violation('stage-not-reached', '%s: the builder was not stopped at the stage (%s)' % (name, json.dumps(r0)), replay, False)
                continue
            if r1['outcome'] != 'ok':
                record_failure(ctx, 'crash:%s' % stage, '%s: fresh process after the interrupted build ended with %s' % (name, json.dumps(r1)), replay, sc1)
            ev = ['s 0 7'] + ['r 0 0'] * k + ['k 0']
            if second:
                akey, cls = second
                fs = 'A' if cls == 'delete' else ('C 7' if sc1.get(akey, ('A',))[0] == 'C' else 'P')
                mpath = ('S 7 %s' % akey[1]) if akey[0] == 'S' else ('P %d %s' % (akey[1], akey[2]))
                ev.append('f %s %s' % (mpath, fs))
            # 1st tie: the directory right after the kill
            tie(name + ' [state after kill]', ev, 1, 'pc killed built 1 files %s' % states(sc1), replay)
            crash = 1 if (('S', 'so') in sc1 and len(sc1[('S', 'so')]) > 2 and sc1[('S', 'so')][2] == 'signal') else 0
            ev2 = ev + ['s 1 7'] + ['r 1 %d' % crash] * nsteps
            tie(name + ' [fresh process]', ev2, 2, 'pc killed %s built 1 %d files %s' % (abstract_outcome(r1), 1 if r1.get('rebuilt') else 0, states(sc2)), replay)
        elif res[0] == 'kill':
            _, delay, finished, sc1, r1 = res
            ctx.case(('kill', delay))
            ctx.count('random-kill-cases')
            ctx.count('random-kill-state:' + states(sc1, 1))
            replay = {'stream': 'kill', 'kill_point': delay, 'builder_finished_before_kill': finished, 'state_after_kill': states(sc1), 'fresh_process': r1}
            if r1['outcome'] != 'ok':
                record_failure(ctx, 'kill:random-time', 'SIGKILL of the build at %s left %s; fresh process ended with %s' % (delay, states(sc1), json.dumps(r1)), replay, sc1)
            # safety clause of the invariant, observed: the imported path is absent or loadable
            if not inplace and ('S', 'so') in sc1 and sc1[('S', 'so')][0] != 'C':
                ctx.violation('final-path-partial', 'kill at %s left a non-loadable file at the imported path although the link target is private' % delay, replay, True)
    if reach_note:
        ctx.notes.append('external corruption of an already published entry (not reachable by interrupting this protocol: the link target is a private '
                         'directory and the entry appears by rename) is not survived for: ' + '; '.join(reach_note[:6]))
        ctx.extra['external_corruption_not_survived'] = reach_note

    # ---- model answers ---------------------------------------------------------------------------------
    # every directory a randomly timed SIGKILL leaves must be a directory the model can be killed in
    kreqs = ['x %s %d %s 1 %s' % (proto, k + 2, ' '.join(['s 0 7'] + ['r 0 0'] * k + ['k 0']), model_paths()) for k in range(nsteps + 1)]
    kstates = set(a.split(' files ')[1].rsplit(' tmp ', 1)[0] for a in ctx.model('drv_c20', kreqs))
    # shutil.rmtree is one step (`clean`) in the model but deletes file by file: accept its intermediate directories
    for st in list(kstates):
        toks = st.split(' ')
        if toks[3] == 'C7' and toks[7] == 'A' and toks[4:7] == ['C7'] * 3:
            for mask in range(8):
                kstates.add(' '.join(toks[:4] + [('A' if mask >> j & 1 else 'C7') for j in range(3)] + toks[7:]))
    nk_bad = 0
    for res in results:
        if res is not None and res[0] == 'kill':
            st = states(res[3])
            if st not in kstates:
                nk_bad += 1
                ctx.violation('model-diff:kill-state', 'SIGKILL at %s left the directory `%s`, which is not a state of the model after any number of steps and a kill' % (res[1], st),
                              {'stream': 'kill', 'kill_point': res[1], 'state': st, 'model_states': sorted(kstates)}, False)
    ctx.obligation('correspondence: every directory left by a randomly timed SIGKILL is a kill state of the model', nk_bad == 0, '%d outside' % nk_bad)
    answers = ctx.model('drv_c20', model_reqs)
    bad = 0
    for req, ans, (name, real, replay) in zip(model_reqs, answers, model_expect):
        got = ans.rsplit(' tmp ', 1)[0].replace('loaded:7', 'loaded')
        if got != real:
            bad += 1
            rp = dict(replay, model_request=req, model_answer=got, implementation=real)
            # the property itself is evaluated above (record_failure); a pure model/implementation disagreement is reported as such
            ctx.violation('model-diff:' + name.split(' ')[0], 'model and implementation disagree on "%s": model `%s`, real `%s`' % (name, got, real), rp, False)
        ctx.count('model-ties')
    ctx.obligation('correspondence: %d model traces equal the real subprocess outcomes (protocol %s)' % (len(model_reqs), 'current' if inplace else 'repaired'),
                   bad == 0, '%d disagreements' % bad)

    rres = [f.result() for f in rfuts]
    rpool.shutdown()

    for res in rres:
        if res[0] == 'race':
            _, forms, offs, outs, after, left = res
            ctx.case(('race', tuple(forms), tuple(offs)))
            ctx.count('race-rounds')
            ctx.count('race-processes', len(forms))
            nbad = [o for o in outs if o['outcome'] != 'ok']
            ctx.sample('race %s offsets %s -> %s' % (forms, offs, [o['outcome'] + (':' + o.get('kind', '') if o['outcome'] == 'exc' else '') for o in outs]), limit=16)
            replay = {'stream': 'race', 'forms': forms, 'start_offsets_s': offs, 'outcomes': outs, 'fresh_processes_afterwards': after, 'moddir_afterwards': left}
            same = len(set(forms)) == 1
            if nbad:
                ctx.count('race-failed-requests', len(nbad))
                ctx.violation(KEY_RACE if same else 'race:concurrent-distinct-forms',
                              '%d of %d processes racing on %s did not obtain a correct assembler: %s' % (len(nbad), len(forms), sorted(set(forms)), json.dumps(nbad[:3])), replay, True)
            for a in after:
                if a['outcome'] != 'ok':
                    ctx.violation(KEY_RACE if same else 'race:concurrent-distinct-forms', 'fresh process after the race ended with %s' % json.dumps(a), replay, True)
                elif a.get('rebuilt') and not nbad:
                    ctx.violation('race:entry-not-published', 'after a race in which a builder succeeded the entry was not loadable from the cache (rebuilt)', replay, True)
        else:
            _, held, ra, rb, rc = res
            ctx.case(('held-link-race',))
            ctx.count('held-link-races')
            replay = {'stream': 'held-link-race', 'A (linker descheduled after writing a quarter of its output)': ra, 'B (requests the same form meanwhile)': rb,
                      'fresh process afterwards': rc, 'lean_witness': 'Pyiga.Props.C20.witnessRaceImport'}
            ctx.sample('held-link race: A %s, B %s, afterwards %s' % (ra['outcome'], rb['outcome'], rc['outcome']), limit=17)
            if not held:
                ctx.violation('held-link-not-reached', 'the linker wrapper never reached its hold point: %s' % json.dumps(ra), replay, False)
                continue
            for who, rr in (('B', rb), ('A', ra), ('afterwards', rc)):
                if rr['outcome'] != 'ok':
                    ctx.violation(KEY_RACE, 'while process A\'s linker was writing the imported path, %s ended with %s' % (who, json.dumps(rr)), replay, True)
                    break
            # model: B imports during A's link (crash flag = what the loader really did)
            mka = 8 + mk
            crash = 1 if rb['outcome'] == 'signal' else 0
            ev = ['s 0 7'] + ['r 0 0'] * mka + ['s 1 7'] + ['r 1 %d' % crash] * nsteps + ['r 0 0'] * nsteps
            ans = ctx.model('drv_c20', ['x %s %d %s 2 0' % (proto, len(ev), ' '.join(ev))])[0]
            real = 'pc %s %s' % (abstract_outcome(ra), abstract_outcome(rb))
            got = ans.split(' built ')[0].replace('loaded:7', 'loaded')
            ok = got == real
            ctx.obligation('correspondence: held-link race equals the model trace witnessRaceImport under protocol %s' % ('current' if inplace else 'repaired'),
                           ok, 'model `%s` real `%s`' % (got, real))
            if not ok:
                ctx.violation('model-diff:held-link-race', 'model `%s`, real `%s`' % (got, real), replay, False)

    # ---- evaluate F ---------------------------------------------------------------------------------------
    for (_, n, tag, outs) in [f.result() for f in ffuts]:
        ctx.case(('first-request-race', n, tag))
        ctx.count('first-request-rounds')
        ctx.count('first-request-processes', n)
        ctx.sample('first requests x%d on a non-existent cache dir -> %s' % (n, [o['outcome'] + (':' + o.get('kind', '') if o['outcome'] == 'exc' else '') for o in outs]), limit=24)
        replay = {'stream': 'first-request-race', 'processes': n, 'outcomes': outs,
                  'how': 'n fresh processes, XDG_CACHE_HOME without pyiga/modules, released together right before compile_cython_module("def answer(): return <tag>")'}
        nbad = [o for o in outs if o['outcome'] != 'ok']
        if nbad:
            ctx.violation('race:concurrent-first-request', '%d of %d processes issuing their first compile request at the same moment on a cache directory that did not exist yet '
                          'did not obtain a module: %s' % (len(nbad), n, json.dumps(nbad[:3])), replay, True)
        ev = ['s %d 9' % i for i in range(n)] + ['r %d 0' % i for _ in range(nsteps) for i in range(n)]
        ans = ctx.model('drv_c20', ['x %s %d %s %d 0' % (proto, len(ev), ' '.join(ev), n)])[0].split(' built ')[0]
        real = 'pc ' + ' '.join('loaded:9' if o['outcome'] == 'ok' else abstract_outcome(o) for o in outs)
        ctx.count('model-ties')
        if proto == 'r' and ans != real:
            ctx.violation('model-diff:first-request-race', 'model `%s`, real `%s`' % (ans, real), dict(replay, model_answer=ans), False)
    rpool2.shutdown()

    # ---- evaluate E ---------------------------------------------------------------------------------------
    sreqs, sexp = [], []
    for (_, done, mods, pub) in sres:
        hist = [list(op) for op, _ in done]
        ctx.case(('session', tuple(map(tuple, hist))))
        ctx.count('session-histories')
        ctx.sample('session %s -> %s' % (' '.join('%s%s' % (op[0], op[1] if len(op) > 1 else '') for op in hist),
                                       [r['outcome'] + (':rebuilt' if r.get('rebuilt') else '') for _, r in done if r['outcome'] not in ('wiped', 'deleted')]), limit=20)
        replay = {'stream': 'session', 'history': hist, 'results': [r for _, r in done],
                  'how': 'req k = k-th..: successive requests (form (1+k/8)*u*v*dx on a stretched segment) of ONE long-lived process; fresh k = the same request in a '
                         'new process; wipe = scripts/clear-cache.py run by another process on the same XDG_CACHE_HOME; delso k = delete the published entry'}
        wiped = False
        in_session = set()      # forms the long-lived process holds in its in-process (level 1) cache
        ev, slots, real_pc, real_built = [], 0, [], []
        for op, r in done:
            if op[0] == 'wipe':
                wiped = True; ev.append('w'); ctx.count('session-wipes'); continue
            if op[0] == 'delso':
                ev.append('f S %d so A' % op[1]); continue
            ctx.count('session-requests' if op[0] == 'req' else 'session-fresh-requests')
            if r['outcome'] != 'ok':
                key = 'session:request-after-cache-wipe' if (wiped and op[0] == 'req') else 'session:%s' % ('request' if op[0] == 'req' else 'fresh-request')
                ctx.violation(key, '%s in history %s ended with %s' % ('request %d of the long-lived process' % op[1] if op[0] == 'req' else 'fresh process requesting form %d' % op[1],
                                                                      ' '.join('%s%s' % (o[0], o[1] if len(o) > 1 else '') for o in hist), json.dumps(r)), replay, True)
            if op[0] == 'req' and op[1] in in_session:
                continue            # served by compile_vform's in-process cache: no protocol step, nothing to compare with the disk model
            if op[0] == 'req' and r['outcome'] == 'ok':
                in_session.add(op[1])
            ev += ['s %d %d' % (slots, op[1])] + ['r %d 0' % slots] * nsteps
            slots += 1
            real_pc.append('loaded:%d' % op[1] if r['outcome'] == 'ok' else abstract_outcome(r))
            real_built.append('1' if r.get('rebuilt') else '0')
        forms = sorted(set(op[1] for op, _ in done if len(op) > 1))
        known = all(k in mods for k in forms)
        okpub = set(m for m, st in pub if st == 'ok')
        real_files = ' '.join(('C%d' % k if mods.get(k) in okpub else ('P' if mods.get(k) in dict(pub) else 'A')) for k in forms)
        sreqs.append('x %s %d %s %d %d %s' % (proto, len(ev), ' '.join(ev), slots, len(forms), ' '.join('S %d so' % k for k in forms)))
        sexp.append(('pc %s built %s files %s' % (' '.join(real_pc), ' '.join(real_built), real_files), known, replay))
    sbad = 0
    for req, ans, (real, known, replay) in zip(sreqs, ctx.model('drv_c20', sreqs), sexp):
        got = ans.rsplit(' tmp ', 1)[0]
        if not known:
            got, real = got.split(' files ')[0], real.split(' files ')[0]
        ctx.count('model-ties')
        if got != real:
            sbad += 1
            ctx.violation('model-diff:session', 'model and implementation disagree on a session history: model `%s`, real `%s`' % (got, real),
                          dict(replay, model_request=req, model_answer=got, implementation=real), False)
    ctx.obligation('correspondence: %d session histories with external cache wipes equal the model (wipe = empty directory, next request rebuilds and publishes)' % len(sreqs),
                   sbad == 0, '%d disagreements' % sbad)

    import resource
    ru = resource.getrusage(resource.RUSAGE_CHILDREN)
    ctx.extra['children_cpu_s'] = round(ru.ru_utime + ru.ru_stime, 1)     # wall time on an idle 16-core machine ~ this / 16 + serial parts
    ctx.rule = ('1-D mass form (and stiffness for distinct-form races) compiled in scratch caches; every file left by a complete build x '
                '{empty, 64-byte header, one page, quarter, half, all-but-last-byte, garbage, delete} then two fresh processes; builds killed when gcc is '
                'invoked for compile/link, after a truncated link, after the link (+ hook stages when present), then a fresh process, also with a second '
                'fault on a file the killed build left; SIGKILL of the process group at seeded random times; 2..8(16) processes racing on the same '
                'and on two forms with seeded start offsets; a schedule-controlled race (linker descheduled mid-write); long-lived processes making several '
                'requests (forms (1+k/8)*u*v*dx) with external cache wipes (scripts/clear-cache.py), entry deletions and fresh-process requests in between; 4..8 fresh processes released together by a barrier right before their FIRST '
                'compile_cython_module call on a cache directory that does not exist yet')
    ctx.notes.append('cannot exhibit: kernel rename/dlopen semantics (rename atomicity is an assumption of safe_repaired; both loader reactions to a '
                     'partial file are modelled and whichever the sandboxed probe observes is compared), real scheduling (sampled here, exhaustively interleaved in the model)')
    if inplace:
        ctx.notes.append('measured protocol = in-place (the linker writes the imported path): Props.C20.current_unsafe applies; '
                         'safe_repaired does NOT describe this tree (regression of fix bd865f5)')
        ctx.level = 'proof (partial)'
    else:
        ctx.notes.append('measured protocol = repaired (private link target, entry appears by rename): safe_repaired, published_never_replaced, '
                         'request_succeeds, recovery are theorems about this tree\'s protocol; current_unsafe is about the code before fix bd865f5')
        ctx.level = 'proof (partial)'
