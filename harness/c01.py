"""
C01 — compiled assemblers compute exactly the integrand the form denotes (DESIGN.md §6/C01).

tie:  hand-written Lean model (Pyiga.Model.Layout / Assembler, driver drv_c01)
      * layout micro-stream: sym_index_to_seq / storage_size / storage_index / allocate_array /
        gen_assign slots of the real codegen module vs the model (exact diff)
      * stream `asm`: generated + shipped assemblers instantiated on random spaces/geometries;
        every entry of the assembled matrix/vector is compared with the numpy evaluation of the
        form's DEFINITION (collocation matrices x Gauss weights x pointwise integrand) under the
        forward-error rule; a sample of entries is re-derived by the Lean driver model from the
        per-node integrand values (box selection, bbox shift, unravelling with test/trial sizes,
        exact Rat sum); 200 random pairs without common support must be exactly 0.0.
theorems: Pyiga.Props.C01.*
search (model-free): the numpy oracle itself is the failing-input search: a disagreement with it is a
      concrete (form, space, geometry, entry) on which the property fails on the real code.
"""
import json
import os
import pickle
import subprocess
import sys
import tempfile
import time
from functools import reduce

import numpy as np

from .common import PY, VERIF, plist, frac

THEOREMS = [
    'Pyiga.Props.C01.layout_disjoint', 'Pyiga.Props.C01.layout_total',
    'Pyiga.Props.C01.storage_index_lt', 'Pyiga.Props.C01.storage_index_injective',
    'Pyiga.Props.C01.storage_index_symmetric',
    'Pyiga.Props.C01.sym_index_injective', 'Pyiga.Props.C01.sym_index_range', 'Pyiga.Props.C01.sym_index_surjective',
    'Pyiga.Props.C01.entry_eq_full_sum', 'Pyiga.Props.C01.entry_zero_without_common_support',
    'Pyiga.Props.C01.entry1_eq_full_sum', 'Pyiga.Props.C01.support_test_strictness_unobservable',
    'Pyiga.Props.C01.entry_indexing', 'Pyiga.Props.C01.assemble_vector_order',
    'Pyiga.Props.C01.gen_assign_slots_once', 'Pyiga.Props.C01.linear_expr_vanishes', 'Pyiga.Props.C01.linear_expr_additive',
    'Pyiga.Props.C01.entry_eq_full_sum_expr',
]
MODULES = ['Pyiga.Model.Index', 'Pyiga.Model.Layout', 'Pyiga.Model.Assembler', 'Pyiga.Proofs.Index',
           'Pyiga.Proofs.Layout', 'Pyiga.Proofs.AsmSum', 'Pyiga.Proofs.AsmIndex', 'Pyiga.Proofs.LayoutAssign',
           'Pyiga.Model.KernelExpr', 'Pyiga.Proofs.KernelExpr', 'Pyiga.Props.C01']

EPS = 2.0 ** -53

# ---------------------------------------------------------------------------------------------
# forms: (name, dim, kind, problem, bfuns, flags)
#   problem: string for parse_vf, or ('shipped', ClassName)
#   terms(o): the DEFINITION as a list of (block_row, block_col, Vop, Uop, coef) (arity 2)
#             resp. (block_row, Vop, coef) (arity 1); value = sum_q coef(q) W(q) Vop[q,i] Uop[q,j]
# ---------------------------------------------------------------------------------------------

def _t_lapl_c(o):
    return [(0, 0, o.G(a, 1), o.G(a, 0), 1.0) for a in range(o.dim)] + [(0, 0, o.U0(1), o.U0(0), o.par['c'])]

def _t_trans(o):
    f = o.inp['f']
    return [(0, 0, o.U0(1), o.U0(0), np.cos(f) + np.exp(-f * f))] + [(0, 0, o.G(a, 1), o.G(a, 0), f) for a in range(o.dim)]

def _t_conv1d(o):
    return [(0, 0, o.U0(1), o.G(0, 0), 1.0), (0, 0, o.U0(1), o.U0(0), 2.0)]

def _t_adv3d(o):
    a = o.par['a']
    return [(0, 0, o.U0(1), o.G(k, 0), a[k]) for k in range(3)] + [(0, 0, o.G(2, 1), o.U0(0), 1.0), (0, 0, o.U0(1), o.U0(0), 1.0)]

def _t_vec22(o):
    t = [(i, j, o.G(i, 1), o.G(j, 0), 1.0) for i in range(2) for j in range(2)]
    return t + [(i, i, o.U0(1), o.U0(0), 1.0) for i in range(2)]

def _t_vec21(o):
    return [(0, j, o.U0(1), o.G(j, 0), 1.0) for j in range(2)]

def _t_pg(o):
    return [(0, 0, o.U0(1), o.G(0, 0), 1.0), (0, 0, o.U0(1), o.U0(0), 1.0)]

def _t_funcvec(o):
    F = o.inp['F']
    return [(i, o.U0(0), F[:, i]) for i in range(2)]

def _t_matpar(o):
    K = o.par['K']
    return [(0, 0, o.G(a, 1), o.G(b, 0), K[a, b]) for a in range(2) for b in range(2)]

def _t_funcphys(o):
    return [(0, o.G(1, 0), np.sin(o.inp['g'])), (0, o.U0(0), o.inp['g'])]

def _t_pderiv(o):
    # parametric derivatives and a division
    f = o.inp['f']
    e0 = tuple(1 if k == 0 else 0 for k in range(o.dim))
    e1 = tuple(1 if k == 1 else 0 for k in range(o.dim))
    return [(0, 0, o.U(e1, 1), o.U(e0, 0), 1.0 / f), (0, 0, o.U0(1), o.U0(0), np.abs(f) + np.sqrt(f))]

def _t_gmass(o):
    return [(0, 0, o.U0(1), o.U0(0), o.inp['g'])]

def _t_lit(o):
    return [(0, 0, o.U0(1), o.U0(0), 0.3333333333333333)] + [(0, 0, o.G(a, 1), o.G(a, 0), 3.141592653589793) for a in range(o.dim)] + \
           [(0, 0, o.U0(1), o.G(0, 0), 1.234567891), (0, 0, o.G(1, 1), o.U0(0), 0.30000000000000004)]

def _t_litr(o):
    return [(0, 0, o.U0(1), o.U0(0), float(o.par['LIT']))]

# literal constants whose shortest decimal representation needs many digits (a printer with fewer digits changes the form)
LITERAL_POOL = [1.0 / 3.0, 3.141592653589793, 0.1 + 0.2, 1234567.891, 1.0000001e-07, 2.0 / 7.0, 1e5 / 3.0, 123456789.0, -0.7071067811865476,
                1e-15, 6.6e-34]      # tiny but valid literals (physical constants) must not be folded away

def _t_littiny(o):
    return [(0, 0, o.U0(1), o.U0(0), 1e-15)] + [(0, 0, o.G(a, 1), o.G(a, 0), 2.5e-15) for a in range(o.dim)]

def _t_mass(o):
    return [(0, 0, o.U0(1), o.U0(0), 1.0)]

def _t_stiff(o):
    return [(0, 0, o.G(a, 1), o.G(a, 0), 1.0) for a in range(o.dim)]

def _t_divdiv(o):
    return [(i, j, o.G(i, 1), o.G(j, 0), 1.0) for i in range(o.dim) for j in range(o.dim)]

def _t_heat(o):
    d = o.dim
    return [(0, 0, o.G(a, 1), o.G(a, 0), 1.0) for a in range(d - 1)] + [(0, 0, o.U0(1), o.G(d - 1, 0), 1.0)]

def _t_l2f(o):
    return [(0, o.U0(0), o.inp['f'])]

FORMS = {
    # name: (dim, arity, problem, bfuns, two_space, inputs, terms, transcendental, min_degree)
    'lapl_c':   (2, 2, 'inner(grad(u),grad(v))*dx + c*u*v*dx', None, False, {'c': 'par0'}, _t_lapl_c, False, 1),
    'trans':    (2, 2, '(cos(f)+exp(-f*f))*u*v*dx + f*inner(grad(u),grad(v))*dx', None, False, {'f': 'fieldp'}, _t_trans, True, 1),
    'conv1d':   (1, 2, 'u.dx(0)*v*dx + 2*u*v*dx', None, False, {}, _t_conv1d, False, 1),
    'adv3d':    (3, 2, 'inner(a, grad(u))*v*dx + u*v.dx(2)*dx + u*v*dx', None, False, {'a': 'par1'}, _t_adv3d, False, 1),
    'vec22':    (2, 2, 'div(u)*div(v)*dx + inner(u,v)*dx', [('u', 2), ('v', 2)], False, {}, _t_vec22, False, 1),
    'vec21':    (2, 2, 'div(u)*v*dx', [('u', 2), ('v', 1)], False, {}, _t_vec21, False, 1),
    'pg':       (2, 2, 'u.dx(0)*v*dx + u*v*dx', [('u', 1, 0), ('v', 1, 1)], True, {}, _t_pg, False, 1),
    # two-space forms with forced degree relations (same source as 'pg': no extra compilation): nqp must be max over BOTH spaces
    'pg_hi':    (2, 2, 'u.dx(0)*v*dx + u*v*dx', [('u', 1, 0), ('v', 1, 1)], True, {'_deg': 'hi'}, _t_pg, False, 1),
    'pg_lo':    (2, 2, 'u.dx(0)*v*dx + u*v*dx', [('u', 1, 0), ('v', 1, 1)], True, {'_deg': 'lo'}, _t_pg, False, 1),
    'pg_mix':   (2, 2, 'u.dx(0)*v*dx + u*v*dx', [('u', 1, 0), ('v', 1, 1)], True, {'_deg': 'mix'}, _t_pg, False, 1),
    'pg_mult':  (2, 2, 'u.dx(0)*v*dx + u*v*dx', [('u', 1, 0), ('v', 1, 1)], True, {'_deg': 'mult'}, _t_pg, False, 1),
    'funcvec':  (2, 1, 'inner(F, v)*dx', [('v', 2)], False, {'F': 'fieldv'}, _t_funcvec, False, 0),
    'matpar':   (2, 2, 'inner(K.dot(grad(u)), grad(v))*dx', None, False, {'K': 'par2'}, _t_matpar, False, 1),
    'funcphys': (2, 1, 'sin(g)*v.dx(1)*dx + g*v*dx', None, False, {'g': 'phys'}, _t_funcphys, True, 1),
    'pderiv':   (2, 2, 'Dx(u,0,parametric=True)*Dx(v,1,parametric=True)/f*dx + (abs(f)+sqrt(f))*u*v*dx', None, False, {'f': 'fieldp'}, _t_pderiv, True, 1),
    'lit':      (2, 2, '0.3333333333333333*u*v*dx + 3.141592653589793*inner(grad(u),grad(v))*dx + 1.234567891*u.dx(0)*v*dx + 0.30000000000000004*u*v.dx(1)*dx',
                 None, False, {}, _t_lit, False, 1),
    'littiny':  (2, 2, '1e-15*u*v*dx + 2.5e-15*inner(grad(u),grad(v))*dx', None, False, {}, _t_littiny, False, 1),
    'litr':     (2, 2, 'LIT*u*v*dx', None, False, {'_literal': True}, _t_litr, False, 0),
    'surf':     (2, 2, 'g*u*v*ds', None, False, {'g': 'phys', '_surface': True}, _t_gmass, False, 0),
    'bdry':     (2, 2, 'g*u*v*ds', None, False, {'g': 'phys', '_boundary': True}, _t_gmass, False, 0),
    # shipped precompiled assemblers (no compilation)
    'mass2':    (2, 2, ('shipped', 'MassAssembler2D'), None, False, {}, _t_mass, False, 0),
    'mass3':    (3, 2, ('shipped', 'MassAssembler3D'), None, False, {}, _t_mass, False, 0),
    'stiff2':   (2, 2, ('shipped', 'StiffnessAssembler2D'), None, False, {}, _t_stiff, False, 1),
    'stiff3':   (3, 2, ('shipped', 'StiffnessAssembler3D'), None, False, {}, _t_stiff, False, 1),
    'divdiv2':  (2, 2, ('shipped', 'DivDivAssembler2D'), None, False, {}, _t_divdiv, False, 1),
    'divdiv3':  (3, 2, ('shipped', 'DivDivAssembler3D'), None, False, {'_small3': True}, _t_divdiv, False, 1),
    'heat2':    (2, 2, ('shipped', 'HeatAssembler_ST2D'), None, False, {'_cyl': True}, _t_heat, False, 1),
    'l2f2':     (2, 1, ('shipped', 'L2FunctionalAssembler2D'), None, False, {'f': 'fieldp'}, _t_l2f, False, 0),
    'l2fp2':    (2, 1, ('shipped', 'L2FunctionalAssemblerPhys2D'), None, False, {'f': 'phys'}, _t_l2f, True, 0),
}
QUICK_FORMS = list(FORMS)


# ---------------------------------------------------------------------------------------------
# generators (worker side)
# ---------------------------------------------------------------------------------------------

def rand_kv(rng, pmin, pmax, maxspans, breaks=None, p=None, minspans=1, simple=False):
    from pyiga import bspline
    p = int(rng.integers(pmin, pmax + 1)) if p is None else int(p)
    if breaks is None:
        n = int(rng.integers(minspans, maxspans + 1))
        # non-uniform dyadic breakpoints in [0,1]
        cuts = sorted(set(int(c) for c in rng.integers(1, 16, size=n - 1)))
        breaks = np.array([0.0] + [c / 16.0 for c in cuts] + [1.0])
    inner = breaks[1:-1]
    mult = [int(rng.integers(1, p + 1)) if (p >= 1 and not simple) else 1 for _ in inner]
    kv = np.concatenate(([breaks[0]] * (p + 1), np.repeat(inner, mult), [breaks[-1]] * (p + 1)))
    return bspline.KnotVector(kv, p), breaks


def rand_geo(rng, dim, cylinder=False):
    """B-spline or NURBS geometry on [0,1]^dim with positive Jacobian (perturbed identity)."""
    from pyiga import bspline, geometry
    kvs = tuple(bspline.make_knots(2, 0.0, 1.0, 2) for _ in range(dim))
    grev = [kv.greville() for kv in kvs]
    mesh = np.meshgrid(*grev, indexing='ij')
    # component c of the identity map is the coordinate of axis (dim-1-c)  (x = last axis)
    coeffs = np.stack([mesh[dim - 1 - c] for c in range(dim)], axis=-1).copy()
    if cylinder:
        # x = g(xi_x) only, t = xi_t : perturb x-coefficients along the x axis (last grid axis) only
        pert = np.cumsum(rng.uniform(0.5, 1.5, size=len(grev[-1])))
        pert = (pert - pert[0]) / (pert[-1] - pert[0]) * 1.5
        coeffs[..., 0] = pert.reshape((1,) * (dim - 1) + (-1,)) + 0 * coeffs[..., 0]
        return bspline.BSplineFunc(kvs, coeffs), 'cyl'
    coeffs += rng.uniform(-0.06, 0.06, size=coeffs.shape)
    coeffs *= rng.uniform(0.7, 1.6)
    tag = ''
    if dim >= 2 and rng.integers(0, 2) == 0:
        # negatively oriented parametrisation: exchange the first two components of the map (det J < 0 everywhere)
        coeffs[..., [0, 1]] = coeffs[..., [1, 0]]
        tag = '-negdet'
    if rng.integers(0, 2) == 0 or dim == 1:
        return bspline.BSplineFunc(kvs, coeffs), 'bspline' + tag
    w = rng.uniform(0.8, 1.25, size=coeffs.shape[:-1])
    return geometry.NurbsFunc(kvs, coeffs, w), 'nurbs' + tag


class Oracle:
    """numpy evaluation of the ingredients of the definition at all quadrature nodes"""

    def __init__(self, dim, spaces, geo, nqp, grid, gw, boundary=None):
        from pyiga import bspline
        self.dim = dim
        self.C = [[[X.toarray() for X in bspline.collocation_derivs(kv, g, derivs=2)] for kv, g in zip(kvs, grid)]
                  for kvs in spaces]
        if boundary is not None:
            # boundary integral: the assembler keeps, along the normal axis, only the single basis function
            # that is 1 at the boundary point (S_C[0:1,0:1] resp. [-1:,-1:]); its "collocation matrix" is [[1]]
            bdax = boundary[0]
            for Cs in self.C:
                Cs[bdax] = [np.ones((1, 1)), np.zeros((1, 1)), np.zeros((1, 1))]
        self.nn = int(np.prod([len(g) for g in grid]))
        gdim = geo.dim
        J = np.asarray(geo.grid_jacobian(grid)).reshape(self.nn, gdim, dim)
        self.J = J
        self.gw = reduce(np.multiply.outer, gw).ravel()
        if boundary is not None:
            # ds = |d geo / d x_t| for the tangential coordinate (2D): x-index of grid axis a is dim-1-a
            assert dim == 2 and gdim == 2
            t = dim - 1 - (1 - boundary[0])
            self.W = self.gw * np.linalg.norm(J[:, :, t], axis=1)
            self.Jinv = None; self.detJ = None
        elif gdim == dim:
            self.Jinv = np.linalg.inv(J)
            self.detJ = np.linalg.det(J)
            self.W = self.gw * np.abs(self.detJ)
        else:
            # surface measure: |d_x geo x d_y geo| (2D -> 3D) resp. |geo'| (1D -> 2D)
            assert gdim == dim + 1
            nrm = np.linalg.norm(np.cross(J[:, :, 0], J[:, :, 1]), axis=1) if dim == 2 else np.linalg.norm(J[:, :, 0], axis=1)
            self.W = self.gw * nrm
            self.Jinv = None; self.detJ = None
        self.x = np.asarray(geo.grid_eval(grid)).reshape(self.nn, -1)
        self.inp = {}
        self.par = {}
        self._cache = {}

    def U(self, D, s):
        """parametric derivative of order D (x-order: D[k] w.r.t. x_k = grid axis dim-1-k), space s"""
        key = ('U', tuple(D), s)
        if key not in self._cache:
            d = self.dim
            self._cache[key] = reduce(np.kron, [self.C[s][a][D[d - 1 - a]] for a in range(d)])
        return self._cache[key]

    def U0(self, s):
        return self.U((0,) * self.dim, s)

    def G(self, c, s):
        """physical partial derivative d/dx_c = sum_k Jinv[k,c] d/dxi_k"""
        key = ('G', c, s)
        if key not in self._cache:
            d = self.dim
            acc = 0.0
            for k in range(d):
                e = tuple(1 if m == k else 0 for m in range(d))
                acc = acc + self.Jinv[:, k, c][:, None] * self.U(e, s)
            self._cache[key] = acc
        return self._cache[key]

    def Gabs(self, c, s):
        d = self.dim
        acc = 0.0
        for k in range(d):
            e = tuple(1 if m == k else 0 for m in range(d))
            acc = acc + np.abs(self.Jinv[:, k, c])[:, None] * np.abs(self.U(e, s))
        return acc


class AbsOracle:
    """same interface, every ingredient replaced by an upper bound of its absolute value"""

    def __init__(self, o):
        self.o = o; self.dim = o.dim
        # inputs/parameters as they are: the coefficient is evaluated exactly and |coef| taken in assemble_terms(absolute=True)
        self.inp = o.inp
        self.par = o.par

    def U(self, D, s): return np.abs(self.o.U(D, s))
    def U0(self, s): return np.abs(self.o.U0(s))
    def G(self, c, s): return self.o.Gabs(c, s)


def quiet_call(f):
    """run f with fd 1/2 redirected to /dev/null (compiler noise)"""
    sys.stdout.flush(); sys.stderr.flush()
    devnull = os.open(os.devnull, os.O_WRONLY)
    so, se = os.dup(1), os.dup(2)
    os.dup2(devnull, 1); os.dup2(devnull, 2)
    try:
        return f()
    finally:
        sys.stdout.flush(); sys.stderr.flush()
        os.dup2(so, 1); os.dup2(se, 2)
        os.close(devnull); os.close(so); os.close(se)


def guard_call(f):
    try:
        return f()
    except BaseException as ex:
        return 'err-%s: %s' % (type(ex).__name__, str(ex)[:200])


def make_case(name, seed, tier):
    """build spaces, geometry, inputs for one form instance"""
    from pyiga import bspline
    dim, arity, problem, bfuns, two_space, inputs, terms, transc, pmin = FORMS[name]
    rng = np.random.default_rng(seed)
    pmax = 4 if dim <= 2 else 2
    maxspans = {1: 4, 2: 4 if tier == 'thorough' else 3, 3: 2}[dim]
    kvs0, brks = [], []
    degrel = inputs.get('_deg')
    p0s = p1s = [None] * dim
    if degrel == 'hi':        # test degree > trial degree on every axis (by 2: a too small nqp under-integrates visibly)
        p0s = [int(rng.integers(1, 3)) for _ in range(dim)]; p1s = [p + 2 for p in p0s]
    elif degrel == 'lo':      # trial degree > test degree on every axis
        p1s = [int(rng.integers(1, 3)) for _ in range(dim)]; p0s = [p + 2 for p in p1s]
    elif degrel == 'mix':     # axis 0: test > trial, axis 1: trial > test; overall maximum attained only by the test space
        a, b = int(rng.integers(1, 3)), int(rng.integers(2, 4))
        p0s = [a, b]; p1s = [max(a, b) + 1, b - 1]
    small3 = bool(inputs.get('_small3'))      # 2x2x2 spans, degrees 1-2, simple interior knots (<= 4 dofs per axis)
    if small3:
        p0s = [int(rng.integers(1, 3)) for _ in range(dim)]
    for k in range(dim):
        kv, br = rand_kv(rng, pmin, pmax, 2 if small3 else maxspans, p=p0s[k], minspans=2 if (degrel or small3) else 1, simple=small3)
        kvs0.append(kv); brks.append(br)
    kvs0 = tuple(kvs0)
    if degrel == 'mult':
        # same degree, mesh and number of dofs, but the knot multiplicities are distributed differently
        from pyiga import bspline as _b
        def kvm(dbl):
            inner = [0.25, 0.5, 0.75]
            return _b.KnotVector(np.array([0.0] * 3 + sorted(inner + [dbl]) + [1.0] * 3), 2)
        kvs0 = tuple(kvm(0.25) for _ in range(dim)); kvs1 = tuple(kvm(0.75) for _ in range(dim))
    elif two_space:
        kvs1 = tuple(rand_kv(rng, pmin, pmax, maxspans, breaks=br, p=p1s[k])[0] for k, br in enumerate(brks))
    else:
        kvs1 = kvs0
    geo, gkind = rand_geo(rng, dim, cylinder=bool(inputs.get('_cyl')))
    boundary = None
    literal = LITERAL_POOL[int(rng.integers(0, len(LITERAL_POOL)))] if inputs.get('_literal') else None
    if inputs.get('_surface'):
        # graph surface over the perturbed parametrisation: third component a smooth bump
        from pyiga import bspline as _b
        c2 = np.asarray(geo.coeffs if gkind.startswith('bspline') else geo.coeffs[..., :dim] / geo.coeffs[..., -1:])
        z = rng.uniform(-0.3, 0.3, size=c2.shape[:-1] + (1,))
        geo, gkind = _b.BSplineFunc(geo.kvs, np.concatenate((c2[..., :dim], z), axis=-1)), 'surface'
    if inputs.get('_boundary'):
        boundary = (int(rng.integers(0, dim)), int(rng.integers(0, 2)))
    args = {'geo': geo}
    meta = {}
    for nm, kind in inputs.items():
        if nm.startswith('_'):
            continue
        if kind == 'par0':
            args[nm] = float(rng.integers(1, 9)) / 4.0
        elif kind == 'par1':
            args[nm] = rng.integers(-4, 5, size=dim).astype(float) / 2.0
        elif kind == 'par2':
            args[nm] = rng.integers(-3, 4, size=(dim, dim)).astype(float) / 2.0 + 2 * np.eye(dim)
        elif kind == 'fieldp':
            fk = tuple(bspline.make_knots(2, 0.0, 1.0, 2) for _ in range(dim))
            args[nm] = bspline.BSplineFunc(fk, rng.uniform(0.5, 1.5, size=tuple(kv.numdofs for kv in fk)))
        elif kind == 'fieldv':
            fk = tuple(bspline.make_knots(1, 0.0, 1.0, 3) for _ in range(dim))
            args[nm] = bspline.BSplineFunc(fk, rng.uniform(-1.0, 1.0, size=tuple(kv.numdofs for kv in fk) + (dim,)))
        elif kind == 'phys':
            a, b = [float(x) for x in rng.integers(1, 4, size=2)]
            args[nm] = (lambda a, b: (lambda *X: 1.0 + a * X[0] + b * X[1] * X[0]))(a, b)
            meta[nm] = (a, b)
    return dict(dim=dim, arity=arity, kvs0=kvs0, kvs1=kvs1, geo=geo, gkind=gkind, args=args, meta=meta, rng=rng, boundary=boundary, literal=literal)


def instantiate(name, case):
    from pyiga import assemble, assemblers
    dim, arity, problem, bfuns, two_space, inputs, terms, transc, pmin = FORMS[name]
    args = dict(case['args'])
    kvs = (case['kvs0'], case['kvs1']) if two_space else case['kvs0']
    if isinstance(problem, tuple):
        cls = getattr(assemblers, problem[1])
        return assemble.instantiate_assembler(cls, kvs, args, None)
    problem = form_problem(name, case)
    return quiet_call(lambda: assemble.instantiate_assembler(problem, kvs, args, bfuns, case.get('boundary')))


def form_problem(name, case):
    """the form string of this instance (a drawn literal constant is written with repr(): Python's eval reads it back exactly)"""
    problem = FORMS[name][2]
    if isinstance(problem, str) and case.get('literal') is not None:
        problem = problem.replace('LIT', repr(float(case['literal'])))
    return problem


def build_oracle(name, case, asm_nqp=None):
    from pyiga.quadrature import make_tensor_quadrature
    dim = case['dim']
    kvs0, kvs1 = case['kvs0'], case['kvs1']
    nqp = max(kv.p for kv in tuple(kvs0) + tuple(kvs1)) + 1
    if case.get('boundary') is not None:
        from pyiga.quadrature import make_boundary_quadrature
        grid, gw = make_boundary_quadrature([kv.mesh for kv in kvs0], nqp, case['boundary'])
    else:
        grid, gw = make_tensor_quadrature([kv.mesh for kv in kvs0], nqp)
    o = Oracle(dim, (kvs0, kvs1), case['geo'], nqp, grid, gw, boundary=case.get('boundary'))
    if case.get('literal') is not None:
        o.par['LIT'] = float(case['literal'])
    for nm, kind in FORMS[name][5].items():
        if nm.startswith('_'):
            continue
        v = case['args'][nm]
        if kind in ('par0', 'par1', 'par2'):
            o.par[nm] = np.asarray(v, dtype=float)
        elif kind == 'fieldp':
            o.inp[nm] = np.asarray(v.grid_eval(grid)).reshape(o.nn)
        elif kind == 'fieldv':
            o.inp[nm] = np.asarray(v.grid_eval(grid)).reshape(o.nn, -1)
        elif kind == 'phys':
            o.inp[nm] = np.asarray(v(*[o.x[:, c] for c in range(o.x.shape[1])])).reshape(o.nn)
    return o, nqp, grid, gw


def assemble_terms(terms, arity, W, nblk, absolute=False):
    """dense blocks from the term list"""
    if arity == 2:
        blocks = {}
        for (bi, bj, V, U, coef) in terms:
            c = ((np.abs(coef) if absolute else np.asarray(coef)) * W)
            M = V.T @ (c[:, None] * U)
            blocks[(bi, bj)] = blocks.get((bi, bj), 0.0) + M
        return blocks
    blocks = {}
    for (bi, V, coef) in terms:
        c = ((np.abs(coef) if absolute else np.asarray(coef)) * W)
        blocks[bi] = blocks.get(bi, 0.0) + V.T @ c
    return blocks


def install_nqp_recorder():
    """record the `nqp` every assembler passes to make_tensor_quadrature / make_boundary_quadrature
    (`self.nqp` is a private cdef attribute): wrap the functions before any assembler module binds them"""
    import pyiga.quadrature as Q
    if getattr(Q, '_verif_nqp_log', None) is None:
        Q._verif_nqp_log = []
        for fn in ('make_tensor_quadrature', 'make_boundary_quadrature'):
            orig = getattr(Q, fn)
            def wrap(*a, _o=orig, **k):
                Q._verif_nqp_log.append(int(a[1]))
                return _o(*a, **k)
            setattr(Q, fn, wrap)
    return Q._verif_nqp_log


def worker(name, seed, tier):
    """runs in a subprocess: returns a dict with comparison results and Lean requests"""
    nqp_log = install_nqp_recorder()
    import pyiga
    from pyiga import assemble, mlmatrix
    pyiga.set_max_threads(1)
    out = {'name': name, 'seed': seed, 'status': 'ok', 'violations': [], 'lean': [], 'counts': {}}
    dim, arity, problem, bfuns, two_space, inputs, termf, transc, pmin = FORMS[name]
    t0 = time.time()
    case = make_case(name, seed, tier)
    desc = {'form': form_problem(name, case) if isinstance(problem, str) else problem[1], 'bfuns': bfuns, 'dim': dim,
            'kvs0': [(kv.kv.tolist(), kv.p) for kv in case['kvs0']], 'kvs1': [(kv.kv.tolist(), kv.p) for kv in case['kvs1']],
            'geometry': case['gkind'], 'geo_coeffs': np.asarray(case['geo'].coeffs).tolist(),
            'params': {k: np.asarray(v).tolist() for k, v in case['args'].items() if isinstance(v, (float, np.ndarray))},
            'phys': case['meta'], 'seed': seed}
    out['desc'] = desc
    try:
        asm = instantiate(name, case)
    except BaseException as ex:   # the form is accepted by the grammar: must build, load and instantiate
        out['status'] = 'build-failed'
        out['violations'].append(('build:' + name, 'form does not build/load/instantiate: %s: %s' % (type(ex).__name__, str(ex)[:300]), desc, True))
        return out
    out['t_build'] = round(time.time() - t0, 2)
    nqp_used = nqp_log[-1] if nqp_log else None
    o, nqp, grid, gw = build_oracle(name, case)
    # the property: max-degree+1 Gauss nodes per knot span, the maximum taken over ALL knot vectors the form is applied to
    nqp_want = max(kv.p for kv in tuple(case['kvs0']) + tuple(case['kvs1'])) + 1
    assert nqp == nqp_want
    out['counts']['nqp diffs' if nqp_used is not None else 'nqp not observable (quadrature bound before the recorder)'] = 1
    if nqp_used is not None and nqp_used != nqp_want:
        out['violations'].append(('nqp:' + name, 'assembler integrates with %s Gauss nodes per span; the property demands max degree + 1 = %d (trial degrees %s, test degrees %s)'
                                  % (nqp_used, nqp_want, [kv.p for kv in case['kvs0']], [kv.p for kv in case['kvs1']]), desc, True))
    terms = termf(o)
    terms_abs = termf(AbsOracle(o))
    kvs0, kvs1 = case['kvs0'], case['kvs1']
    bd = case.get('boundary')
    nd0 = [kv.numdofs for kv in kvs0]; nd1 = [kv.numdofs for kv in kvs1]
    msup0 = [(nqp * kv.mesh_support_idx_all()).tolist() for kv in kvs0]
    msup1 = [(nqp * kv.mesh_support_idx_all()).tolist() for kv in kvs1]
    if bd is not None:
        desc['boundary'] = list(bd)
        nd0[bd[0]] = 1; nd1[bd[0]] = 1
        msup0[bd[0]] = [[0, 1]]; msup1[bd[0]] = [[0, 1]]
    n0 = int(np.prod(nd0)); n1 = int(np.prod(nd1))
    nops = 40 * (dim * dim + len(terms))
    cfac = 4.0 * (o.nn + nops) * EPS
    if transc:
        cfac = max(cfac, 1e-9)
    out['counts'].update({'dim=%d' % dim: 1, 'geo=' + case['gkind']: 1, 'arity=%d' % arity: 1,
                          'degrees=' + ','.join(str(kv.p) for kv in kvs0): 1, 'nodes': o.nn})
    if two_space:
        rel = ['>' if a.p > b.p else '<' if a.p < b.p else '=' for a, b in zip(kvs1, kvs0)]
        out['counts']['two-space test?trial degree per axis: ' + ''.join(rel)] = 1
    is_vec = hasattr(asm, 'num_components')

    def guard(f, key):
        try:
            return f()
        except BaseException as ex:
            out['violations'].append((key, 'assembler call raised %s: %s' % (type(ex).__name__, str(ex)[:300]), desc, True))
            return None

    if arity == 2:
        nc_u, nc_v = (asm.num_components() if is_vec else (1, 1))
        B = assemble_terms(terms, 2, o.W, None); Ba = assemble_terms(terms_abs, 2, o.W, None, absolute=True)
        ref = np.block([[B.get((i, j), np.zeros((n1, n0))) for j in range(nc_u)] for i in range(nc_v)])
        refa = np.block([[Ba.get((i, j), np.zeros((n1, n0))) for j in range(nc_u)] for i in range(nc_v)])
        A = guard(lambda: assemble.assemble_entries(asm, symmetric=False, format='csr', layout='blocked'), 'assemble:' + name)
        if A is None:
            return out
        A = A.toarray()
        if A.shape != ref.shape:
            out['violations'].append(('shape:' + name, 'assembled matrix has shape %s, definition gives %s' % (A.shape, ref.shape), desc, True))
            return out
        err = np.abs(A - ref); tol = cfac * refa + 1e-300
        bad = np.argwhere(~(err <= tol))
        out['counts']['entries compared'] = int(A.size)
        out['max_err_over_tol'] = float(np.max(err / tol))
        if len(bad):
            i, j = [int(x) for x in bad[0]]
            out['violations'].append(('entry:' + name, 'matrix entry (%d,%d) = %r but the Gauss sum of the definition is %r (tolerance %g; %d entries differ)'
                                      % (i, j, float(A[i, j]), float(ref[i, j]), float(tol[i, j]), len(bad)), desc, True))
        # pairs without common support: must be exactly zero
        S = mlmatrix.MLStructure.from_kvs(*asm.kvs)     # (for boundary forms asm.kvs has the normal axis removed)
        I, J = S.nonzero() if S.L > 1 else (S.bidx[0][:, 0], S.bidx[0][:, 1])
        pat = set(zip(I.tolist(), J.tolist()))
        rng = case['rng']
        zero_pairs = []
        tries = 0
        while len(zero_pairs) < 200 and tries < 4000:
            tries += 1
            p = (int(rng.integers(0, n1)), int(rng.integers(0, n0)))
            if p not in pat:
                zero_pairs.append(p)
        nz_bad = None
        for (i, j) in zero_pairs:
            if is_vec:
                v = guard(lambda: asm.multi_blocks(np.array([[i, j]], dtype=np.uintp)), 'multi_blocks:' + name)
                if v is None: break
                isz = not np.any(v != 0.0)
            else:
                v = guard(lambda: asm.entry(i, j), 'entry-call:' + name)
                if v is None: break
                isz = (v == 0.0)
            if not isz and nz_bad is None:
                nz_bad = (i, j, np.asarray(v).tolist())
        out['counts']['zero pairs'] = len(zero_pairs)
        if nz_bad is not None:
            out['violations'].append(('nosupport:' + name, 'entry%s of a pair without common support is %r, not exactly 0.0' % (nz_bad[:2], nz_bad[2]), desc, True))
        # dense oracle says the same: entries outside the pattern vanish identically
        if not is_vec:
            mask = np.ones_like(ref, dtype=bool)
            mask[I, J] = False
            if np.any(refa[mask] != 0.0):
                out['violations'].append(('pattern:' + name, 'definition has a non-zero entry outside MLStructure.from_kvs pattern', desc, True))
        # sample for the Lean driver model (scalar forms): per-node integrand table
        if not is_vec:
            ms0, ms1 = msup0, msup1
            N = [len(g) for g in grid]
            nsamp = 24 if dim < 3 else 8
            plist_pat = sorted(pat)
            samp = [plist_pat[int(k)] for k in rng.integers(0, len(plist_pat), size=nsamp)] + zero_pairs[:6]
            supp = lambda ms: plist(ms, lambda t: plist(t, lambda e: '%d %d' % tuple(e)))
            for (i, j) in samp:
                F = np.zeros(o.nn)
                for (bi, bj, V, U, coef) in terms:
                    F += np.asarray(coef) * o.W * V[:, i] * U[:, j]
                req = 'entry2 %s %s %s %s %s %d %d %s %s' % (
                    plist(nd1), plist(nd0), supp(ms0), supp(ms1),
                    plist([0] * dim), i, j, plist(N), plist(F.tolist(), frac))
                v = guard(lambda: asm.entry(i, j), 'entry-call:' + name)
                if v is None: break
                me = guard(lambda: asm.multi_entries(np.array([[i, j]], dtype=np.uintp))[0], 'multi_entries:' + name)
                out['lean'].append({'req': req, 'impl': float(v), 'impl_multi': None if me is None else float(me), 'ij': (i, j), 'cfac': cfac,
                                    'refabs': float(refa[i, j])})
    else:
        nc = asm.num_components()[0] if is_vec else 1
        B = assemble_terms(terms, 1, o.W, None); Ba = assemble_terms(terms_abs, 1, o.W, None, absolute=True)
        shape0 = tuple(kv.numdofs for kv in kvs0)
        v = guard(lambda: assemble.assemble_entries(asm, layout='blocked'), 'assemble:' + name)
        if v is None:
            return out
        v = np.asarray(v)
        ref = np.stack([np.asarray(B.get(i, np.zeros(n0))).reshape(shape0) for i in range(nc)]) if is_vec else np.asarray(B[0]).reshape(shape0)
        refa = np.stack([np.asarray(Ba.get(i, np.zeros(n0))).reshape(shape0) for i in range(nc)]) if is_vec else np.asarray(Ba[0]).reshape(shape0)
        if v.shape != ref.shape:
            out['violations'].append(('shape:' + name, 'assembled vector has shape %s, definition gives %s' % (v.shape, ref.shape), desc, True))
            return out
        err = np.abs(v - ref); tol = cfac * refa + 1e-300
        bad = np.argwhere(~(err <= tol))
        out['counts']['entries compared'] = int(v.size)
        out['max_err_over_tol'] = float(np.max(err / tol))
        if len(bad):
            idx = tuple(int(x) for x in bad[0])
            out['violations'].append(('entry:' + name, 'vector entry %s = %r but the Gauss sum of the definition is %r (tolerance %g; %d entries differ)'
                                      % (idx, float(v[idx]), float(ref[idx]), float(tol[idx]), len(bad)), desc, True))
        if not is_vec:
            ms0 = [(nqp * kv.mesh_support_idx_all()).tolist() for kv in kvs0]
            N = [len(g) for g in grid]
            supp = lambda ms: plist(ms, lambda t: plist(t, lambda e: '%d %d' % tuple(e)))
            rng = case['rng']
            for i in [int(k) for k in rng.integers(0, n0, size=12)]:
                F = np.zeros(o.nn)
                for (bi, V, coef) in terms:
                    F += np.asarray(coef) * o.W * V[:, i]
                req = 'entry1 %s %s %s %d %s %s' % (plist([kv.numdofs for kv in kvs0]), supp(ms0), plist([0] * dim), i, plist(N), plist(F.tolist(), frac))
                e1 = guard(lambda: asm.entry1(i), 'entry1-call:' + name)
                if e1 is None: break
                out['lean'].append({'req': req, 'impl': float(e1), 'impl_multi': float(v.ravel()[i]), 'ij': (i,), 'cfac': cfac, 'refabs': float(refa.ravel()[i])})
    out['t_total'] = round(time.time() - t0, 2)
    return out


def worker_main():
    spec = json.loads(sys.argv[1])
    os.environ['XDG_CACHE_HOME'] = spec['xdg']
    try:
        res = worker(spec['name'], spec['seed'], spec['tier'])
    except BaseException as ex:
        import traceback
        res = {'name': spec['name'], 'seed': spec['seed'], 'status': 'worker-exception', 'trace': traceback.format_exc()[-3000:],
               'violations': [], 'lean': [], 'counts': {}}
    with open(spec['out'], 'wb') as fh:
        pickle.dump(res, fh)


def run_workers(ctx, jobs, module='c01', nproc=14, timeout=1500):
    """jobs: list of spec dicts (without 'out'/'xdg').  Returns list of result dicts."""
    xdg = ctx.xdg_cache()
    tmpd = tempfile.mkdtemp(prefix='verif-%s-' % module)
    env = dict(os.environ)
    env['XDG_CACHE_HOME'] = xdg
    env['OMP_NUM_THREADS'] = '1'
    pending = list(enumerate(jobs)); running = []; results = [None] * len(jobs)
    try:
        while pending or running:
            while pending and len(running) < nproc:
                k, spec = pending.pop(0)
                spec = dict(spec); spec['xdg'] = xdg; spec['out'] = os.path.join(tmpd, 'r%d.pkl' % k)
                p = subprocess.Popen([PY, '-B', '-c', 'from harness import %s as m; m.worker_main()' % module, json.dumps(spec)],
                                     cwd=VERIF, env=env, stdout=subprocess.DEVNULL, stderr=subprocess.PIPE)
                running.append((k, spec, p, time.time()))
            still = []
            for (k, spec, p, t0) in running:
                rc = p.poll()
                if rc is None:
                    if time.time() - t0 > timeout:
                        p.kill()
                        results[k] = {'name': spec.get('name'), 'status': 'timeout', 'violations': [], 'lean': [], 'counts': {}}
                    else:
                        still.append((k, spec, p, t0))
                    continue
                err = p.stderr.read().decode(errors='replace')[-2000:]
                if os.path.exists(spec['out']):
                    with open(spec['out'], 'rb') as fh:
                        results[k] = pickle.load(fh)
                else:
                    results[k] = {'name': spec.get('name'), 'status': 'crashed rc=%s' % rc, 'trace': err, 'violations': [], 'lean': [], 'counts': {}}
            running = still
            time.sleep(0.05)
    finally:
        import shutil
        shutil.rmtree(tmpd, ignore_errors=True)
    return results


# ---------------------------------------------------------------------------------------------
# layout micro-stream (in-process, exact)
# ---------------------------------------------------------------------------------------------

class _V:
    def __init__(self, name, shape, symmetric):
        self.name = name; self.shape = tuple(shape); self.symmetric = (len(self.shape) == 2 and symmetric)


def layout_stream(ctx):
    from pyiga import vform
    from pyiga.codegen import cython as cg
    rng = ctx.rng
    req, exp = [], []

    def add(r, f):
        try:
            e = f()
        except AssertionError:
            e = 'err-assertion'
        except ValueError:
            e = 'err-value'
        except Exception as ex:
            e = 'err-' + type(ex).__name__
        req.append(r); exp.append(str(e))

    for n in range(1, 8):
        for i in range(n):
            for j in range(n):
                add('symidx %d %d %d' % (n, i, j), lambda: vform.sym_index_to_seq(n, i, j))
    nrand = 600 if ctx.tier == 'quick' else 6000
    for _ in range(nrand):
        r = int(rng.integers(0, 4))
        shape = [int(rng.integers(1, 5)) for _ in range(r)]
        sym = bool(rng.integers(0, 2))
        if r == 2 and sym and rng.integers(0, 4) > 0:
            shape[1] = shape[0]
        v = _V('x', shape, sym)
        vd = '%s %d' % (plist(shape), v.symmetric)
        add('ssize ' + vd, lambda: cg.storage_size(v))
        I = [int(rng.integers(0, s + (1 if rng.integers(0, 12) == 0 else 0))) for s in shape]
        if not (v.symmetric and shape[0] != shape[1]):
            add('sidx %s %s' % (vd, plist(I)), lambda: int(cg.storage_index(v, tuple(I))))
        if v.symmetric and shape[0] == shape[1]:
            m = shape[0]
            add('assigned ' + vd, lambda: plist([int(cg.storage_index(v, (i, j))) for i in range(m) for j in range(m) if not (v.symmetric and i > j)]))
        # allocate_array
        k = int(rng.integers(0, 6))
        vs = []
        for t in range(k):
            rr = int(rng.integers(0, 3)); sh = [int(rng.integers(1, 4)) for _ in range(rr)]
            sy = bool(rng.integers(0, 2))
            if rr == 2 and sy: sh[1] = sh[0]
            vs.append(_V('v%d' % t, sh, sy))
        def f():
            info, tot = cg.allocate_array(vs)
            return plist([info[x.name] for x in vs], lambda e: '%d,%d' % (e[1], e[2])) + ' %d' % tot
        add('alloc ' + plist(vs, lambda x: '%s %d' % (plist(x.shape), x.symmetric)), f)
        ctx.count('layout requests', 4)
    # unravel / row-major visiting order against numpy
    for _ in range(200 if ctx.tier == 'quick' else 2000):
        d = int(rng.integers(1, 4))
        dims = [int(rng.integers(1, 6)) for _ in range(d)]
        i = int(rng.integers(0, int(np.prod(dims))))
        add('fromseqc %d %s' % (i, plist(dims)), lambda: plist(int(a) for a in np.unravel_index(i, dims)))
        add('visits %s' % plist(dims), lambda: plist(int(np.ravel_multi_index(I, dims)) for I in np.ndindex(*dims)))
    got = ctx.model('drv_c01', req)
    nd = 0
    for r, e, g in zip(req, exp, got):
        if e != g:
            nd += 1
            if nd <= 5:
                ctx.violation('layout-corr:' + r.split()[0], 'model and codegen layout function disagree on `%s`: implementation %s, model %s' % (r[:200], e[:200], g[:200]),
                              {'request': r, 'implementation': e, 'model': g, 'stream': 'layout (drv_c01)'}, False)
    ctx.obligation('layout stream: %d requests, model == implementation' % len(req), nd == 0, '%d disagreements' % nd)
    # model-free layout oracle on the implementation: slots of a list of variables are a partition
    bad = 0
    for _ in range(300):
        k = int(rng.integers(1, 6)); vs = []
        for t in range(k):
            rr = int(rng.integers(0, 3)); sh = [int(rng.integers(1, 4)) for _ in range(rr)]
            sy = bool(rng.integers(0, 2))
            if rr == 2 and sy: sh[1] = sh[0]
            vs.append(_V('v%d' % t, sh, sy))
        info, tot = cg.allocate_array(vs)
        slots = []
        for x in vs:
            _, sz, ofs = info[x.name]
            idxs = set()
            for I in np.ndindex(*x.shape):
                idxs.add(ofs + int(cg.storage_index(x, tuple(int(a) for a in I))))
            if len(idxs) != sz or (idxs and (min(idxs) != ofs or max(idxs) != ofs + sz - 1)):
                bad += 1
                ctx.violation('layout-oracle', 'storage_index does not fill [ofs,ofs+sz) for shape %s symmetric=%s' % (x.shape, x.symmetric),
                              {'shape': x.shape, 'symmetric': x.symmetric}, True)
            slots += sorted(idxs)
        if slots != list(range(tot)):
            bad += 1
            ctx.violation('layout-oracle', 'allocate_array ranges are not a partition of range(total)', {'vars': [(x.shape, x.symmetric) for x in vs]}, True)
    ctx.count('layout oracle checks', 300)
    return len(req)


def linear_stream(ctx):
    """hypothesis of entry_eq_full_sum decided syntactically: every kernel expression the corpus' forms have after
    VForm.finalize (basis-function-scoped local variables inlined) is sent to the driver, which decides
    KExpr.IsLinearIn for every basis function (theorem entry_eq_full_sum_expr then applies).  No C compiler."""
    from pyiga import vform
    fn_ids = {}
    slots = {}

    def slot(key):
        return slots.setdefault(key, len(slots))

    def conv(e):
        if isinstance(e, vform.ConstExpr):
            return ['c', frac(float(e.value))]
        if isinstance(e, vform.GaussWeightExpr):
            return ['f', str(slot(('gw', e.axis)))]
        if isinstance(e, vform.PartialDerivExpr):
            assert not e.physical
            return ['p', str(bf_index[e.basisfun.name]), str(sum(int(d) * 7 ** k for k, d in enumerate(e.D)))]
        if isinstance(e, vform.VarRefExpr):
            var = e.var
            if var.expr is not None and var.scope == vform.Scope.BASISFUN:
                return conv(e.get_underlying_expr())
            return ['f', str(slot((var.name, e.I)))]
        if isinstance(e, vform.NegExpr):
            return ['n'] + conv(e.children[0])
        if isinstance(e, vform.BuiltinFuncExpr):
            return ['F', str(fn_ids.setdefault(e.funcname, len(fn_ids)))] + conv(e.children[0])
        if isinstance(e, vform.ScalarOperExpr):
            return [e.oper] + conv(e.children[0]) + conv(e.children[1])
        raise TypeError('kernel expression of unexpected type %s' % type(e).__name__)

    vfs = []
    for name, F in FORMS.items():
        dim, arity, problem, bfuns, two_space, inputs = F[:6]
        if isinstance(problem, tuple):
            continue
        case = make_case(name, 12345, 'quick')
        kvs = (case['kvs0'], case['kvs1']) if two_space else case['kvs0']
        vfs.append((problem, lambda problem=problem, kvs=kvs, case=case, bfuns=bfuns: vform.parse_vf(
            problem, kvs, args=dict(case['args']), bfuns=bfuns, boundary=bool(case.get('boundary')))))
    for d in (2, 3):
        for nm, mk in (('mass_vf', vform.mass_vf), ('stiffness_vf', vform.stiffness_vf), ('heat_st_vf', vform.heat_st_vf),
                       ('wave_st_vf', vform.wave_st_vf), ('divdiv_vf', vform.divdiv_vf), ('L2functional_vf', vform.L2functional_vf)):
            vfs.append(('%s(%d)' % (nm, d), lambda mk=mk, d=d: mk(d)))
    req, meta = [], []
    for desc, mk in vfs:
        try:
            vf = mk()
            vf.finalize()
            bf_index = {bf.name: k for k, bf in enumerate(vf.basis_funs)}
            scal = []
            for ex in vf.exprs:
                scal += [ex] if ex.is_scalar() else list(ex)
            for k, ex in enumerate(scal):
                toks = conv(ex)
                for b in range(len(vf.basis_funs)):
                    req.append('islin %d %s' % (b, ' '.join(toks)))
                    meta.append((desc, k, b, len(toks)))
        except Exception as ex:
            ctx.count('linear stream: conversion failed (%s)' % type(ex).__name__)
            ctx.notes.append('linear stream: %s: %s: %s' % (desc, type(ex).__name__, str(ex)[:120]))
    got = ctx.model('drv_c01', req)
    bad = [(m, g) for m, g in zip(meta, got) if g != '1']
    ctx.count('kernel expressions decided linear', len(req) - len(bad))
    ctx.extra['largest kernel expression (tokens)'] = max([m[3] for m in meta] + [0])
    for (m, g) in bad[:3]:
        ctx.violation('islin', 'kernel expression %d of form `%s` is not syntactically linear in basis function %d (driver: %s): the linearity hypothesis of entry_eq_full_sum is not established for it'
                      % (m[1], m[0], m[2], g), {'form': m[0], 'stream': 'linear (drv_c01)'}, False)
    ctx.obligation('linearity hypothesis: %d kernel expressions x basis functions of %d forms decided IsLinearIn by the driver' % (len(req), len(vfs)),
                   not bad and len(req) > 0, '%d not linear' % len(bad))
    return len(req)


def literal_stream(ctx):
    """translator-style tie on the generated source (no C compiler): every constant of the finalized form must appear in the
    emitted Cython code as a literal that reads back to exactly that double (float(text) == value)"""
    import re
    from pyiga import vform, compile as pcompile
    num = re.compile(r'(?<![\w.])[-+]?(?:\d+\.\d*(?:[eE][-+]?\d+)?|\.\d+(?:[eE][-+]?\d+)?|\d+[eE][-+]?\d+|\d+)(?![\w.])')
    todo = []
    for name, F in FORMS.items():
        dim, arity, problem, bfuns, two_space, inputs = F[:6]
        if isinstance(problem, tuple):
            continue
        case = make_case(name, 4242, 'quick')
        lits = LITERAL_POOL if inputs.get('_literal') else [None]
        for lit in lits:
            c2 = dict(case, literal=lit)
            todo.append((form_problem(name, c2), (case['kvs0'], case['kvs1']) if two_space else case['kvs0'], case, bfuns))
    nconst = 0; bad = []
    for (problem, kvs, case, bfuns) in todo:
        try:
            vf = vform.parse_vf(problem, kvs, args=dict(case['args']), bfuns=bfuns, boundary=bool(case.get('boundary')))
            src = pcompile.generate(vf)
        except Exception as ex:
            ctx.notes.append('literal stream: %s: %s' % (problem[:60], type(ex).__name__))
            continue
        body = src[src.index('cdef class'):]
        toks = set()
        for mo in num.finditer(body):
            try:
                toks.add(float(mo.group(0)))
            except ValueError:
                pass
        toks |= {-t for t in toks}        # a sign may be printed as a separate NegExpr
        consts = [float(e.value) for e in vf.all_exprs(type=vform.ConstExpr)]
        for v in consts:
            nconst += 1
            if v not in toks:
                bad.append((problem, v))
        # every literal written in the form string must still be a constant of the finalized form (none folded away)
        for mo in num.finditer(problem):
            t = mo.group(0)
            if ('.' in t or 'e' in t.lower()) and float(t) not in (0.0, 1.0, -1.0):
                nconst += 1
                if float(t) not in consts and -float(t) not in consts:
                    bad.append((problem, float(t)))
    ctx.count('generated-source literals checked', nconst)
    for (problem, v) in bad[:3]:
        ctx.violation('literal-roundtrip', 'the constant %r of form `%s` does not appear in the generated kernel source as a literal that reads back to the same double '
                      '(the compiled assembler integrates a different form)' % (v, problem), {'form': problem, 'constant': repr(v), 'stream': 'literal'}, True)
    ctx.obligation('generated source: %d constants of %d forms are emitted as literals with float(text) == value' % (nconst, len(todo)), not bad and nconst > 0, '%d do not round-trip' % len(bad))
    return nconst


def check_pxi(ctx):
    """genericasm.pxi (compiled into assemble_tools_cy) is the rendering of the template the model transliterates"""
    from pyiga.codegen import cython as cg
    from .common import REPO
    s = ''.join(cg.generate_generic(d) for d in (1, 2, 3)).strip()
    t = open(os.path.join(REPO, 'pyiga', 'genericasm.pxi')).read()
    t = '\n'.join(l for l in t.split('\n') if not l.startswith('# file generated by')).strip()
    ctx.obligation('genericasm.pxi == rendering of codegen.tmpl_generic for dims 1-3', s == t, '' if s == t else 'files differ')
    if s != t:
        ctx.violation('pxi-stale', 'pyiga/genericasm.pxi differs from the rendered template in codegen/cython.py (the compiled base classes are not the generated ones)',
                      {'stream': 'pxi'}, False)


def start_workers(ctx, jobs, module='c01', nproc=14):
    """run the subprocess pool in a background thread (the Lean build/audit proceed meanwhile)"""
    import threading
    box = {}
    def go():
        try:
            box['res'] = run_workers(ctx, jobs, module=module, nproc=nproc)
        except BaseException as ex:
            box['err'] = ex
    th = threading.Thread(target=go, daemon=True)
    th.start()
    def join():
        th.join()
        if 'err' in box:
            raise box['err']
        return box['res']
    return join


def run(ctx):
    ctx.build_repo()
    os.environ['XDG_CACHE_HOME'] = ctx.xdg_cache()
    reps = 1 if ctx.tier == 'quick' else 12
    jobs = []
    for rep in range(reps):
        for k, name in enumerate(QUICK_FORMS):
            jobs.append({'name': name, 'seed': int(ctx.seed * 1000003 + rep * 101 + k), 'tier': ctx.tier})
    # compiled forms first (long), shipped ones fill the gaps
    jobs.sort(key=lambda j: isinstance(FORMS[j['name']][2], tuple))
    jobs.insert(0, {'name': 'parlay', 'seed': int(ctx.seed * 1000003 + 71), 'tier': ctx.tier})
    jobs.append({'name': 'bdhist', 'seed': int(ctx.seed * 1000003 + 72), 'tier': ctx.tier})
    jobs.append({'name': 'updparams0', 'seed': int(ctx.seed * 1000003 + 73), 'tier': ctx.tier})
    jobs.append({'name': 'updparams2', 'seed': int(ctx.seed * 1000003 + 74), 'tier': ctx.tier})
    jobs.append({'name': '_sp10', 'seed': int(ctx.seed), 'tier': ctx.tier})
    join = start_workers(ctx, jobs)
    ctx.require_lean(['Pyiga.Props.C01', 'drv_c01'])
    ctx.audit(['Pyiga.Props.C01'], THEOREMS, MODULES)
    if ctx.tier == 'thorough':
        ctx.leanchecker(MODULES)
    ctx.level = 'proof (partial)'
    ctx.trusted += ['numpy oracle of the definition: pyiga.bspline.collocation_derivs (C02), geometry grid_jacobian/grid_eval (C07), numpy.polynomial leggauss via pyiga.quadrature, numpy.linalg.inv/det, libm',
                    'modelled, not verified: IEEE rounding and -ffast-math re-association (bounded by the forward-error rule), Cython/gcc/dlopen']
    ctx.assumptions += ['middle end (VForm.finalize passes) is covered by C06; here the integrand is an abstract function of the jets (Lean) / evaluated from the definition (numpy)',
                        'two-space forms use spaces=(0,1) (trial in space 0, test in space 1) on a common mesh; spaces=(1,0) is probed separately (open known finding space-order)',
                        'boundary integrals: value-only integrands (the assembler keeps only the boundary basis function along the normal axis)',
                        'tolerance rule: |impl - oracle| <= 4*(#nodes + 40*(d^2+#terms))*2^-53 * sum_q |terms| (1e-9 * that sum for forms with libm calls)']
    ctx.rule = ('forms: %d (13 compiled from strings incl. cos/exp/sin/sqrt/abs, parameters of shape ()/(d,)/(d,d), parametric/physical inputs, 2x2 and 2x1 component blocks, '
                'two-space Petrov-Galerkin (random degrees plus forced test>trial, trial>test and per-axis mixed; nqp actually requested diffed against max degree over both spaces + 1), arity-1 scalar and vector, surface measure on a 2D->3D surface, boundary integral on a random side; 8 shipped assemblers); per form and seed: '
                'random degrees 0/1-4, 1-3(4) non-uniform dyadic spans with repeated '
                'knots, B-spline or NURBS perturbed-identity geometry; every entry vs numpy oracle, 200 no-common-support pairs exactly 0.0, 8-30 entries re-derived by the Lean model '
                'from per-node integrand tables; non-trivial = instance with >= 2 spans on some axis' % len(FORMS))
    check_pxi(ctx)
    nlay = layout_stream(ctx) + linear_stream(ctx) + literal_stream(ctx)
    results = join()
    sp10 = results.pop(); jobs.pop()
    req, meta = [], []
    nforms_ok = 0
    for job, res in zip(jobs, results):
        name = job['name']
        if res is not None and res.get('status') == 'timeout':
            from .common import InfraError
            raise InfraError('worker for form %s timed out (machine overloaded?)' % name)
        if res is not None and str(res.get('status', '')).startswith('crashed rc=-'):
            import signal as _sig
            sg = int(res['status'].split('rc=-')[1])
            ctx.violation('impl-crash:%s' % (_sig.Signals(sg).name if sg in [x.value for x in _sig.Signals] else sg),
                          'the interpreter was taken down by native code while assembling form instance %s (seed %s)' % (name, job['seed']),
                          {'form': name, 'seed': job['seed'], 'stderr': (res.get('trace') or '')[-800:]}, True)
            continue
        if res is None or res.get('status') not in ('ok', 'build-failed'):
            ctx.obligation('worker for form %s' % name, False, (res or {}).get('status', 'none') + ' ' + (res or {}).get('trace', '')[-500:])
            ctx.violation('worker:' + name, 'harness worker for form %s failed: %s' % (name, (res or {}).get('status')), {'trace': (res or {}).get('trace', '')}, False)
            continue
        for (key, what, desc, found) in res['violations']:
            ctx.violation(key, what, {'instance': desc, 'stream': 'asm'}, found)
        if res['status'] == 'ok':
            nforms_ok += 1
        for k, v in res['counts'].items():
            ctx.count(k, v)
        d = res.get('desc', {})
        nontriv = any(len(set(kv[0])) > 2 for kv in d.get('kvs0', []))
        ctx.case((name, job['seed']), nontriv)
        ctx.sample({'form': d.get('form'), 'degrees': [kv[1] for kv in d.get('kvs0', [])], 'geometry': d.get('geometry'),
                    'max_err/tol': res.get('max_err_over_tol'), 't_build': res.get('t_build')})
        for L in res['lean']:
            req.append(L['req']); meta.append((name, job['seed'], L, d))
    ctx.obligation('every accepted form builds, loads and assembles (%d instances)' % len(jobs), nforms_ok == len(jobs), '%d ok' % nforms_ok)
    got = ctx.model('drv_c01', req)
    nd = 0
    for g, (name, seed, L, d) in zip(got, meta):
        toks = g.split()
        ok = True; why = ''
        impl = L['impl']
        if toks[0] == 'empty':
            if impl != 0.0 or (L['impl_multi'] is not None and L['impl_multi'] != 0.0):
                ok = False; why = 'model: no common support (early return), implementation returned %r' % impl
            from fractions import Fraction
            if Fraction(toks[1]) != 0:
                ok = False; why = 'integrand table is non-zero although the supports do not intersect'
        elif toks[0] == 'box':
            from fractions import Fraction
            s, a, cnt, full = Fraction(toks[1]), Fraction(toks[2]), int(toks[3]), Fraction(toks[4])
            tol = L['cfac'] * max(float(a), L['refabs']) + 1e-300
            if abs(Fraction(impl) - s) > tol:
                ok = False; why = 'entry%s: implementation %r, model box sum %r, tolerance %g' % (L['ij'], impl, float(s), tol)
            if L['impl_multi'] is not None and L['impl_multi'] != impl:
                ok = False; why = 'entry%s: entry() = %r but multi_entries/assemble_vector = %r' % (L['ij'], impl, L['impl_multi'])
            if s != full:
                ok = False; why = 'entry%s: sum over the support box %r != sum over all nodes %r (integrand does not vanish outside nqp*meshsupp)' % (L['ij'], float(s), float(full))
        else:
            ok = False; why = 'driver answered ' + g[:100]
        ctx.count('lean entry requests')
        if not ok:
            nd += 1
            if nd <= 5:
                # the numpy oracle already compared every entry; a failing one is reported there with found_input=True
                ctx.violation('asm-corr:' + name, 'Lean driver model and implementation disagree: ' + why,
                              {'instance': d, 'request': L['req'][:3000], 'implementation': impl, 'model': g[:300], 'stream': 'asm (drv_c01)'}, False)
    ctx.obligation('stream asm: %d entries re-derived by the Lean driver model within the forward-error rule' % len(req), nd == 0, '%d disagreements' % nd)
    ctx.extra['requests'] = nlay + len(req)
    ctx.extra['form_instances'] = len(jobs)
    probe_space_order(ctx, sp10)


def probe_space_order(ctx, res):
    """excluded point of `entry_indexing`: trial function in space 1, test function in space 0.
    The generated entry_impl looks j up in the tables of u's space but the base class unravels j with S0_ndofs."""
    if res is not None and str(res.get('status', '')).startswith('crashed'):
        ctx.violation('space-order', 'bilinear form with the trial function in space 1 and the test function in space 0: the process crashed while assembling (%s)' % res.get('status'),
                      {'stream': 'asm/space-order', 'form': 'u*v*dx', 'bfuns': [('u', 1, 1), ('v', 1, 0)]}, True)
        return
    if res is None or res.get('status') != 'ok':
        ctx.notes.append('space-order probe did not run: %s' % ((res or {}).get('status'),))
        return
    ctx.count('space-order probe')
    for (key, what, desc, found) in res['violations']:
        ctx.violation(key, what, {'instance': desc, 'stream': 'asm/space-order'}, found)


def _worker_sp10(seed):
    import pyiga
    from pyiga import assemble, bspline, geometry
    pyiga.set_max_threads(1)
    out = {'name': '_sp10', 'status': 'ok', 'violations': [], 'lean': [], 'counts': {}}
    kvsA = (bspline.make_knots(2, 0.0, 1.0, 3), bspline.make_knots(1, 0.0, 1.0, 2))
    kvsB = (bspline.make_knots(3, 0.0, 1.0, 3), bspline.make_knots(2, 0.0, 1.0, 2))
    geo = geometry.unit_square()
    desc = {'form': 'u*v*dx', 'bfuns': [('u', 1, 1), ('v', 1, 0)], 'kvs': 'make_knots(2,0,1,3) x make_knots(1,0,1,2) ; make_knots(3,0,1,3) x make_knots(2,0,1,2)', 'geo': 'unit_square'}
    try:
        A = quiet_call(lambda: assemble.assemble('u*v*dx', (kvsA, kvsB), args={'geo': geo}, bfuns=[('u', 1, 1), ('v', 1, 0)]))
    except BaseException as ex:
        out['counts']['space-order: explicit error'] = 1
        return out
    from pyiga.quadrature import make_tensor_quadrature
    grid, w = make_tensor_quadrature([kv.mesh for kv in kvsA], 4)
    CA = [bspline.collocation(kv, g).toarray() for kv, g in zip(kvsA, grid)]
    CB = [bspline.collocation(kv, g).toarray() for kv, g in zip(kvsB, grid)]
    ref = reduce(np.kron, [CA[k].T @ np.diag(w[k]) @ CB[k] for k in range(2)])   # rows: v in space 0, cols: u in space 1
    A = A.toarray()
    if A.shape != ref.shape or not np.allclose(A, ref, rtol=1e-10, atol=1e-14):
        out['violations'].append(('space-order', 'bilinear form with the trial function in space 1 and the test function in space 0: assembled matrix has shape %s '
                                  '(definition: %s) and %s' % (A.shape, ref.shape, 'contains NaN/garbage' if not np.all(np.isfinite(A)) else 'wrong values'), desc, True))
    return out


def _t_parlay(o):
    K = o.par['K']; a = o.par['a']
    return [(0, 0, o.G(p, 1), o.G(q, 0), K[p, q]) for p in range(2) for q in range(2)] + [(0, 0, o.U0(1), o.G(k, 0), a[k]) for k in range(2)]


PARLAY_FORM = 'inner(K.dot(grad(u)), grad(v))*dx + inner(a, grad(u))*v*dx'


def _compare_dense(A, ref, refa, cfac):
    A = np.asarray(A.toarray() if hasattr(A, 'toarray') else A)
    if A.shape != ref.shape:
        return 'shape %s instead of %s' % (A.shape, ref.shape)
    err = np.abs(A - ref); tol = cfac * refa + 1e-300
    bad = np.argwhere(~(err <= tol))
    if len(bad):
        i, j = [int(x) for x in bad[0]]
        return 'entry (%d,%d) = %r but the Gauss sum of the definition is %r (tolerance %g; %d entries differ, max |diff| %.3g)' % (
            i, j, float(A[i, j]), float(ref[i, j]), float(tol[i, j]), len(bad), float(err.max()))
    return None


def _worker_parlay(seed, tier):
    """parameters of shape (d,), (d,d) in every memory layout / container, at construction and through update_params"""
    nqp_log = install_nqp_recorder()
    import pyiga
    from pyiga import assemble
    pyiga.set_max_threads(1)
    out = {'name': 'parlay', 'status': 'ok', 'violations': [], 'lean': [], 'reqs': [], 'counts': {}}
    FORMS['_parlay'] = (2, 2, PARLAY_FORM, None, False, {}, _t_parlay, False, 1)
    case = make_case('_parlay', seed, tier)
    rng = case['rng']; kvs = case['kvs0']; geo = case['geo']
    desc = {'form': PARLAY_FORM, 'seed': seed, 'kvs0': [(kv.kv.tolist(), kv.p) for kv in kvs], 'geometry': case['gkind']}
    out['desc'] = desc
    # a non-symmetric integer-valued matrix (so that the int-dtype variant denotes the same parameter)
    K = rng.integers(-3, 4, size=(2, 2)).astype(float) + 3 * np.eye(2)
    if K[0, 1] == K[1, 0]:
        K[0, 1] += 1.0
    a = rng.integers(-3, 4, size=2).astype(float)
    if a[0] == a[1]:
        a[0] += 1.0
    big = np.zeros((4, 4)); big[::2, ::2] = K
    bigv = np.zeros(6); bigv[::3] = a
    Kvars = {'C-ordered': np.ascontiguousarray(K), 'F-ordered': np.asfortranarray(K), 'transposed view': np.ascontiguousarray(K.T).T,
             'strided view': big[::2, ::2], 'nested list': K.tolist(), 'nested tuple': tuple(map(tuple, K.tolist())),
             'int dtype': K.astype(np.int64), 'F-ordered int': np.asfortranarray(K.astype(np.int32)), 'float32': K.astype(np.float32)}
    avars = {'array': a.copy(), 'strided view': bigv[::3], 'list': a.tolist(), 'tuple': tuple(a.tolist()), 'int dtype': a.astype(np.int64),
             'reversed view of reversed copy': np.ascontiguousarray(a[::-1])[::-1]}
    for v in Kvars.values():
        assert np.array_equal(np.asarray(v, dtype=float), K)
    for v in avars.values():
        assert np.array_equal(np.asarray(v, dtype=float), a)
    case['args'].update({'K': K, 'a': a})
    FORMS['_parlay'] = (2, 2, PARLAY_FORM, None, False, {'K': 'par2', 'a': 'par1'}, _t_parlay, False, 1)
    try:
        o, nqp, grid, gw = build_oracle('_parlay', case)
        terms = _t_parlay(o); terms_abs = _t_parlay(AbsOracle(o))
        n = int(np.prod([kv.numdofs for kv in kvs]))
        ref = assemble_terms(terms, 2, o.W, None)[(0, 0)]; refa = assemble_terms(terms_abs, 2, o.W, None, absolute=True)[(0, 0)]
        cfac = 4.0 * (o.nn + 40 * (4 + len(terms))) * EPS
        K0 = np.eye(2); a0 = np.zeros(2)
        new = lambda Kv, av: quiet_call(lambda: assemble.instantiate_assembler(PARLAY_FORM, kvs, {'geo': geo, 'K': Kv, 'a': av}, None))
        base = assemble.assemble_entries(new(K, a)).toarray()
        for kn, Kv in Kvars.items():
            for an, av in (list(avars.items()) if kn == 'C-ordered' else [('array', a)]):
                for path in ('construction', 'update_params'):
                    try:
                        if path == 'construction':
                            asm = new(Kv, av)
                        else:
                            asm = new(K0, a0)
                            asm.update_params(K=Kv, a=av)
                        A = assemble.assemble_entries(asm)
                    except BaseException as ex:
                        out['violations'].append(('param-layout', 'parameter K given as %s, a as %s (%s): %s: %s' % (kn, an, path, type(ex).__name__, str(ex)[:150]), desc, True))
                        continue
                    out['counts']['parameter layout cases'] = out['counts'].get('parameter layout cases', 0) + 1
                    why = _compare_dense(A, ref, refa, cfac)
                    if why is None and not np.array_equal(A.toarray(), base):
                        why = 'differs bitwise from the assembler constructed with C-ordered float arrays'
                    if why:
                        out['violations'].append(('param-layout', 'parameter K = %s given as %s, a = %s given as %s (%s): %s' % (K.tolist(), kn, a.tolist(), an, path, why), desc, True))
        # the caller's arrays are not modified
        if not (np.array_equal(Kvars['F-ordered'], K) and np.array_equal(avars['strided view'], a)):
            out['violations'].append(('param-layout', 'parameter arrays of the caller were modified', desc, True))
    finally:
        FORMS.pop('_parlay', None)
    return out


def _worker_bdhist(seed, tier):
    """a history of boundary / volume assemblies through ONE args dict: each result against the oracle of that single call"""
    nqp_log = install_nqp_recorder()
    import pyiga
    from pyiga import assemble, assemblers
    pyiga.set_max_threads(1)
    out = {'name': 'bdhist', 'status': 'ok', 'violations': [], 'lean': [], 'reqs': [], 'counts': {}}
    case = make_case('bdry', seed, tier)
    rng = case['rng']; kvs = case['kvs0']
    problem = FORMS['bdry'][2]
    args = dict(case['args'])          # the ONE dict reused by every call
    snapshot = {k: (v.copy() if isinstance(v, np.ndarray) else v) for k, v in args.items()}
    desc = {'form': problem, 'seed': seed, 'kvs0': [(kv.kv.tolist(), kv.p) for kv in kvs], 'geometry': case['gkind'], 'phys': case['meta']}
    out['desc'] = desc
    names = {(1, 0): 'left', (1, 1): 'right', (0, 0): 'bottom', (0, 1): 'top'}
    sides = [(0, 0), (0, 1), (1, 0), (1, 1)]
    hist = [sides[int(k)] for k in rng.permutation(4)] + ['volume'] + [sides[int(k)] for k in rng.permutation(4)][:3]
    done = []
    for step, side in enumerate(hist):
        if side == 'volume':
            c2 = dict(case, boundary=None)
            FORMS['_vol'] = FORMS['mass2']
            try:
                A = assemble.assemble(assemblers.MassAssembler2D, kvs, args=args)
                o, nqp, grid, gw = build_oracle('mass2', c2)
            finally:
                FORMS.pop('_vol', None)
            terms = _t_mass(o); terms_abs = _t_mass(AbsOracle(o))
        else:
            spec = names[side] if rng.integers(0, 2) else side
            c2 = dict(case, boundary=side)
            try:
                A = quiet_call(lambda: assemble.assemble(problem, kvs, args=args, boundary=spec))
            except BaseException as ex:
                out['violations'].append(('boundary-history', 'boundary assembly %s after %s raised %s: %s' % (side, done, type(ex).__name__, str(ex)[:150]), desc, True))
                break
            o, nqp, grid, gw = build_oracle('bdry', c2)
            terms = _t_gmass(o); terms_abs = _t_gmass(AbsOracle(o))
        ref = assemble_terms(terms, 2, o.W, None)[(0, 0)]; refa = assemble_terms(terms_abs, 2, o.W, None, absolute=True)[(0, 0)]
        cfac = max(4.0 * (o.nn + 40 * (4 + len(terms))) * EPS, 0.0)
        why = _compare_dense(A, ref, refa, cfac)
        out['counts']['boundary-history calls'] = out['counts'].get('boundary-history calls', 0) + 1
        if why:
            out['violations'].append(('boundary-history', 'call %d (%s) through the same args dict after %s: %s' % (step, side, done, why), dict(desc, history=[str(h) for h in hist]), True))
            break
        done.append(side)
    # the caller's own entries are untouched (keys added by the library are recorded, not judged)
    for k, v in snapshot.items():
        same = (k in args) and (np.array_equal(args[k], v) if isinstance(v, np.ndarray) else args[k] is v)
        if not same:
            out['violations'].append(('boundary-history', 'entry %r of the caller\'s args dict was changed by assemble()' % k, desc, True))
    added = sorted(set(args) - set(snapshot))
    out['counts']['args dict: keys added by the library: ' + (','.join(added) or 'none')] = 1
    return out


_worker_orig = worker


def worker(name, seed, tier):   # noqa: F811  (dispatch for the probe)
    if name == '_sp10':
        return _worker_sp10(seed)
    if name == 'parlay':
        return _worker_parlay(seed, tier)
    if name.startswith('updparams'):
        # a parameter entering through a let()/common-subexpression variable, update_params, second assembly (worker of C08)
        from . import c08
        r = c08.worker_updparams(int(name[9:]), seed, tier)
        r.setdefault('lean', [])
        return r
    if name == 'bdhist':
        return _worker_bdhist(seed, tier)
    return _worker_orig(name, seed, tier)
