"""
C10 — eliminating Dirichlet dofs is algebraically exact for any index set (DESIGN.md §6/C10).

tie: hand-written Lean model (Pyiga.Model.Restrict / Pyiga.Model.Slice, driver drv_c10)
     vs pyiga.assemble.{RestrictedLinearSystem, slice_indices, boundary_dofs, boundary_cells,
     combine_bcs, _drop_nans, compute_dirichlet_bc(s), compute_initial_condition_01,
     Multipatch.compute_dirichlet_bcs} on the same inputs (exact diff; small-integer systems
     make the float arithmetic exact)
theorems: Pyiga.Props.C10.*
search (model-free): the property itself in exact integer/Fraction arithmetic on the real code
"""
import itertools
import math
from fractions import Fraction

import numpy as np
import scipy.sparse

from .common import plist, frac

THEOREMS = [
    'Pyiga.Props.C10.build_ok',
    'Pyiga.Props.C10.complete_spec',
    'Pyiga.Props.C10.complete_spec_scalar',
    'Pyiga.Props.C10.scalar_values_broadcast',
    'Pyiga.Props.C10.restrict_extend',
    'Pyiga.Props.C10.extend_restrict',
    'Pyiga.Props.C10.restrict_matrix_spec',
    'Pyiga.Props.C10.complete_restrict',
    'Pyiga.Props.C10.duplicate_indices_error',
    'Pyiga.Props.C10.out_of_range_error',
    'Pyiga.Props.C10.combine_bcs_ok',
    'Pyiga.Props.C10.combine_bcs_spec',
    'Pyiga.Props.C10.combine_bcs_value', 'Pyiga.Props.C10.combine_bcs_indices_order_independent',
    'Pyiga.Props.C10.combine_bcs_disjoint_order_independent',
    'Pyiga.Props.C10.blocked_numbering_injective',
    'Pyiga.Props.C10.dirichlet_bcs_once',
    'Pyiga.Props.C10.multipatch_bcs_once',
    'Pyiga.Props.C10.drop_nans_spec',
    'Pyiga.Props.C10.initial_condition_01',
    'Pyiga.Props.C10.boundary_dofs_spec',
    'Pyiga.Props.C10.boundary_dofs_count',
    'Pyiga.Props.C10.boundary_dofs_flip',
    'Pyiga.Props.C10.boundary_dofs_face',
    'Pyiga.Slice.sliceMulti_flip',
]
MODULES = ['Pyiga.Model.Index', 'Pyiga.Model.Slice', 'Pyiga.Model.Restrict', 'Pyiga.Proofs.Index',
           'Pyiga.Proofs.Slice', 'Pyiga.Proofs.Restrict', 'Pyiga.Proofs.CombineDisjoint', 'Pyiga.Props.C10']

NAMES = ['left', 'right', 'bottom', 'top', 'front', 'back']


# ---------------------------------------------------------------- formatting
def fnum(x):
    if isinstance(x, Fraction):
        return frac(x)
    x = float(x)
    if x != x:
        return 'nan'
    return frac(x)


def fvec(xs):
    return plist(np.asarray(xs).ravel().tolist(), fnum)


def fmat(M):
    M = np.asarray(M)
    return plist(M.tolist(), lambda r: plist(r, fnum))


def fints(xs):
    return plist([int(x) for x in np.asarray(xs).ravel().tolist()])


def fbc(idx, vals):
    return fints(idx) + ' ; ' + fvec(vals)


def errtok(ex):
    if isinstance(ex, AssertionError):
        return 'err-assertion'
    if isinstance(ex, np.linalg.LinAlgError):
        return 'err-LinAlgError'
    return 'err-' + type(ex).__name__


def fspec(bd):
    return bd if isinstance(bd, str) else '%d %d' % (int(bd[0]), int(bd[1]))


def fflip(flip):
    return '-' if flip is None else plist(flip, lambda b: '1' if b else '0')


# ---------------------------------------------------------------- RestrictedLinearSystem
class RlsCase:
    """one constructor call plus the vectors fed to the methods"""
    def __init__(self, m, n, A, b, idx, vals, er, sparse, idxkind, valkind, erkind='list', Bsparse=False, bkind='array'):
        self.m, self.n, self.A, self.b, self.idx, self.vals, self.er = m, n, A, b, list(idx), vals, er
        self.sparse, self.idxkind, self.valkind, self.erkind, self.Bsparse, self.bkind = sparse, idxkind, valkind, erkind, Bsparse, bkind

    def describe(self):
        return {'m': self.m, 'n': self.n, 'A': self.A.tolist(), 'b': self.b if np.isscalar(self.b) else list(map(float, self.b)),
                'indices': self.idx, 'values': self.vals if np.isscalar(self.vals) else list(map(float, self.vals)),
                'elim_rows': self.er, 'A_format': self.sparse or 'ndarray', 'indices_type': self.idxkind,
                'values_type': self.valkind,
                'call': 'RestrictedLinearSystem(A, b, (indices, values), elim_rows)'}

    def args(self):
        A = self.A.astype(float)
        if self.sparse:
            A = getattr(scipy.sparse, self.sparse + '_matrix')(A)
        if np.isscalar(self.b):
            b = self.b
        elif self.bkind == 'list':
            b = [float(x) for x in self.b]
        else:
            b = np.array(self.b, dtype=float)
        if self.idxkind == 'list':
            idx = list(self.idx)
        elif self.idxkind == 'tuple':
            idx = tuple(self.idx)
        else:
            idx = np.array(self.idx, dtype=int)
        if np.isscalar(self.vals):
            vals = self.vals
        elif self.valkind == 'list':
            vals = [float(v) for v in self.vals]
        else:
            vals = np.array(self.vals, dtype=float)
        er = self.er
        if er is not None and self.erkind == 'ndarray':
            er = np.array(er, dtype=int)
        return A, b, idx, vals, er

    def build(self):
        from pyiga import assemble
        A, b, idx, vals, er = self.args()
        return assemble.RestrictedLinearSystem(A, b, (idx, vals), elim_rows=er)

    def nfree_expected(self):
        return self.n - len(set(i for i in self.idx if 0 <= i < self.n))

    def request(self, u, uf, f, B):
        bs = ('s ' + fnum(self.b)) if np.isscalar(self.b) else ('a ' + fvec(self.b))
        vs = ('s ' + fnum(self.vals)) if np.isscalar(self.vals) else ('a ' + fvec(self.vals))
        return 'rls %d %d %s %s %s %s %s %s %s %s %s %s' % (
            self.m, self.n, fvec(self.A), bs, 'a' if self.idxkind == 'ndarray' else 'l', plist(self.idx), vs,
            '-' if self.er is None else plist(self.er), fvec(u), fvec(uf), fvec(f), fvec(B))


def run_rls(case, rng):
    """returns (request, implementation answer)"""
    def guarded(name, f, fmt):
        try:
            return name + ' ' + fmt(f())
        except Exception as ex:
            return name + ' ' + errtok(ex)
    try:
        S = case.build()
        nfree = int(S.R_free.shape[0])
    except Exception as ex:
        S = None
        nfree = case.nfree_expected()
        ans = errtok(ex)
    nu = case.n + (1 if rng.integers(0, 40) == 0 else 0)
    u = rng.integers(-5, 6, size=nu).astype(float)
    uf = rng.integers(-5, 6, size=max(nfree, 0)).astype(float)
    f = rng.integers(-5, 6, size=case.m).astype(float)
    B = rng.integers(-4, 5, size=(case.m, case.n)).astype(float)
    req = case.request(u, uf, f, B)
    if S is not None:
        Bq = scipy.sparse.csr_matrix(B) if case.Bsparse else B
        def dense(M):
            return M.toarray() if scipy.sparse.issparse(M) else np.asarray(M)
        ans = ' | '.join([
            guarded('A', lambda: dense(S.A), fmat), guarded('b', lambda: S.b, fvec),
            guarded('vals', lambda: S.values, fvec),
            guarded('restrict', lambda: S.restrict(u), fvec), guarded('extend', lambda: S.extend(uf), fvec),
            guarded('rrhs', lambda: S.restrict_rhs(f), fvec), guarded('rmat', lambda: dense(S.restrict_matrix(Bq)), fmat),
            guarded('complete', lambda: S.complete(uf), fvec)])
    return req, ans


def _snapshot(objs):
    """bitwise fingerprints of every array-like input (dense arrays, sparse data/indices/indptr, lists)"""
    snap = {}
    for name, o in objs.items():
        if o is None or np.isscalar(o):
            snap[name] = repr(o)
        elif scipy.sparse.issparse(o):
            snap[name] = (o.format, o.shape, o.data.tobytes(), o.indices.tobytes(), o.indptr.tobytes())
        elif isinstance(o, np.ndarray):
            snap[name] = (o.dtype.str, o.shape, o.tobytes())
        else:
            snap[name] = repr(list(o))
    return snap


def object_history_stream(ctx):
    """call histories on ONE RestrictedLinearSystem object: complete / extend / restrict / restrict_rhs /
    restrict_matrix are called 4-8 times with different vectors while every earlier result is retained by the
    caller; after the last call every retained result is (a) compared with the Lean model's answer for its own
    call (exact diff through drv_c10), (b) compared bitwise with the copy taken when it was returned, and (c)
    checked against the definition (model-free); all inputs and arguments are monitored bitwise.  Results handed
    out belong to the caller: a later call must not change them."""
    from pyiga import assemble
    rng = ctx.rng
    ncase = 400 if ctx.tier == 'quick' else 5000
    req, impl, meta = [], [], []
    for t in range(ncase):
        n = int(rng.integers(2, 8))
        k = int(rng.integers(1, n))
        idx0 = [int(i) for i in rng.permutation(n)[:k]]
        scalar_vals = rng.integers(0, 5) == 0
        vals0 = float(rng.integers(-6, 7)) if scalar_vals else [float(v) for v in rng.integers(-7, 8, size=k)]
        er0 = [int(i) for i in rng.permutation(n)[:k]] if rng.integers(0, 4) == 0 else None
        case = RlsCase(n, n, rand_matrix(rng, n, n, dominant=True), [float(v) for v in rng.integers(-6, 7, size=n)], idx0, vals0, er0,
                       [None, 'csr', 'csc'][int(rng.integers(0, 3))], 'ndarray', 'ndarray')
        free = [j for j in range(n) if j not in set(idx0)]
        freev = [r for r in range(n) if r not in set(idx0 if er0 is None else er0)]
        vals_list = [vals0] * k if scalar_vals else vals0
        nops = int(rng.integers(4, 9))
        ops = [['complete', 'complete', 'extend', 'restrict', 'rrhs', 'rmat'][int(rng.integers(0, 6))] for _ in range(nops)]
        if rng.integers(0, 2) == 0:
            ops[0] = ops[-1] = 'complete'
        ctx.case(('object-history', n, tuple(idx0), tuple(ops)), nontrivial=True)
        ctx.count('object histories'); ctx.count('object-history calls', nops)
        replay = dict(case.describe(), ops=ops, vectors=[])
        found = None
        kept = []       # (op, argument, returned object, bytes at return time)
        try:
            A, b, idx, vals, er = case.args()
            inputs = {'A': A, 'b': b, 'indices': idx, 'values': vals, 'elim_rows': er}
            snaps = _snapshot(inputs)
            ctx.mark('object-history ' + repr(replay)[:400]) if hasattr(ctx, 'mark') else None
            S = assemble.RestrictedLinearSystem(A, b, (idx, vals), elim_rows=er)
            for j, op in enumerate(ops):
                dt = float if rng.integers(0, 5) else np.int64
                u = rng.integers(-5, 6, size=n).astype(dt)
                uf = rng.integers(-5, 6, size=len(free)).astype(dt)
                f = rng.integers(-5, 6, size=n).astype(dt)
                B = rng.integers(-4, 5, size=(n, n)).astype(float)
                newin = {'u%d' % j: u, 'uf%d' % j: uf, 'f%d' % j: f, 'B%d' % j: B}
                inputs.update(newin); snaps.update(_snapshot(newin))
                replay['vectors'].append({'op': op, 'u': u.tolist(), 'u_f': uf.tolist(), 'f': f.tolist(), 'B': B.tolist()})
                r = {'complete': lambda: S.complete(uf), 'extend': lambda: S.extend(uf), 'restrict': lambda: S.restrict(u),
                     'rrhs': lambda: S.restrict_rhs(f), 'rmat': lambda: S.restrict_matrix(B)}[op]()
                dense_now = (r.toarray() if scipy.sparse.issparse(r) else np.array(r, copy=True))
                kept.append((op, (u, uf, f, B), r, dense_now))
                req.append(case.request(u.astype(float), uf.astype(float), f.astype(float), B))
            after = _snapshot(inputs)
            changed = [nm for nm in snaps if snaps[nm] != after[nm]]
            if changed:
                found = 'input / argument %s modified in place during the call history' % ', '.join(changed)
        except Exception as ex:
            found = 'implementation raised %s on a valid call history: %s' % (type(ex).__name__, str(ex)[:120])
        # after the whole history: look at every retained result again
        answers = []
        for j, (op, (u, uf, f, B), r, at_return) in enumerate(kept):
            now = r.toarray() if scipy.sparse.issparse(r) else np.asarray(r)
            answers.append((op, (fmat if op == 'rmat' else fvec)(now)))
            if now.shape != at_return.shape or not np.array_equal(now, at_return):
                found = found or ('the vector returned by call %d (%s) was changed by a later call on the same object: it was %s when returned, '
                                  'it is %s after call %d' % (j, op, at_return.tolist(), now.tolist(), len(kept) - 1))
            want = None
            if op == 'complete':
                want = np.zeros(n); want[free] = uf
                for i, v in zip(idx0, vals_list):
                    want[i] = v
            elif op == 'extend':
                want = np.zeros(n); want[free] = uf
            elif op == 'restrict':
                want = np.asarray(u, dtype=float)[free]
            elif op == 'rrhs':
                want = np.asarray(f, dtype=float)[freev]
            elif op == 'rmat':
                want = B[np.ix_(freev, free)] if free and freev else np.zeros((len(freev), len(free)))
            if want is not None and (np.shape(now) != np.shape(want) or not np.array_equal(np.asarray(now, dtype=float), want)):
                found = found or 'retained result of call %d (%s) is %s, by definition it is %s' % (j, op, np.asarray(now).tolist(), np.asarray(want).tolist())
        while len(answers) < len(ops) and found is not None:
            answers.append((ops[len(answers)], 'err'))
            req.append(case.request(np.zeros(n), np.zeros(len(free)), np.zeros(n), np.zeros((n, n))))
        impl.extend(answers)
        meta.extend([(replay, found if j == 0 else None, j) for j in range(len(answers))])
    got = ctx.model('drv_c10', req)
    nbad = 0
    nrep = 0
    for r_, (op, e), g, (replay, found, j) in zip(req, impl, got, meta):
        fields = dict((x.split(' ', 1) + [''])[:2] for x in g.split(' | '))
        gm = fields.get(op)
        dis = (gm != e)
        if dis or found is not None:
            nbad += 1
            if nrep < 2:
                nrep += 1
                ctx.violation('bc-object-history', (found or 'retained result of call %d (%s) differs from the model: %s vs model %s' % (j, op, e[:200], str(gm)[:200])),
                              dict(replay, request=r_[:2000], oracle=found, call='S = RestrictedLinearSystem(A, b, (indices, values), elim_rows); '
                                   'r_j = S.<op_j>(vector_j) for every entry of `vectors`, all r_j retained; afterwards every r_j must still be its own result'),
                              found is not None or dis)
    ctx.obligation('object-history stream: %d calls in %d histories on one object; every retained result == model and unchanged by later calls' % (len(req), ncase),
                   nbad == 0, '%d failing calls/histories' % nbad)
    ctx.extra['requests'] = ctx.extra.get('requests', 0) + len(req)


def shared_input_stream(ctx):
    """(1) monitor: every input of RestrictedLinearSystem (A data/indices, b, indices, values, elim_rows) and
    every vector passed to restrict/extend/restrict_rhs/restrict_matrix/complete is bitwise unchanged afterwards;
    (2) history: 2-3 systems are built from the SAME right-hand-side array object (and the same A, indices)
    with different Dirichlet value sets - several load cases - and each is checked by the exact oracle against
    pristine copies: u = extend(u_f) + R_elim^T values (through the implementation's own linear maps, scaled
    to stay integral) takes the prescribed values and satisfies every non-eliminated equation of the ORIGINAL
    system.  No Lean model involved."""
    from pyiga import assemble
    rng = ctx.rng
    ncase = 500 if ctx.tier == 'quick' else 6000
    nbad = 0
    reported = set()
    for t in range(ncase):
        n = int(rng.integers(2, 8))
        A0 = rand_matrix(rng, n, n, dominant=True)
        b0 = rng.integers(-6, 7, size=n)
        k = int(rng.integers(1, n))
        idx0 = [int(i) for i in rng.permutation(n)[:k]]
        use_er = rng.integers(0, 4) == 0
        er0 = [int(i) for i in rng.permutation(n)[:k]] if use_er else None
        fmt = [None, 'csr', 'csc'][int(rng.integers(0, 3))]
        A = A0.astype(float)
        if fmt:
            A = getattr(scipy.sparse, fmt + '_matrix')(A)
        b = np.array(b0, dtype=float)                      # ONE rhs object for all load cases
        idx = np.array(idx0, dtype=int)
        er = None if er0 is None else (np.array(er0, dtype=int) if rng.integers(0, 2) else list(er0))
        nsys = int(rng.integers(2, 4))
        valsets = [[int(v) for v in rng.integers(-7, 8, size=k)] for _ in range(nsys)]
        if rng.integers(0, 5) == 0:
            valsets[0] = [0] * k
        ctx.case(('shared-rhs', n, tuple(idx0), fmt, tuple(map(tuple, valsets))), nontrivial=True)
        ctx.count('shared-rhs histories'); ctx.count('shared-rhs systems', nsys)
        free = [j for j in range(n) if j not in set(idx0)]
        freev = [r for r in range(n) if r not in set(idx0 if er0 is None else er0)]
        found, key, alias = None, None, None
        replay = {'n': n, 'A': A0.tolist(), 'A_format': fmt or 'ndarray', 'b (one float64 array reused for every system)': b0.tolist(),
                  'indices': idx0, 'elim_rows': er0, 'value_sets': valsets,
                  'call': 'for vals in value_sets: S = RestrictedLinearSystem(A, b, (indices, np.array(vals, float)), elim_rows); '
                          'u = S.complete(solve(S.A, S.b)); check u[indices] == vals and (A u)[r] == b_pristine[r] on non-eliminated rows'}
        try:
            for si, vs in enumerate(valsets):
                vals = np.array(vs, dtype=float)
                u = rng.integers(-5, 6, size=n).astype(float)
                uf = rng.integers(-5, 6, size=len(free)).astype(float)
                f = rng.integers(-5, 6, size=n).astype(float)
                B = rng.integers(-4, 5, size=(n, n)).astype(float)
                inputs = {'A': A, 'b': b, 'indices': idx, 'values': vals, 'elim_rows': er, 'u': u, 'u_f': uf, 'f': f, 'B': B}
                before = _snapshot(inputs)
                S = assemble.RestrictedLinearSystem(A, b, (idx, vals), elim_rows=er)
                after_ctor = _snapshot(inputs)
                S.restrict(u); S.extend(uf); S.restrict_rhs(f); S.restrict_matrix(B); S.complete(uf)
                after = _snapshot(inputs)
                changed = [nm for nm in before if before[nm] != after_ctor[nm]]
                changed2 = [nm for nm in before if after_ctor[nm] != after[nm]]
                if changed or changed2:
                    alias = alias or ('system %d: input %s modified in place by %s' % (
                        si, ', '.join(changed or changed2), 'the constructor' if changed else 'restrict/extend/restrict_rhs/restrict_matrix/complete'))
                # exact oracle against the pristine data
                Ar = S.A.toarray() if scipy.sparse.issparse(S.A) else np.asarray(S.A)
                Ari, bri = exact_ints(Ar), exact_ints(np.asarray(S.b, dtype=float).ravel())
                kf = len(free)
                if Ar.shape != (len(freev), kf) or Ari is None or bri is None:
                    found = found or 'system %d: restricted system has the wrong shape or is not integer-valued' % si
                    key = key or 'bc-history:shared-rhs'
                    continue
                if len(freev) != kf:
                    continue
                uf_ex = solve_fraction([Ari[i * kf:(i + 1) * kf] for i in range(kf)], bri) if kf else []
                if uf_ex is None:
                    continue
                den = 1
                for q in uf_ex:
                    den = den * q.denominator // math.gcd(den, q.denominator)
                if den >= 2 ** 30:
                    continue
                # den * u = extend(den * u_f) + den * complete(0): the implementation's own maps on integer data
                ext = exact_ints(S.extend(np.array([int(q * den) for q in uf_ex], dtype=float)))
                c0 = exact_ints(S.complete(np.zeros(kf)))
                if ext is None or c0 is None or len(ext) != n or len(c0) != n:
                    found = found or 'system %d: extend/complete do not return integer vectors of length n for integer data' % si
                    key = key or 'bc-history:shared-rhs'
                    continue
                U = [ext[j] + den * c0[j] for j in range(n)]
                for i, v in zip(idx0, vs):
                    if U[i] != den * v and found is None:
                        found = 'system %d (values %s): completed solution has u[%d] = %s, prescribed %d' % (si, vs, i, Fraction(U[i], den), v)
                        key = 'bc-history:shared-rhs'
                for r in freev:
                    lhs = sum(int(A0[r, j]) * U[j] for j in range(n))
                    if lhs != den * int(b0[r]) and found is None:
                        found = ('system %d (values %s) built from the same rhs array as the previous system(s): the completed solution violates '
                                 'non-eliminated equation %d of the original system: (A u)[%d] = %s, b[%d] = %d' % (
                                     si, vs, r, r, Fraction(lhs, den), r, int(b0[r])))
                        key = 'bc-history:shared-rhs'
        except Exception as ex:
            found = found or 'implementation raised %s: %s' % (type(ex).__name__, str(ex)[:120])
            key = key or 'bc-history:shared-rhs'
        if found is not None or alias is not None:
            nbad += 1
        for kk, dd in (('bc-alias:inputs', alias), (key, found)):
            if dd is not None and kk not in reported:
                reported.add(kk)
                ctx.violation(kk, dd, dict(replay, oracle=dd), True)
    ctx.obligation('input-aliasing monitor and shared-rhs histories: %d histories; inputs bitwise unchanged, every system exact w.r.t. pristine data' % ncase,
                   nbad == 0, '%d failing histories' % nbad)


def rand_matrix(rng, m, n, dominant=False):
    A = rng.integers(-4, 5, size=(m, n))
    if dominant:
        for i in range(min(m, n)):
            A[i, i] = int(np.abs(A[i]).sum() - abs(A[i, i]) + rng.integers(1, 4))
    return A


def gen_rls(ctx):
    rng = ctx.rng
    cases = []

    def mk(n, idx, m=None, er='auto', tag=''):
        m = n if m is None else m
        sparse = [None, 'csr', 'csr', 'csc'][int(rng.integers(0, 4))]
        idxkind = ['list', 'tuple', 'ndarray', 'ndarray'][int(rng.integers(0, 4))]
        scalar_vals = rng.integers(0, 4) == 0
        if scalar_vals:
            vals = float(rng.integers(-3, 4))
            if tag != 'attr':
                idxkind = 'ndarray'
        else:
            vals = [float(v) for v in rng.integers(-9, 10, size=len(idx))]
        bk = int(rng.integers(0, 5))
        b = 0 if bk == 0 else (float(rng.integers(1, 4)) if bk == 1 else rng.integers(-5, 6, size=m).astype(float))
        if er == 'auto':
            er = None
            if m != n or rng.integers(0, 3) == 0:
                k = int(rng.integers(0, m + 1))
                er = [int(r) for r in rng.permutation(m)[:k]]
                if er and rng.integers(0, 6) == 0:
                    er.append(er[0])      # repetitions in elim_rows are harmless (mask)
        return RlsCase(m, n, rand_matrix(rng, m, n, dominant=bool(rng.integers(0, 2))), b, idx, vals, er, sparse, idxkind,
                       'list' if rng.integers(0, 3) == 0 else 'ndarray', erkind=['list', 'ndarray'][int(rng.integers(0, 2))],
                       Bsparse=bool(rng.integers(0, 2)), bkind='list' if rng.integers(0, 6) == 0 else 'array')

    # exhaustive: every ordered subset of range(n), n <= 4 (includes empty, all-but-one, all dofs, every order)
    reps = 8 if ctx.tier == 'quick' else 20
    for n in range(1, 5):
        for k in range(0, n + 1):
            for idx in itertools.permutations(range(n), k):
                for _ in range(reps):
                    cases.append((mk(n, list(idx)), 'exh'))
    # random larger systems, random order
    nrand = 5000 if ctx.tier == 'quick' else 20000
    for _ in range(nrand):
        n = int(rng.integers(5, 9))
        mode = int(rng.integers(0, 8))
        k = {0: 0, 1: n - 1, 2: n}.get(mode, int(rng.integers(1, n)))
        idx = [int(i) for i in rng.permutation(n)[:k]]
        m = n if rng.integers(0, 3) else int(rng.integers(1, 9))
        cases.append((mk(n, idx, m=m), 'rand'))
    # malformed: expected outcome is the error kind
    nbad = 1000 if ctx.tier == 'quick' else 3000
    for _ in range(nbad):
        n = int(rng.integers(1, 8))
        k = int(rng.integers(1, n + 1))
        idx = [int(i) for i in rng.permutation(n)[:k]]
        kind = ['dup', 'oor', 'erows-oor', 'short', 'long', 'attr', 'rect'][int(rng.integers(0, 7))]
        if kind == 'dup':
            idx.insert(int(rng.integers(0, len(idx) + 1)), idx[int(rng.integers(0, len(idx)))])
            c = mk(n, idx)
        elif kind == 'oor':
            idx.insert(int(rng.integers(0, len(idx) + 1)), n + int(rng.integers(0, 3)))
            c = mk(n, idx)
        elif kind == 'erows-oor':
            c = mk(n, idx, er=[int(r) for r in rng.permutation(n)[:2]] + [n + int(rng.integers(0, 2))])
        elif kind in ('short', 'long'):
            c = mk(n, idx)
            if not np.isscalar(c.vals):
                c.vals = c.vals[:-1] if kind == 'short' else c.vals + [7.0]
        elif kind == 'attr':
            c = mk(n, idx, tag='attr')
        else:
            m = n + int(rng.integers(1, 3))
            c = mk(n, idx, m=m, er=None)
        cases.append((c, 'bad-' + kind))
    return cases


def solve_fraction(M, r):
    """exact Gaussian elimination; returns list of Fractions or None if singular"""
    k = len(M)
    a = [[Fraction(x) for x in row] + [Fraction(y)] for row, y in zip(M, r)]
    for c in range(k):
        p = next((i for i in range(c, k) if a[i][c] != 0), None)
        if p is None:
            return None
        a[c], a[p] = a[p], a[c]
        for i in range(k):
            if i != c and a[i][c] != 0:
                t = a[i][c] / a[c][c]
                a[i] = [x - t * y for x, y in zip(a[i], a[c])]
    return [a[i][k] / a[i][i] for i in range(k)]


def exact_ints(x):
    """list of python ints if every entry of the float array is an exact integer below 2^52, else None"""
    out = []
    for v in np.asarray(x, dtype=float).ravel().tolist():
        if v != v or abs(v) >= 2.0 ** 52 or v != int(v):
            return None
        out.append(int(v))
    return out


def oracle_rls(case):
    """The property itself, evaluated on the real code in exact integer arithmetic (no Lean model).
    Returns None (holds / not applicable) or a description of how it fails."""
    n, m = case.n, case.m
    valid = (len(set(case.idx)) == len(case.idx) and all(0 <= i < n for i in case.idx)
             and (np.isscalar(case.vals) or len(case.vals) == len(case.idx))
             and (case.er is not None or m == n) and (case.er is None or all(0 <= r < m for r in case.er))
             and (case.idxkind == 'ndarray' or not np.isscalar(case.vals)))
    if not valid:
        return None
    vals = [case.vals] * len(case.idx) if np.isscalar(case.vals) else list(case.vals)
    rows_elim = set(case.idx if case.er is None else case.er)
    free = [j for j in range(n) if j not in set(case.idx)]
    freev = [r for r in range(m) if r not in rows_elim]
    A = case.A.astype(int).tolist()
    bfull = [case.b] * m if np.isscalar(case.b) else list(case.b)
    scale = 1
    for attempt in range(2):
        c2 = RlsCase(m, n, case.A, case.b * scale if np.isscalar(case.b) else [x * scale for x in case.b], case.idx,
                     case.vals * scale if np.isscalar(case.vals) else [v * scale for v in case.vals], case.er,
                     case.sparse, case.idxkind, case.valkind, case.erkind, case.Bsparse, case.bkind)
        try:
            S = c2.build()
            Ar = S.A.toarray() if scipy.sparse.issparse(S.A) else np.asarray(S.A)
            br = np.asarray(S.b, dtype=float).ravel()
        except Exception as ex:
            return 'RestrictedLinearSystem raises %s on a valid input: %s' % (type(ex).__name__, str(ex)[:120])
        # mutual consistency (exact, integer data)
        rng = np.random.default_rng(12345)
        u = rng.integers(-5, 6, size=n).astype(float)
        uf = rng.integers(-5, 6, size=len(free)).astype(float)
        B = rng.integers(-4, 5, size=(m, n)).astype(float)
        try:
            if Ar.shape != (len(freev), len(free)) or br.shape != (len(freev),):
                return 'restricted system has shape %s / rhs %s, expected %d x %d' % (Ar.shape, br.shape, len(freev), len(free))
            if not np.array_equal(S.restrict(u), u[free]):
                return 'restrict(u) is not u on the free dofs'
            e = S.extend(uf)
            want = np.zeros(n); want[free] = uf
            if not np.array_equal(e, want):
                return 'extend(uf) is not uf padded with zeros'
            if not np.array_equal(S.restrict(S.extend(uf)), uf):
                return 'restrict(extend(uf)) != uf'
            RB = S.restrict_matrix(B)
            RB = RB.toarray() if scipy.sparse.issparse(RB) else np.asarray(RB)
            if not np.array_equal(RB, B[np.ix_(freev, free)] if free and freev else np.zeros((len(freev), len(free)))):
                return 'restrict_matrix(B) is not B[free rows][:, free dofs]'
            if not np.array_equal(Ar, case.A.astype(float)[np.ix_(freev, free)] if free and freev else np.zeros((len(freev), len(free)))):
                return 'sys.A is not A[free rows][:, free dofs]'
            ut = u.copy()
            for i, v in zip(case.idx, vals):
                ut[i] = v * scale
            if not np.array_equal(S.complete(S.restrict(ut)), ut):
                return 'complete(restrict(u)) != u for a vector carrying the prescribed values'
        except Exception as ex:
            return 'a method of RestrictedLinearSystem raises %s on a valid input: %s' % (type(ex).__name__, str(ex)[:120])
        if len(free) != len(freev):
            return None        # restricted system not square: nothing to solve
        Ari, bri = exact_ints(Ar), exact_ints(br)
        if Ari is None or bri is None:
            return 'restricted system of an integer problem is not integer-valued'
        k = len(free)
        uf_ex = solve_fraction([Ari[i * k:(i + 1) * k] for i in range(k)], bri) if k else []
        if uf_ex is None:
            return None        # singular restricted matrix: the property's premise cannot be met
        den = 1
        for q in uf_ex:
            den = den * q.denominator // math.gcd(den, q.denominator)
        if den != 1:
            if attempt == 0 and den < 2 ** 20:
                scale = den
                continue
            return None
        ufv = [int(q) for q in uf_ex]
        try:
            uc = exact_ints(S.complete(np.array(ufv, dtype=float)))
        except Exception as ex:
            return 'complete raises %s: %s' % (type(ex).__name__, str(ex)[:120])
        if uc is None or len(uc) != n:
            return 'complete(u_f) is not an integer vector of length n for integer data'
        for kk, (i, v) in enumerate(zip(case.idx, vals)):
            if uc[i] != int(v * scale):
                return ('u = complete(solve(sys.A, sys.b)) has u[%d] = %d but the prescribed value of dof %d is %s '
                        '(values scaled by %d to keep the solve integral)' % (i, uc[i], i, v * scale, scale))
        for r in freev:
            lhs = sum(A[r][j] * uc[j] for j in range(n))
            if lhs != int(bfull[r] * scale):
                return ('u = complete(solve(sys.A, sys.b)) violates non-eliminated equation %d: (A u)[%d] = %d, b[%d] = %s '
                        '(scaled by %d)' % (r, r, lhs, r, bfull[r] * scale, scale))
        return None
    return None


def search_rls(case):
    """failing-input search around a disagreeing constructor call"""
    d = oracle_rls(case)
    if d is not None:
        return d, case
    rng = np.random.default_rng(99)
    for t in range(40):
        n, m = case.n, case.m
        A = rand_matrix(rng, m, n, dominant=True)
        c2 = RlsCase(m, n, A, case.b if t % 2 == 0 else rng.integers(-5, 6, size=m).astype(float), case.idx, case.vals, case.er,
                     case.sparse, case.idxkind, case.valkind, case.erkind, case.Bsparse, 'array')
        if t >= 20 and not np.isscalar(case.vals):
            c2.vals = [float(v) for v in rng.integers(-9, 10, size=len(case.vals))]
        if t % 4 >= 2:
            # make the restricted system square so that it can be solved: |elim_rows| = m - n + |indices|
            k = m - n + len(set(case.idx))
            if m == n and t % 4 == 2:
                c2.er = None
            elif 0 <= k <= m:
                c2.er = [int(r) for r in rng.permutation(m)[:k]]
        d = oracle_rls(c2)
        if d is not None:
            return d, c2
    return None, case


# ---------------------------------------------------------------- slices
def oracle_slice(ax, idx, shape, flip):
    """model-free: faces of np.arange(prod).reshape(shape)"""
    from pyiga import assemble
    n = shape[ax]
    if not (-n <= idx < n):
        return None
    T = np.arange(int(np.prod(shape))).reshape(shape)
    if flip is not None:
        fl = list(flip[:ax]) + [False] + list(flip[ax:])
        for a, f in enumerate(fl[:len(shape)]):
            if f:
                T = np.flip(T, axis=a)
    want = np.take(T, idx, axis=ax).ravel()
    try:
        got = assemble.slice_indices(ax, idx, shape, ravel=True, flip=flip)
        multi = assemble.slice_indices(ax, idx, shape, ravel=False, flip=flip)
    except Exception as ex:
        return 'slice_indices raises %s on a valid face' % type(ex).__name__
    if not np.array_equal(got, want):
        return 'slice_indices(%d, %d, %s, ravel=True, flip=%s) = %s, but the face of arange(prod).reshape(shape) is %s' % (
            ax, idx, shape, flip, np.asarray(got).tolist()[:12], want.tolist()[:12])
    if len(want) and not np.array_equal(np.ravel_multi_index(np.asarray(multi).T, shape), want):
        return 'multi-indices of slice_indices(ravel=False) do not ravel to the face'
    return None


def all_flips(d):
    return [None] + [tuple(bool(b) for b in bits) for bits in itertools.product([0, 1], repeat=d - 1)]


# ---------------------------------------------------------------- boundary data
def lin_func(coef):
    c = [float(x) for x in coef]
    def f(*X):
        r = c[0]
        for a, x in zip(c[1:], X):
            r = r + a * x
        return r
    return f


def greville_points(kvs, N, index):
    """physical = parametric Greville point of raveled dof `index` (identity-like geometry), in x,y,z order"""
    I = np.unravel_index(int(index), N)
    pt = [float(kv.greville()[i]) for kv, i in zip(kvs, I)]
    return pt[::-1]


def run(ctx):
    import time
    t0 = time.time()
    ctx.build_repo()
    from pyiga import assemble, bspline, geometry, approx
    ctx.require_lean(['Pyiga.Props.C10', 'drv_c10'])
    ctx.extra['t_build_s'] = round(time.time() - t0, 1); t0 = time.time()
    ctx.audit(['Pyiga.Props.C10'], THEOREMS, MODULES)
    ctx.extra['t_audit_s'] = round(time.time() - t0, 1); t0 = time.time()
    if ctx.tier == 'thorough':
        ctx.leanchecker(MODULES)
    ctx.trusted += [
        'scipy.sparse selection-matrix products I[mask].dot(u) / .T.dot(w) (duplicate rows summed), np.unique(return_index), '
        'np.argsort(kind=stable), np.ravel_multi_index, itertools.product modelled by their documented behaviour (List functions); each is '
        'exercised by the correspondence stream',
        'modelled, not verified: approx.interpolate (its coefficient array is an input of the model), patch_to_global_idx (input), '
        'bspline.active_deriv at the face (input of the 2x2 solve), LAPACK gesv (closed-form 2x2 inverse in the model)',
        'IEEE double arithmetic: the linear systems of the stream have small integer data so every float operation is exact',
    ]
    ctx.assumptions += [
        'indices and elim_rows are integers in [0, n) resp. [0, m) (numpy wraps negative indices; outside the property domain)',
        'len(b) == A.shape[0] when b is an array; len(values) == len(indices) (surplus values are silently ignored by the code, fewer raise IndexError; both are tied by the stream but are outside the theorem)',
        'ax >= 0 in slice_indices; flip tuples contain booleans',
        'compute_initial_condition_01 evaluates the end functions at the literals 0.0 / 1.0: the time axis is assumed to be [0,1]',
    ]
    ctx.rule = ('RestrictedLinearSystem: every ordered subset of range(n) for n<=4 (x%d random draws of A (dense/csr/csc), b (0, scalar, array, list), '
                'values (scalar/list/ndarray), indices (list/tuple/ndarray), elim_rows (None/unsorted/repeated)), random n in 5..8 incl. empty / all-but-one / all '
                'and rectangular A with elim_rows, malformed calls (duplicates, out-of-range, short/long values, scalar values with list indices, rectangular without elim_rows); '
                'per system: A, b, values, restrict, extend, restrict_rhs, restrict_matrix, complete on random integer vectors. '
                'slice_indices: all shapes with 1-3 axes of size 1..4, every axis, idx in [-n-1, n], every flip tuple, ravel on/off; boundary_dofs/cells on make_knots spaces, '
                'all (ax, side), face names and invalid specs. combine_bcs/_drop_nans on random overlapping index arrays. compute_dirichlet_bc(s), Multipatch.compute_dirichlet_bcs, '
                'compute_initial_condition_01 on unit line/square/cube patches with constant / linear / vector / NaN data. '
                'non-trivial = system with >=1 eliminated and >=1 free dof, or face of a >=2-axis shape; distinct by request' % (8 if ctx.tier == 'quick' else 20))
    rng = ctx.rng
    req, exp, meta = [], [], []

    def add(r, e, m):
        if callable(e):
            try:
                e = e()
            except Exception as ex:
                e = errtok(ex)
                ctx.count(e)
        req.append(r); exp.append(e); meta.append(m)

    # ------------------------------------------------------------ (A) linear systems
    rls_cases = gen_rls(ctx)
    for case, tag in rls_cases:
        r, e = run_rls(case, rng)
        if e.startswith('err-'):
            ctx.count(e)
        req.append(r); exp.append(e); meta.append(('rls', case))
        k = len(set(case.idx))
        ctx.case(r, nontrivial=(0 < k < case.n))
        ctx.count('rls:' + tag); ctx.count('rls:A=' + (case.sparse or 'ndarray'))
        ctx.count('rls:values=' + ('scalar' if np.isscalar(case.vals) else case.valkind))
        ctx.count('rls:elim_rows=' + ('none' if case.er is None else 'given'))
        ctx.count('rls:sorted' if case.idx == sorted(case.idx) else 'rls:unsorted')
        if tag == 'rand' and len(ctx.samples) < 2:
            ctx.sample({'request': r[:300], 'implementation': e[:300]})

    # ------------------------------------------------------------ (B) slices
    slice_cases = []
    shapes = [s for d in (1, 2, 3) for s in itertools.product(range(1, 5), repeat=d)]
    for shape in shapes:
        d = len(shape)
        for ax in range(d):
            n = shape[ax]
            for idx in range(-n - 1, n + 1):
                for flip in all_flips(d):
                    for ravel in (True, False):
                        if ctx.tier == 'quick' and d == 3 and rng.integers(0, 3) != 0:
                            continue
                        slice_cases.append((ax, idx, shape, flip, ravel))
    # wrong flip lengths / axis out of range
    for _ in range(300):
        d = int(rng.integers(1, 4))
        shape = tuple(int(x) for x in rng.integers(1, 5, size=d))
        ax = int(rng.integers(0, d + 2))
        L = int(rng.integers(0, d + 2))
        flip = tuple(bool(b) for b in rng.integers(0, 2, size=L))
        slice_cases.append((ax, int(rng.integers(-5, 5)), shape, flip, bool(rng.integers(0, 2))))
    for (ax, idx, shape, flip, ravel) in slice_cases:
        def f(ax=ax, idx=idx, shape=shape, flip=flip, ravel=ravel):
            r = assemble.slice_indices(ax, idx, shape, ravel=ravel, flip=flip)
            return fints(r) if ravel else plist(np.asarray(r).tolist(), lambda row: plist(row))
        add('slice %d %d %s %s %d' % (ax, idx, plist(shape), fflip(flip), ravel), f, ('slice', ax, idx, shape, flip, ravel))
        ctx.case(req[-1], nontrivial=len(shape) >= 2)
        ctx.count('slice:dim=%d' % len(shape))
    # boundary_dofs / boundary_cells on real knot vectors
    kv_pool = [bspline.make_knots(p, 0.0, 1.0, nn) for p in (1, 2, 3) for nn in (1, 2, 3)]
    nbd = 0
    for d in (1, 2, 3):
        combos = list(itertools.product(range(len(kv_pool)), repeat=d))
        pick = combos if d == 1 else [combos[i] for i in rng.permutation(len(combos))[:(12 if ctx.tier == 'quick' else 80)]]
        for combo in pick:
            kvs = tuple(kv_pool[i] for i in combo)
            specs = [(ax, sd) for ax in range(d) for sd in (0, 1)] + NAMES + ['foo', (0, 2), (d, 0), (-1, 1)]
            for bd in specs:
                for flip in all_flips(d):
                    for ravel in (True, False):
                        for cells in (False, True):
                            if cells and flip is not None:
                                continue
                            N = [kv.numspans if cells else kv.numdofs for kv in kvs]
                            def f(kvs=kvs, bd=bd, flip=flip, ravel=ravel, cells=cells):
                                r = (assemble.boundary_cells(kvs, bd, ravel=ravel) if cells
                                     else assemble.boundary_dofs(kvs, bd, ravel=ravel, flip=flip))
                                return fints(r) if ravel else plist(np.asarray(r).tolist(), lambda row: plist(row))
                            add('bdofs %s %s %s %d' % (plist(N), fspec(bd), fflip(flip), ravel), f,
                                ('bdofs', N, bd, flip, ravel, cells))
                            nbd += 1
    ctx.count('boundary_dofs/cells requests', nbd)

    # ------------------------------------------------------------ (C) combine_bcs / _drop_nans
    ncomb = 3000 if ctx.tier == 'quick' else 10000
    for _ in range(ncomb):
        k = int(rng.integers(1, 5))
        bcs = []
        for _j in range(k):
            L = int(rng.integers(0, 7))
            ind = rng.integers(0, 10, size=L).astype(int)
            val = rng.integers(-9, 10, size=L).astype(float)
            if rng.integers(0, 40) == 0:
                val = val[:-1] if L else np.array([1.0])
            bcs.append((ind, val))
        def f(bcs=bcs):
            i, v = assemble.combine_bcs(iter(bcs))
            return fbc(i, v)
        add('combine %d %s' % (k, ' '.join(fints(i) + ' ' + fvec(v) for i, v in bcs)), f, ('combine', bcs))
        ctx.case(req[-1], nontrivial=sum(len(i) for i, _ in bcs) > len(set(np.concatenate([i for i, _ in bcs]).tolist())))
        ctx.count('combine')
        L = int(rng.integers(0, 8))
        ind = rng.permutation(20)[:L].astype(int)
        val = rng.integers(-9, 10, size=L).astype(float)
        if rng.integers(0, 3):
            val[rng.integers(0, 2, size=L).astype(bool)] = np.nan
        def f(ind=ind, val=val):
            i, v = assemble._drop_nans(ind, val)
            return fbc(i, v)
        add('dropnans %s %s' % (fints(ind), fvec(val)), f, ('dropnans', ind.tolist(), val.tolist()))
        ctx.count('dropnans')

    # ------------------------------------------------------------ (D) Dirichlet conditions on patches
    float_checks = []      # model-free, float level: (what, ok, replay)
    def patch(d):
        kvs = tuple(bspline.make_knots(int(rng.integers(1, 4)), 0.0, 1.0, int(rng.integers(1, 4))) for _ in range(d))
        geo = geometry.line_segment(0.0, 1.0) if d == 1 else geometry.unit_cube(dim=d)
        return kvs, geo

    def data(d, kind):
        """returns (dir_func, numcomp or None, evaluator for the Greville oracle or None)"""
        if kind == 'const':
            c = float(rng.integers(-4, 5))
            return c, None, (lambda pt: c)
        if kind == 'linear':
            coef = rng.integers(-3, 4, size=d + 1)
            g = lin_func(coef)
            return g, None, (lambda pt: g(*pt))
        nc = int(rng.integers(2, 4))
        coefs = [rng.integers(-3, 4, size=d + 1) for _ in range(nc)]
        gs = [lin_func(c) for c in coefs]
        nanj = int(rng.integers(0, nc)) if kind == 'vecnan' else None
        def g(*X):
            out = []
            for j, gj in enumerate(gs):
                v = gj(*X) + 0 * X[0]
                out.append(np.full_like(np.asarray(v, dtype=float), np.nan) if j == nanj else v)
            return tuple(out)
        return g, nc, (lambda pt, j: (float('nan') if j == nanj else gs[j](*pt)))

    def own_coeffs(kvs, geo, bd, g):
        """the interpolation the code performs, repeated by the harness (input of the model)"""
        ax, side = bspline._parse_bdspec(bd, len(kvs))
        bdbasis = list(kvs); del bdbasis[ax]
        bdgeo = geo.boundary((ax, side))
        if np.isscalar(g):
            c = g
            g = lambda *x: c
        return approx.interpolate(bdbasis, g, geo=bdgeo)

    def cond_tokens(kvs, geo, bd, g, nc):
        co = own_coeffs(kvs, geo, bd, g)
        return '%s %s %s' % (fspec(bd), '-' if nc is None else str(nc), fvec(co))

    def greville_oracle(what, kvs, res, ev, nc, replay):
        """values are the data at the Greville points of the returned dofs (linear data, identity geometry)"""
        N = tuple(kv.numdofs for kv in kvs)
        NN = int(np.prod(N))
        idx, val = res
        ok = len(set(np.asarray(idx).tolist())) == len(idx) and list(np.asarray(idx)) == sorted(np.asarray(idx).tolist())
        for i, v in zip(np.asarray(idx).tolist(), np.asarray(val).tolist()):
            j, loc = divmod(int(i), NN)
            pt = greville_points(kvs, N, loc)
            want = ev(pt) if nc is None else ev(pt, j)
            if not (abs(v - want) <= 1e-12 * (1 + abs(want)) * 64):
                ok = False
        float_checks.append((what, ok, replay))

    ndbc = 200 if ctx.tier == 'quick' else 800
    for t in range(ndbc):
        d = int(rng.integers(2, 4)) if t % 8 else 1
        kvs, geo = patch(d)
        N = [kv.numdofs for kv in kvs]
        kind = ['const', 'linear', 'vec', 'vecnan'][int(rng.integers(0, 4))]
        g, nc, ev = data(d, kind)
        bd = (int(rng.integers(0, d)), int(rng.integers(0, 2)))
        if rng.integers(0, 3) == 0:
            bd = NAMES[int(rng.integers(0, 2 * d))]
        mkey = 'dbc1d' if d == 1 else 'dbc'
        rp = {'degrees': [kv.p for kv in kvs], 'spans': [kv.numspans for kv in kvs], 'bdspec': bd, 'data': kind, 'dim': d}
        try:
            toks = cond_tokens(kvs, geo, bd, g, nc)
        except Exception as ex:
            toks = None
            if d == 1:
                # geo.boundary / interpolate of a 0-dimensional face: the coefficient is the data at the end point
                ax, side = 0, (bd[1] if not isinstance(bd, str) else {'left': 0, 'right': 1}[bd])
                x = float(side)
                if nc is None:
                    co = [g if np.isscalar(g) else g(x)]
                else:
                    co = [float(np.asarray(c)) for c in g(np.asarray(x))]
                toks = '%s %s %s' % (fspec(bd), '-' if nc is None else str(nc), fvec(co))
        if toks is None:
            continue
        def f(kvs=kvs, geo=geo, bd=bd, g=g):
            return fbc(*assemble.compute_dirichlet_bc(kvs, geo, bd, g))
        add('dbc %s %s' % (plist(N), toks), f, (mkey, rp))
        ctx.case(req[-1]); ctx.count('dbc:' + kind); ctx.count('dbc:dim=%d' % d)
        if d >= 2:
            try:
                greville_oracle('compute_dirichlet_bc', kvs, assemble.compute_dirichlet_bc(kvs, geo, bd, g), ev, nc, rp)
            except Exception:
                float_checks.append(('compute_dirichlet_bc raised', False, rp))
        # several conditions at once / 'all'
        if d >= 2 and t % 2 == 0:
            faces = [(ax, sd) for ax in range(d) for sd in (0, 1)]
            if t % 4 == 0:
                def f(kvs=kvs, geo=geo, g=g):
                    return fbc(*assemble.compute_dirichlet_bcs(kvs, geo, ('all', g)))
                try:
                    body = ' '.join('%s %s' % ('-' if nc is None else str(nc), fvec(own_coeffs(kvs, geo, fc, g))) for fc in faces)
                except Exception:
                    continue
                rp2 = dict(rp, bdspec='all')
                add('dbcsall %s %d %s' % (plist(N), len(faces), body), f, ('dbcs', rp2))
                try:
                    greville_oracle('compute_dirichlet_bcs(all)', kvs, assemble.compute_dirichlet_bcs(kvs, geo, ('all', g)), ev, nc, rp2)
                except Exception:
                    float_checks.append(('compute_dirichlet_bcs raised', False, rp2))
            else:
                k = int(rng.integers(1, len(faces) + 1))
                chosen = [faces[i] for i in rng.permutation(len(faces))[:k]]
                conds = [(fc, g) for fc in chosen]
                if nc is None and rng.integers(0, 2) == 0:
                    # different data on every condition of one call (constants and functions mixed): two opposite faces, which
                    # share no dof, so `combine_bcs`' "arbitrary" choice on shared dofs does not enter
                    ax_ = int(rng.integers(0, d))
                    chosen = [(ax_, 0), (ax_, 1)] if rng.integers(0, 2) else [(ax_, 1), (ax_, 0)]
                    dat_ = [data(d, ['const', 'linear'][int(rng.integers(0, 2))]) for _f in chosen]
                    gs_ = [x_[0] for x_ in dat_]
                    evs_ = {fc[1]: x_[2] for fc, x_ in zip(chosen, dat_)}
                    if np.isscalar(gs_[0]) and np.isscalar(gs_[1]) and gs_[0] == gs_[1]:
                        gs_[1] = gs_[0] + 1.0
                        evs_[chosen[1][1]] = (lambda pt, c_=gs_[1]: c_)
                    conds = list(zip(chosen, gs_))
                    k = 2
                    def f(kvs=kvs, geo=geo, conds=conds):
                        return fbc(*assemble.compute_dirichlet_bcs(kvs, geo, conds))
                    try:
                        body = ' '.join(cond_tokens(kvs, geo, fc, g_, None) for fc, g_ in conds)
                    except Exception:
                        continue
                    rp2 = dict(rp, bdspec=chosen, data=['const %r' % g_ if np.isscalar(g_) else 'linear' for g_ in gs_])
                    add('dbcs %s %d %s' % (plist(N), k, body), f, ('dbcs', rp2))
                    ctx.case(req[-1]); ctx.count('dbcs'); ctx.count('dbcs: different data per condition')
                    # model-free: every returned dof lies on one of the two faces and carries THAT face's data at its Greville point
                    try:
                        idx_, val_ = assemble.compute_dirichlet_bcs(kvs, geo, conds)
                        ok_ = True
                        for i_, v_ in zip(np.asarray(idx_).tolist(), np.asarray(val_).tolist()):
                            mi_ = np.unravel_index(int(i_), tuple(N))[ax_]
                            if mi_ not in (0, N[ax_] - 1):
                                ok_ = False
                                continue
                            want_ = evs_[0 if mi_ == 0 else 1](greville_points(kvs, N, int(i_)))
                            if not (abs(v_ - want_) <= 1e-12 * (1 + abs(want_)) * 64):
                                ok_ = False
                        float_checks.append(('compute_dirichlet_bcs with different data per condition', ok_, rp2))
                    except Exception:
                        float_checks.append(('compute_dirichlet_bcs raised', False, rp2))
                    continue
                def f(kvs=kvs, geo=geo, conds=conds):
                    return fbc(*assemble.compute_dirichlet_bcs(kvs, geo, conds))
                try:
                    body = ' '.join(cond_tokens(kvs, geo, fc, g, nc) for fc in chosen)
                except Exception:
                    continue
                rp2 = dict(rp, bdspec=chosen)
                add('dbcs %s %d %s' % (plist(N), k, body), f, ('dbcs', rp2))
                try:
                    greville_oracle('compute_dirichlet_bcs', kvs, assemble.compute_dirichlet_bcs(kvs, geo, conds), ev, nc, rp2)
                except Exception:
                    float_checks.append(('compute_dirichlet_bcs raised', False, rp2))
            ctx.case(req[-1]); ctx.count('dbcs')

    # Multipatch index translation
    nmp = 60 if ctx.tier == 'quick' else 300
    for t in range(nmp):
        kvs, _ = patch(2)
        sq = geometry.unit_square()
        if t % 2 == 0:
            offs = [(0, 0), (1, 0)]
        else:
            offs = [(0, 0), (1, 0), (0, 1), (1, 1)]
        patches = [(kvs, sq.translate(o)) for o in offs]
        try:
            MP = assemble.Multipatch(patches, automatch=True)
            p2g = [MP.patch_to_global_idx(p) for p in range(len(patches))]
        except Exception as ex:
            ctx.count('multipatch-construction-' + errtok(ex))
            continue
        N = [kv.numdofs for kv in kvs]
        k = int(rng.integers(1, 7))
        conds, toks = [], []
        coef = rng.integers(-3, 4, size=3)
        for _ in range(k):
            p = int(rng.integers(0, len(patches)))
            bd = NAMES[int(rng.integers(0, 4))] if rng.integers(0, 2) else (int(rng.integers(0, 2)), int(rng.integers(0, 2)))
            kind = ['const', 'linear'][int(rng.integers(0, 2))]
            g = float(rng.integers(-4, 5)) if kind == 'const' else lin_func(coef)
            conds.append((p, bd, g))
            toks.append('%d %s' % (p, cond_tokens(kvs, patches[p][1], bd, g, None)))
        def f(MP=MP, conds=conds):
            return fbc(*MP.compute_dirichlet_bcs(conds))
        add('mpbcs %s %s %d %s' % (plist([N] * len(patches), plist), plist(p2g, fints), k, ' '.join(toks)), f,
            ('mpbcs', {'offsets': offs, 'degrees': [kv.p for kv in kvs], 'spans': [kv.numspans for kv in kvs],
                       'bdconds': [(p, bd, 'const %s' % g if np.isscalar(g) else 'linear %s' % coef.tolist()) for p, bd, g in conds]}))
        ctx.case(req[-1]); ctx.count('mpbcs:%d-patch' % len(patches))
        # model-free: every returned global dof is the image of a local face dof and carries the value of its first occurrence
        try:
            gi, gv = MP.compute_dirichlet_bcs(conds)
            first = {}
            for (p, bd, g) in conds:
                ax, side = bspline._parse_bdspec(bd, 2)
                T = np.arange(int(np.prod(N))).reshape(N)
                loc = np.take(T, 0 if side == 0 else -1, axis=ax).ravel()
                for l in loc.tolist():
                    pt = greville_points(kvs, N, l)
                    pt = [pt[0] + patches[p][1].coeffs.reshape(-1, 2)[0][0], pt[1] + patches[p][1].coeffs.reshape(-1, 2)[0][1]]
                    first.setdefault(int(p2g[p][l]), g if np.isscalar(g) else g(*pt))
            ok = np.asarray(gi).tolist() == sorted(first) and all(abs(v - first[i]) <= 1e-10 * (1 + abs(first[i]))
                                                                  for i, v in zip(np.asarray(gi).tolist(), np.asarray(gv).tolist()))
            float_checks.append(('Multipatch.compute_dirichlet_bcs', ok, meta[-1][1]))
        except Exception:
            float_checks.append(('Multipatch.compute_dirichlet_bcs raised', False, meta[-1][1]))

    # ------------------------------------------------------------ (E) initial conditions
    nic = 150 if ctx.tier == 'quick' else 500
    ic_cases = {}
    for t in range(nic):
        d = int(rng.integers(2, 4))
        kvs, geo = patch(d)
        N = [kv.numdofs for kv in kvs]
        bd = (int(rng.integers(0, d)), int(rng.integers(0, 2)))
        ax, side = bd
        if kvs[ax].numdofs < 2:
            continue
        physical = bool(rng.integers(0, 2))
        c0 = rng.integers(-3, 4, size=d + 1); c1 = rng.integers(-3, 4, size=d + 1)
        if physical:
            g0, g1 = lin_func(c0), lin_func(c1)
        else:
            # parametric coordinates of the face only (d-1 arguments)
            g0, g1 = lin_func(c0[:d]), lin_func(c1[:d])
        try:
            bdbasis = list(kvs); del bdbasis[ax]
            bdgeo = geo.boundary(bd) if physical else None
            co0 = approx.interpolate(bdbasis, g0, geo=bdgeo).ravel()
            co1 = approx.interpolate(bdbasis, g1, geo=bdgeo).ravel()
            ad = np.asarray(bspline.active_deriv(kvs[ax], 0.0 if side == 0 else 1.0, 1))
            M = ad[:2, :2] if side == 0 else ad[:2, -2:]
        except Exception as ex:
            ctx.count('ic01-setup-' + errtok(ex))
            continue
        def f(kvs=kvs, geo=geo, bd=bd, g0=g0, g1=g1, physical=physical):
            i, v = assemble.compute_initial_condition_01(kvs, geo, bd, g0, g1, physical=physical)
            return (np.asarray(i).tolist(), [float(x) for x in np.asarray(v).tolist()])
        rp = {'degrees': [kv.p for kv in kvs], 'spans': [kv.numspans for kv in kvs], 'bdspec': bd, 'physical': physical,
              'g0': c0.tolist(), 'g1': c1.tolist()}
        add('ic01 %s %s %s %s %s' % (plist(N), fspec(bd), ' '.join(fnum(x) for x in M.ravel().tolist()), fvec(co0), fvec(co1)), f, ('ic01', rp, M, co0, co1))
        ctx.case(req[-1]); ctx.count('ic01:side=%d' % side)

    # ------------------------------------------------------------ diff
    ctx.extra['t_implementation_s'] = round(time.time() - t0, 1); t0 = time.time()
    got = ctx.model('drv_c10', req)
    ctx.extra['t_model_s'] = round(time.time() - t0, 1); t0 = time.time()
    ndis = 0
    nshown = {}
    for r, e, g, m in zip(req, exp, got, meta):
        kind = m[0]
        if kind == 'ic01':
            agree, why = compare_ic01(e, g, m)
        else:
            agree, why = (e == g), ''
        if agree:
            continue
        ndis += 1
        nshown[kind] = nshown.get(kind, 0) + 1
        if nshown[kind] > 5:
            continue
        found, rep = None, {'request': r[:3000], 'implementation': str(e)[:3000], 'model': g[:3000], 'stream': 'bc (drv_c10)',
                            'theorems': THEOREMS}
        if kind == 'rls':
            found, fc = search_rls(m[1])
            rep['input'] = fc.describe()
        elif kind == 'slice':
            _, ax, idx, shape, flip, ravel = m
            if ax < len(shape) and (flip is None or len(flip) == len(shape) - 1):
                found = oracle_slice(ax, idx, shape, flip)
                if found is None:
                    for a2 in range(len(shape)):
                        for i2 in range(-shape[a2], shape[a2]):
                            found = found or oracle_slice(a2, i2, shape, flip)
            rep['input'] = {'call': 'slice_indices(ax, idx, shape, ravel, flip)', 'ax': ax, 'idx': idx, 'shape': shape, 'flip': flip, 'ravel': ravel}
        elif kind == 'bdofs':
            _, N, bd, flip, ravel, cells = m
            try:
                ax, side = bspline._parse_bdspec(bd, len(N))
                found = oracle_slice(ax, 0 if side == 0 else -1, tuple(N), flip)
                if found is None and isinstance(bd, str) and (ax, side) != (len(N) - 1 - NAMES.index(bd) // 2, NAMES.index(bd) % 2):
                    found = 'face name %r resolves to %s' % (bd, (ax, side))
            except Exception:
                found = None
            rep['input'] = {'call': 'boundary_cells' if cells else 'boundary_dofs', 'N': N, 'bdspec': bd, 'flip': flip, 'ravel': ravel}
        elif kind == 'combine':
            found = oracle_combine(m[1])
            rep['input'] = {'call': 'combine_bcs', 'bcs': [(i.tolist(), v.tolist()) for i, v in m[1]]}
        elif kind == 'dropnans':
            found = oracle_dropnans(m[1], m[2])
            rep['input'] = {'call': '_drop_nans', 'indices': m[1], 'values': m[2]}
        elif kind in ('dbc', 'dbc1d', 'dbcs', 'mpbcs'):
            rep['input'] = m[1]
            if isinstance(e, str) and e.startswith('err-'):
                found = 'the call raises %s on a valid input' % e[4:]
            else:
                bad = [fcx for fcx in float_checks if not fcx[1] and fcx[2] is m[1]]
                if bad:
                    found = bad[0][0] + ': returned (index, value) pairs do not carry the boundary data at the Greville points of the returned dofs'
        elif kind == 'ic01':
            rep['input'] = m[1]
            rep['why'] = why
            found = oracle_ic01(e, m)
        key = 'bc-corr:' + kind
        if kind == 'dbc1d':
            # the recorded defect is exactly: IndexError on a 1D patch where the model returns the face dof
            key = 'bc-corr:dirichlet-1d' if (e == 'err-IndexError' and not g.startswith(('err-', 'bad-'))) else 'bc-corr:dbc'
        ctx.violation(key, 'model and implementation disagree on `%s`%s' % (kind, (': ' + found) if found else ''),
                      dict(rep, oracle=found), found is not None)
    ctx.obligation('correspondence stream bc: %d requests, model == implementation' % len(req), ndis == 0, '%d disagreements' % ndis)
    ctx.extra['requests'] = len(req)

    shared_input_stream(ctx)
    object_history_stream(ctx)

    # ------------------------------------------------------------ direct oracle runs (model-free)
    nor = 800 if ctx.tier == 'quick' else 3000
    orng = np.random.default_rng(ctx.seed + 10)
    nchecked = 0
    for i in orng.permutation(len(rls_cases))[:nor]:
        case, tag = rls_cases[i]
        d = oracle_rls(case)
        nchecked += 1
        if d is not None:
            ctx.violation('bc-oracle:rls', d, {'input': case.describe(), 'oracle': d}, True)
    # well-posed solves: diagonally dominant A, b := A u_true
    for _ in range(nor // 2):
        n = int(orng.integers(2, 9))
        k = int(orng.integers(0, n))
        idx = [int(i) for i in orng.permutation(n)[:k]]
        A = rand_matrix(orng, n, n, dominant=True)
        ut = orng.integers(-6, 7, size=n)
        vals = [float(ut[i]) for i in idx]
        er = None
        if orng.integers(0, 3) == 0:
            er = [int(r) for r in orng.permutation(n)[:k]]
        c = RlsCase(n, n, A, (A @ ut).astype(float), idx, vals, er, [None, 'csr'][int(orng.integers(0, 2))],
                    ['list', 'tuple', 'ndarray'][int(orng.integers(0, 3))], 'ndarray')
        d = oracle_rls(c)
        nchecked += 1
        if d is None and er is None:
            try:
                S = c.build()
                uf = np.linalg.solve(S.A.toarray(), S.b) if n - k else np.zeros(0)
                u = S.complete(np.round(uf))
                if not np.array_equal(u, ut.astype(float)):
                    d = 'complete(solve(sys.A, sys.b)) = %s differs from the solution %s the system was built from' % (u.tolist(), ut.tolist())
            except Exception as ex:
                d = 'raises %s on a valid input' % type(ex).__name__
        if d is not None:
            ctx.violation('bc-oracle:rls', d, {'input': c.describe(), 'oracle': d}, True)
    for (ax, idx, shape, flip, ravel) in [slice_cases[i] for i in orng.permutation(len(slice_cases))[:nor]]:
        if ax < len(shape) and (flip is None or len(flip) == len(shape) - 1):
            d = oracle_slice(ax, idx, shape, flip)
            nchecked += 1
            if d is not None:
                ctx.violation('bc-oracle:slice', d, {'input': {'ax': ax, 'idx': idx, 'shape': shape, 'flip': flip}, 'oracle': d}, True)
    for m in [mm for mm in meta if mm[0] == 'combine'][:nor]:
        d = oracle_combine(m[1])
        nchecked += 1
        if d is not None:
            ctx.violation('bc-oracle:combine', d, {'input': [(i.tolist(), v.tolist()) for i, v in m[1]], 'oracle': d}, True)
    nfl = 0
    for what, ok, rp in float_checks:
        nfl += 1
        if not ok:
            ctx.violation('bc-oracle:values', what + ': returned dofs/values do not carry the boundary data (float-level check, 64*1e-12 relative)',
                          {'input': rp}, True)
    for e, m in zip(exp, meta):
        if m[0] == 'ic01' and not isinstance(e, str):
            d = oracle_ic01(e, m)
            nchecked += 1
            if d is not None:
                ctx.violation('bc-oracle:ic01', d, {'input': m[1], 'oracle': d}, True)
    ctx.extra['oracle_cross_checks'] = int(nchecked)
    ctx.extra['t_oracle_s'] = round(time.time() - t0, 1)
    ctx.extra['float_level_value_checks'] = int(nfl)
    ctx.notes.append('boundary *values* are tied exactly only as a permutation of the harness-side interpolation result; that they interpolate '
                     'the data is float-level evidence (Greville-point check on linear data, identity geometries)')


# ---------------------------------------------------------------- more oracles
def oracle_combine(bcs):
    from pyiga import assemble
    ind = np.concatenate([i for i, _ in bcs]) if bcs else np.zeros(0, dtype=int)
    val = np.concatenate([v for _, v in bcs]) if bcs else np.zeros(0)
    if ind.shape != val.shape:
        return None
    first = {}
    for i, v in zip(ind.tolist(), val.tolist()):
        first.setdefault(int(i), v)
    try:
        gi, gv = assemble.combine_bcs(bcs)
    except Exception as ex:
        return 'combine_bcs raises %s on consistent input' % type(ex).__name__
    gi = np.asarray(gi).tolist(); gv = np.asarray(gv).tolist()
    if gi != sorted(first):
        return 'combine_bcs indices %s are not the sorted distinct input indices %s' % (gi, sorted(first))
    if any(v != first[i] for i, v in zip(gi, gv)):
        return 'combine_bcs values %s are not values of the corresponding dofs (first occurrences %s)' % (gv, [first[i] for i in gi])
    return None


def oracle_dropnans(ind, val):
    from pyiga import assemble
    gi, gv = assemble._drop_nans(np.array(ind, dtype=int), np.array(val, dtype=float))
    want = [(i, v) for i, v in zip(ind, val) if v == v]
    if list(zip(np.asarray(gi).tolist(), np.asarray(gv).tolist())) != want:
        return '_drop_nans does not return exactly the non-NaN pairs'
    return None


def parse_bc_answer(g):
    """'k i1..ik ; k v1..vk' -> (ints, Fractions) or None"""
    try:
        a, b = g.split(' ; ')
        ia = [int(x) for x in a.split()[1:]]
        vb = [Fraction(x) for x in b.split()[1:]]
        return ia, vb
    except Exception:
        return None


def compare_ic01(e, g, m):
    """indices exactly; values against the model's exact solve of the same 2x2 system within a forward error bound"""
    if isinstance(e, str):
        return e == g, 'error kinds'
    parsed = parse_bc_answer(g)
    if parsed is None:
        return False, 'model answered ' + g[:80]
    idx, val = e
    mi, mv = parsed
    if idx != mi or len(val) != len(mv):
        return False, 'indices differ'
    M = [[Fraction(float(x)) for x in row] for row in np.asarray(m[2]).tolist()]
    det = M[0][0] * M[1][1] - M[0][1] * M[1][0]
    inv = [[M[1][1] / det, -M[0][1] / det], [-M[1][0] / det, M[0][0] / det]]
    ninf = lambda Q: max(abs(Q[0][0]) + abs(Q[0][1]), abs(Q[1][0]) + abs(Q[1][1]))
    kappa = ninf(M) * ninf(inv)
    K = len(mv) // 2
    for k in range(K):
        scale = max(abs(mv[k]), abs(mv[K + k]))
        # GEPP on a 2x2 system: forward error <= 3n*u*|| |L||U| || ||A^-1|| ||x|| <= 24 u kappa ||x||; 32 for the data rounding
        tol = 32 * Fraction(1, 2 ** 53) * kappa * scale
        for j in (k, K + k):
            if abs(Fraction(val[j]) - mv[j]) > tol:
                return False, 'value %d: implementation %r, exact %s, bound %s' % (j, val[j], float(mv[j]), float(tol))
    return True, ''


def oracle_ic01(e, m):
    """model-free: the returned coefficients reproduce value and derivative interpolants on the face,
    and the indices are the two boundary slices"""
    if isinstance(e, str):
        return 'compute_initial_condition_01 raises %s on a valid input' % e[4:]
    idx, val = e
    rp, M, co0, co1 = m[1], np.asarray(m[2], dtype=float), np.asarray(m[3]), np.asarray(m[4])
    K = len(co0)
    if len(val) != 2 * K or len(idx) != 2 * K:
        return 'wrong number of dofs returned'
    x = np.array(val).reshape(2, K)
    res0 = M[0, 0] * x[0] + M[0, 1] * x[1] - co0
    res1 = M[1, 0] * x[0] + M[1, 1] * x[1] - co1
    sc = np.abs(M).max() * (1 + np.abs(x).max())
    if np.abs(res0).max() > 1e-10 * sc or np.abs(res1).max() > 1e-10 * sc:
        return 'returned coefficients do not reproduce the prescribed value / derivative on the initial face (residual %g, %g)' % (
            np.abs(res0).max(), np.abs(res1).max())
    from pyiga import bspline
    N = [p + s for p, s in zip(rp['degrees'], rp['spans'])]
    ax, side = rp['bdspec']
    T = np.arange(int(np.prod(N))).reshape(N)
    first = 0 if side == 0 else N[ax] - 2
    want = np.concatenate([np.take(T, first, axis=ax).ravel(), np.take(T, first + 1, axis=ax).ravel()]).tolist()
    if idx != want:
        return 'indices %s are not the two slices next to the face %s' % (idx[:10], want[:10])
    return None
