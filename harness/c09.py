"""
C09 — tensor-product fast paths and closed-form Galerkin identities (DESIGN.md §6/C09).

ties:  T-alg  translator/c09_detinv.py regenerates lean/Pyiga/Gen/DetInv{Defs,}.lean from
              assemble_tools_cy.pyx on every run; the regenerated theorems are re-proved
       K gal  Pyiga.Model.Galerkin (driver drv_c09, exact Rat) vs pyiga.assemble / quadrature /
              bspline.load_vector / assemble_tools.{det_and_inv,inverses,determinants}
theorems: Pyiga.Props.C09.*  (+ the regenerated Pyiga.Gen.DetInv.*)
search (model-free): Fraction integration of the Cox-de Boor polynomial pieces; adjugate/det in Fractions
"""
import math
import os
import sys
from fractions import Fraction as F

import numpy as np

from .common import plist, frac, VERIF, REPO, LEAN

sys.path.insert(0, os.path.join(VERIF, 'translator'))

THEOREMS = [
    'Pyiga.Props.C09.coo_index_lists', 'Pyiga.Props.C09.coo_from_kv_index_lists',
    'Pyiga.Props.C09.biform_1d', 'Pyiga.Props.C09.biform_1d_asym', 'Pyiga.Props.C09.biform_1d_asym_needs_cell_hyp',
    'Pyiga.Props.C09.kron_path_mass_2d', 'Pyiga.Props.C09.kron_path_stiffness_2d',
    'Pyiga.Props.C09.kron_path_mass_3d', 'Pyiga.Props.C09.kron_path_stiffness_3d',
    'Pyiga.Props.C09.gauss_weights_sum', 'Pyiga.Props.C09.gauss_nodes_inside',
    'Pyiga.Props.C09.total_mass', 'Pyiga.Props.C09.mass_total_1d', 'Pyiga.Props.C09.stiffness_row_sum_1d', 'Pyiga.Props.C09.symmetric_1d', 'Pyiga.Props.C09.psd_1d', 'Pyiga.Props.C09.stiffness_row_sum_zero', 'Pyiga.Props.C09.stiffness_col_sum_zero',
    'Pyiga.Props.C09.gram_symmetric', 'Pyiga.Props.C09.gram_quadratic_form', 'Pyiga.Props.C09.gram_psd',
    'Pyiga.Props.C09.kron_symmetric', 'Pyiga.Props.C09.kron_total',
    'Pyiga.Props.C09.load_vector_spec', 'Pyiga.Props.C09.integrate_spec', 'Pyiga.Props.C09.integrate_spec_2d',
    'Pyiga.Props.C09.det2_eq_matrix_det', 'Pyiga.Props.C09.det3_eq_matrix_det',
    'Pyiga.Props.C09.mass_total_2d', 'Pyiga.Props.C09.mass_total_3d', 'Pyiga.Props.C09.stiffness_row_sum_2d',
    'Pyiga.Props.C09.stiffness_row_sum_zero_2d', 'Pyiga.Props.C09.stiffness_symmetric_2d',
    # n-D inner_products / integrate (incl. |det J|), tensor / boundary quadrature
    'Pyiga.Props.C09.tensor_weights_outer', 'Pyiga.Props.C09.tensor_weights_sum', 'Pyiga.Props.C09.apply_tprod_T_spec',
    'Pyiga.Props.C09.inner_products_spec', 'Pyiga.Props.C09.absVal_eq_abs', 'Pyiga.Props.C09.inner_products_geo_spec',
    'Pyiga.Props.C09.integrate_geo_spec', 'Pyiga.Props.C09.integrate_geo_nonneg',
    'Pyiga.Props.C09.tensor_quadrature_axes', 'Pyiga.Props.C09.tensor_quadrature_measure',
    'Pyiga.Props.C09.boundary_quadrature_axes', 'Pyiga.Props.C09.boundary_quadrature_measure',
    # generic path with identity geometry = Kronecker path (Props/C09Generic.lean; imports Props.C01 of b-assembler)
    'Pyiga.Props.C09.generic_identity_mass_2d', 'Pyiga.Props.C09.generic_identity_stiffness_2d', 'Pyiga.Props.C09.generic_identity_mass_3d',
    'Pyiga.Props.C09.generic_identity_stiffness_3d', 'Pyiga.Props.C09.generic_entry_mass_3d',
    'Pyiga.Props.C09.generic_entry_mass_2d', 'Pyiga.Props.C09.generic_entry_stiffness_2d',
]
MODULES = ['Pyiga.Model.Galerkin', 'Pyiga.Proofs.Galerkin', 'Pyiga.Proofs.GalerkinAsm', 'Pyiga.Proofs.GalerkinKron', 'Pyiga.Proofs.GalerkinKron3', 'Pyiga.Proofs.GalerkinTprod', 'Pyiga.Proofs.GalerkinGeneric', 'Pyiga.Props.C09', 'Pyiga.Props.C09Generic']
U = F(1, 2 ** 53)


class quiet:
    """silence compiler noise of on-demand compiled assemblers (fd level)"""

    def __enter__(self):
        sys.stdout.flush(); sys.stderr.flush()
        self.saved = (os.dup(1), os.dup(2))
        self.null = os.open(os.devnull, os.O_WRONLY)
        os.dup2(self.null, 1); os.dup2(self.null, 2)

    def __exit__(self, *a):
        sys.stdout.flush(); sys.stderr.flush()
        os.dup2(self.saved[0], 1); os.dup2(self.saved[1], 2)
        os.close(self.saved[0]); os.close(self.saved[1]); os.close(self.null)
        return False


# --------------------------------------------------------------------------- wire format
def fl(xs):
    return plist(xs, frac)


def fmat(M):
    M = np.asarray(M, dtype=float)
    return plist(M, lambda r: plist(r, frac))


def fopt(x):
    return '0' if x is None else '1 ' + fl(x)


class Toks:
    def __init__(self, s):
        self.t = s.split(' ')
        self.i = 0

    def nat(self):
        v = int(self.t[self.i]); self.i += 1
        return v

    def rat(self):
        v = F(self.t[self.i]); self.i += 1
        return v

    def rats(self):
        n = self.nat()
        out = [F(x) for x in self.t[self.i:self.i + n]]
        self.i += n
        return out

    def nats(self):
        n = self.nat()
        out = [int(x) for x in self.t[self.i:self.i + n]]
        self.i += n
        return out

    def ll(self):
        return [self.rats() for _ in range(self.nat())]

    def mat(self):
        r = self.nat(); c = self.nat()
        v = self.rats()
        return r, c, v

    def done(self):
        return self.i == len(self.t)


# --------------------------------------------------------------------------- generators
def rand_kv(rng, p=None, nspans=None, a=None, maxp=6, mesh=None):
    from pyiga import bspline
    if p is None:
        p = int(rng.integers(0, maxp + 1))
    if mesh is None:
        if nspans is None:
            nspans = int(rng.integers(1, 6))
        if a is None:
            a = float(rng.integers(-2, 3)) / 2
        steps = rng.integers(1, 9, size=nspans).astype(float) / 8      # non-uniform dyadic breakpoints
        mesh = np.concatenate(([a], a + np.cumsum(steps)))
    inner = mesh[1:-1]
    mult = [int(rng.integers(1, p + 1)) if p >= 1 else 1 for _ in inner]
    if rng.integers(0, 4) == 0:
        mult = [1 for _ in inner]
    kv = np.concatenate(([mesh[0]] * (p + 1), np.repeat(inner, mult), [mesh[-1]] * (p + 1))).astype(float)
    return bspline.KnotVector(kv, p)


def rand_poly(rng, deg):
    return [int(c) for c in rng.integers(-3, 4, size=deg + 1)]


def polyfun(c):
    return lambda x: sum(ck * x ** k for k, ck in enumerate(c)) + 0 * x


# --------------------------------------------------------------------------- Fractions oracle
def padd(a, b):
    n = max(len(a), len(b))
    return [(a[i] if i < len(a) else 0) + (b[i] if i < len(b) else 0) for i in range(n)]


def pmul(a, b):
    if not a or not b:
        return []
    out = [F(0)] * (len(a) + len(b) - 1)
    for i, x in enumerate(a):
        if x:
            for j, y in enumerate(b):
                out[i + j] += x * y
    return out


def pscale(a, s):
    return [x * s for x in a]


def pder(a, k=1):
    for _ in range(k):
        a = [i * a[i] for i in range(1, len(a))]
    return a


def pint(a, lo, hi):
    s = F(0)
    for i, c in enumerate(a):
        if c:
            s += c * (hi ** (i + 1) - lo ** (i + 1)) / (i + 1)
    return s


def peval(a, x):
    s = F(0)
    for c in reversed(a):
        s = s * x + c
    return s


def basis_pieces(kv, p, k):
    """Cox-de Boor in polynomial arithmetic: {i: poly of N_{i,p} on span [kv[k], kv[k+1]]} for i=k-p..k"""
    t = [F(float(x)) for x in kv]
    cur = {k: [F(1)]}
    for q in range(1, p + 1):
        nxt = {}
        for i in range(k - q, k + 1):
            acc = []
            if i in cur and t[i + q] != t[i]:
                d = t[i + q] - t[i]
                acc = padd(acc, pmul([-t[i] / d, 1 / d], cur[i]))
            if i + 1 in cur and t[i + q + 1] != t[i + 1]:
                d = t[i + q + 1] - t[i + 1]
                acc = padd(acc, pmul([t[i + q + 1] / d, -1 / d], cur[i + 1]))
            nxt[i] = acc
        cur = nxt
    return cur


def span_of(kvF, p, lo, hi):
    """knot index k with kv[k] <= lo < hi <= kv[k+1], kv[k] < kv[k+1]; None if the cell is not inside one span"""
    for k in range(p, len(kvF) - p - 1):
        if kvF[k] < kvF[k + 1] and kvF[k] <= lo and hi <= kvF[k + 1]:
            return k
    return None


def exact_biform(kv_trial, kv_test, du, dv, wpoly=None):
    """E[I,J] = int w * N_I^(dv) (test) * N_J^(du) (trial) exactly, over the union mesh.  (lists of Fractions)"""
    t1 = [F(float(x)) for x in kv_trial.kv]; t2 = [F(float(x)) for x in kv_test.kv]
    mesh = sorted(set(t1) | set(t2))
    n1, n2 = kv_trial.numdofs, kv_test.numdofs
    E = [[F(0)] * n1 for _ in range(n2)]
    w = [F(c) for c in wpoly] if wpoly is not None else [F(1)]
    for lo, hi in zip(mesh[:-1], mesh[1:]):
        k1 = span_of(t1, kv_trial.p, lo, hi); k2 = span_of(t2, kv_test.p, lo, hi)
        if k1 is None or k2 is None:
            continue
        B1 = basis_pieces(kv_trial.kv, kv_trial.p, k1); B2 = basis_pieces(kv_test.kv, kv_test.p, k2)
        for I, pv in B2.items():
            dvp = pmul(pder(pv, dv), w)
            for J, pu in B1.items():
                E[I][J] += pint(pmul(dvp, pder(pu, du)), lo, hi)
    return E


def exact_load(kv, fpoly):
    t = [F(float(x)) for x in kv.kv]
    out = [F(0)] * kv.numdofs
    f = [F(c) for c in fpoly]
    for k in range(kv.p, len(t) - kv.p - 1):
        if t[k] < t[k + 1]:
            for I, pv in basis_pieces(kv.kv, kv.p, k).items():
                out[I] += pint(pmul(pv, f), t[k], t[k + 1])
    return out


def fkron(A, B):
    return [[a * b for a in ra for b in rb] for ra in A for rb in B]


def fadd(A, B):
    return [[a + b for a, b in zip(ra, rb)] for ra, rb in zip(A, B)]


def exact_rank(A):
    A = [list(r) for r in A]
    rk = 0
    rows, cols = len(A), len(A[0]) if A else 0
    for c in range(cols):
        piv = next((r for r in range(rk, rows) if A[r][c] != 0), None)
        if piv is None:
            continue
        A[rk], A[piv] = A[piv], A[rk]
        for r in range(rk + 1, rows):
            if A[r][c] != 0:
                f_ = A[r][c] / A[rk][c]
                A[r] = [x - f_ * y for x, y in zip(A[r], A[rk])]
        rk += 1
    return rk


def exact_posdef(A):
    """all leading pivots of symmetric elimination positive (A symmetric, Fractions)"""
    A = [list(r) for r in A]
    n = len(A)
    for k in range(n):
        if A[k][k] <= 0:
            return False
        for r in range(k + 1, n):
            f_ = A[r][k] / A[k][k]
            if f_:
                A[r] = [x - f_ * y for x, y in zip(A[r], A[k])]
    return True


def area_quad(geo):
    """area of the image of a bilinear degree-1 map (shoelace formula on the control points), exact"""
    c = geo.coeffs
    P = [c[0, 0], c[0, 1], c[1, 1], c[1, 0]]
    s = F(0)
    for a, b in zip(P, P[1:] + P[:1]):
        s += F(float(a[0])) * F(float(b[1])) - F(float(b[0])) * F(float(a[1]))
    return abs(s) / 2


def adj_inv(X):
    """(det, inverse) in Fractions by cofactors (model-free oracle for det_and_inv/inverses)"""
    n = len(X)
    if n == 2:
        (a, b), (c, d) = X
        det = a * d - b * c
        adj = [[d, -b], [-c, a]]
    else:
        def m(i, j):
            r = [x for x in range(3) if x != i]; c = [x for x in range(3) if x != j]
            return X[r[0]][c[0]] * X[r[1]][c[1]] - X[r[0]][c[1]] * X[r[1]][c[0]]
        det = sum((-1) ** j * X[0][j] * m(0, j) for j in range(3))
        adj = [[(-1) ** (i + j) * m(j, i) for j in range(3)] for i in range(3)]
    return det, adj


# --------------------------------------------------------------------------- run
def run(ctx):
    ctx.build_repo()
    os.environ['XDG_CACHE_HOME'] = ctx.xdg_cache()
    import c09_detinv
    from pyiga import bspline, assemble, assemble_tools, geometry, quadrature, utils, vform

    rng = ctx.rng
    quick = ctx.tier == 'quick'

    # ---- T-alg: regenerate and re-prove ------------------------------------------------------
    try:
        gen_names, changed = c09_detinv.main(REPO, LEAN)
        ctx.obligation('translator c09_detinv: every assignment line of the 6 closed-form routines understood', True)
    except c09_detinv.TranslateError as ex:
        gen_names = []
        ctx.obligation('translator c09_detinv: every assignment line of the 6 closed-form routines understood', False, str(ex))
    ok_defs, log = ctx.lake_build(['Pyiga.Gen.DetInvDefs'])
    if not ok_defs:
        from .common import InfraError
        raise InfraError('regenerated Pyiga.Gen.DetInvDefs does not build:\n' + log[-2000:])
    ok_gen, log = ctx.lake_build(['Pyiga.Gen.DetInv'])
    ctx.obligation('regenerated obligations Pyiga.Gen.DetInv (det = Leibniz expansion, Y*X = 1 = X*Y, copies agree) re-proved',
                   ok_gen, ' | '.join([l for l in log.split('\n') if l.startswith('error')][:4])[:550] if not ok_gen else '%d theorems' % len(gen_names))
    ctx.require_lean(['Pyiga.Props.C09', 'Pyiga.Props.C09Generic', 'drv_c09'])
    if ok_gen:
        ctx.audit(['Pyiga.Props.C09Generic', 'Pyiga.Gen.DetInv'], THEOREMS + gen_names, MODULES + ['Pyiga.Gen.DetInvDefs', 'Pyiga.Gen.DetInv'])
    else:
        ctx.audit(['Pyiga.Props.C09Generic'], THEOREMS, MODULES)
    if ctx.tier == 'thorough':
        ctx.leanchecker(MODULES + (['Pyiga.Gen.DetInv'] if ok_gen else []))

    ctx.trusted += ['translator/c09_detinv.py (Python ast of the assignment lines; each extracted term is also executed by drv_c09 against the real Cython routine)',
                    'INPUTS of the model: numpy leggauss nodes/weights (contract spot-checked exactly: |P_n(x)/P_n\'(x)| and the weight formula in Fractions), '
                    'active_deriv/collocation values at the nodes (verified in C02), function values at the nodes',
                    'scipy.sparse coo->csr duplicate summation and scipy.sparse.kron modelled by their documented behaviour',
                    'IEEE double rounding is not modelled: real values are compared with the exact Rat model value within (n_terms+8)*2^-52*(model evaluated on absolute values)']
    ctx.rule = ('knot vectors: degree 0-6, 1-5 spans, non-uniform dyadic breakpoints, interior multiplicities 1..p; 1-D forms (du,dv)<=p with optional '
                'polynomial weight and explicit nqp; asymmetric pairs of different degree/multiplicity on a common mesh with the common mesh or a '
                'refinement as quadgrid; 2-D/3-D Kronecker and generic (identity geometry, strings, predefined vforms) paths with mixed degrees; '
                'load vectors / inner products / integrals with polynomial data in 1-3 dims with and without (bilinear, orientation-reversing) geometry; '
                'tensor spaces with NEARLY EQUAL directions (knot vectors within the 1e-8 allclose window of KnotVector.__eq__: tiny domains, 1e-9 shifts); '
                'integer matrices through det_and_inv/inverses/determinants; call HISTORIES: per knot-vector pair on a common mesh 3-5 calls in one process mixing weighted/unweighted 1-D forms, '
                'asym forms, 2-D mass/stiffness, inner_products/integrate, load_vector, each compared with the stateless model of that call, with a bitwise monitor of the '
                'arrays returned by make_iterated_quadrature/gauss_rule; fast-assembler histories: 3-6 mass_fast/stiffness_fast calls on spaces of different sizes '
                '(2-D and small 3-D), each sequence in one fresh process, plus requested-tolerance sweeps 1e-4..1e-13 (3-D twisted box, 2-D), every result vs the Gauss assembler within the ABSOLUTE bound 32*tol + 64*eps*max|A|, also on uniformly scaled and anisotropically stretched geometries.  non-trivial = more than one span or degree >= 1; distinct by request line')
    req, exp, meta = [], [], []

    def add(r, thunk, m):
        """thunk: calls the implementation; exceptions become error-kind tokens"""
        try:
            e = thunk()
        except AssertionError:
            e = 'err-assertion'; ctx.count('err-assertion')
        except Exception as ex:
            e = 'err-' + type(ex).__name__; ctx.count(e)
        if hist_seq is not None:
            hist_seq.append({'call': m.get('what', m.get('kind')), 'args': m.get('case')})
            m['hist'] = list(hist_seq)
            if hist_monitor is not None:
                hist_monitor()
        req.append(r); exp.append(e); meta.append(m)
        ctx.case(r, nontrivial=m.get('nontrivial', True))

    def leg(n):
        x, w = np.polynomial.legendre.leggauss(n)
        return x, w

    def hquad(mesh, n):
        """harness-local copy of gauss_rule/make_iterated_quadrature (same float formula): the inputs of the model requests
        must not come from arrays the implementation may have cached or mutated"""
        mesh = np.asarray(mesh, dtype=float)
        a, b = mesh[:-1], mesh[1:]
        x, w = leg(n)
        m_ = 0.5 * (a + b); h_ = 0.5 * (b - a)
        return (np.outer(h_, x) + m_[:, np.newaxis]).ravel(), np.outer(h_, w).ravel()

    def htquad(meshes, n):
        g = [hquad(mesh, n) for mesh in meshes]
        return tuple(q[0] for q in g), tuple(q[1] for q in g)

    hist_seq = None          # list of the calls made so far in the current history (None outside the history stream)
    hist_monitor = None

    # ---- leggauss contract (exact spot check; inputs of the model) -----------------------------
    worstx = worstw = F(0)
    for n in range(1, 9):
        x, w = leg(n)
        P = [[F(1)], [F(0), F(1)]]
        for k in range(1, n):
            P.append(pscale(padd(pscale(pmul([F(0), F(1)], P[k]), 2 * k + 1), pscale(P[k - 1], -k)), F(1, k + 1)))
        Pn = P[n]; dPn = pder(Pn)
        for xi, wi in zip(x, w):
            xs = F(float(xi))
            for _ in range(2):                                        # exact Newton steps: root of P_n to ~1e-60
                xs = xs - peval(Pn, xs) / peval(dPn, xs)
                xs = F(round(xs * 2 ** 200), 2 ** 200)
            wex = 2 / ((1 - xs * xs) * peval(dPn, xs) ** 2)
            worstx = max(worstx, abs(F(float(xi)) - xs))
            worstw = max(worstw, abs(F(float(wi)) - wex) / wex)
    ctx.obligation('numpy leggauss contract for n<=8 (input of the model, about numpy not pyiga): nodes within 2u (absolute, on [-1,1]) of the roots of P_n, '
                   'weights within 128u (relative) of 2/((1-x^2)P_n\'(x)^2), u=2^-53',
                   worstx <= 2 * U and worstw <= 128 * U, 'worst node error %.2f u, worst weight error %.2f u' % (float(worstx / U), float(worstw / U)))
    ctx.extra['leggauss_worst_node_err_u'] = round(float(worstx / U), 3)
    ctx.extra['leggauss_worst_weight_err_u'] = round(float(worstw / U), 3)
    ctx.assumptions += ['Gauss-Legendre exactness (degree 2n-1) is NOT proved in Lean; it enters only the exact-integral oracle, not the Lean theorems']

    # ---- stream: quadrature rules -------------------------------------------------------------
    ngauss = 60 if quick else 600
    for _ in range(ngauss):
        n = int(rng.integers(1, 9))
        x, w = leg(n)
        m = int(rng.integers(1, 6))
        pts = np.sort(rng.integers(-40, 41, size=m + 1).astype(float) / 8)
        if rng.integers(0, 3) == 0:
            pts = np.sort(rng.normal(size=m + 1))
        a, b = pts[:-1], pts[1:]
        add('gauss %s %s %s %s' % (fl(x), fl(w), fl(a), fl(b)),
            lambda: ('gauss', quadrature.gauss_rule(n, a, b)), {'kind': 'gauss', 'x': x, 'w': w, 'a': a, 'b': b})
        ctx.count('gauss_rule')
    for _ in range(10 if quick else 100):
        dim = int(rng.integers(1, 4))
        n = int(rng.integers(1, 6))
        x, w = leg(n)
        meshes = [rand_kv(rng).mesh for _ in range(dim)]
        add('tquad %s %s %s' % (fl(x), fl(w), plist(meshes, fl)),
            lambda: ('quad', quadrature.make_tensor_quadrature(meshes, n)), {'kind': 'quad', 'x': x, 'meshes': meshes})
        ax = int(rng.integers(0, dim)); side = int(rng.integers(0, 2))
        add('bquad %s %s %s %d %d' % (fl(x), fl(w), plist(meshes, fl), ax, side),
            lambda: ('quad', quadrature.make_boundary_quadrature(meshes, n, (ax, side))), {'kind': 'quad', 'x': x, 'meshes': meshes})
        ctx.count('tensor/boundary quadrature', 2)

    # ---- stream: knot bookkeeping + COO index construction (exact) ---------------------------
    nk = 80 if quick else 800
    for _ in range(nk):
        kv = rand_kv(rng)
        add('knots %s' % fl(kv.kv), lambda: '%s %s' % (fl(kv.mesh), plist(kv.mesh_span_indices().tolist())), {'kind': 'exact'})
        us = np.concatenate((kv.mesh, rng.uniform(kv.kv[0], kv.kv[-1], size=6), (kv.mesh[1:] + kv.mesh[:-1]) / 2))
        add('fspan %d %s %s' % (kv.p, fl(kv.kv), fl(us)), lambda: plist(int(kv.findspan(float(u))) for u in us), {'kind': 'exact'})
        add('coo %d %d %s' % (kv.p, kv.numspans, plist(kv.mesh_span_indices().tolist())),
            lambda: '%s %s' % tuple(plist(a.tolist()) for a in assemble._create_coo_1d_from_kv(kv)), {'kind': 'exact'})
        ns = int(rng.integers(1, 6)); n1 = int(rng.integers(1, 6)); n2 = int(rng.integers(1, 6))
        f1 = np.sort(rng.integers(0, 8, size=ns)); f2 = np.sort(rng.integers(0, 8, size=ns))
        add('cooc %d %d %d %s %s' % (ns, n1, n2, plist(f1.tolist()), plist(f2.tolist())),
            lambda: '%s %s' % tuple(plist(a.tolist()) for a in assemble._create_coo_1d_custom(ns, n1, n2, f1, f2)), {'kind': 'exact'})
        ctx.count('knots/findspan/coo requests', 4)

    # ---- stream: 1-D bilinear forms ------------------------------------------------------------
    def biform_case(kv, du, dv, nqp_arg, wpoly):
        p = kv.p
        nqp = nqp_arg if nqp_arg is not None else int(math.ceil((2 * p - du - dv + 1) / 2.0))
        x, w = leg(nqp)
        q = hquad(kv.mesh, nqp)
        derivs = np.asarray(bspline.active_deriv(kv, q[0], max(du, dv)))
        wf = None if wpoly is None else utils.grid_eval(polyfun(wpoly), (q[0],))
        Dv, Du = derivs[dv], derivs[du]
        line = 'biform %d %d %s %s %s %s %s %s' % (p, nqp, fl(kv.kv), fl(x), fl(w), fmat(Dv), fmat(Du), fopt(wf))
        lineabs = 'biform %d %d %s %s %s %s %s %s' % (p, nqp, fl(kv.kv), fl(x), fl(w), fmat(np.abs(Dv)), fmat(np.abs(Du)),
                                                      fopt(None if wf is None else np.abs(wf)))
        m = {'kind': 'asm', 'abs': lineabs, 'nterms': nqp * (p + 1) + 6, 'what': 'bsp_mixed_deriv_biform_1d',
             'case': {'kv': kv.kv.tolist(), 'p': p, 'du': du, 'dv': dv, 'nqp': nqp_arg, 'weight_poly': wpoly},
             'nontrivial': kv.numspans > 1 or p >= 1, 'q': q}

        def call():
            if wpoly is None and nqp_arg is None and (du, dv) == (0, 0):
                A = assemble.bsp_mass_1d(kv)
            elif wpoly is None and nqp_arg is None and (du, dv) == (1, 1):
                A = assemble.bsp_stiffness_1d(kv)
            else:
                A = assemble.bsp_mixed_deriv_biform_1d(kv, du, dv, nqp=nqp_arg, weightfunc=None if wpoly is None else polyfun(wpoly))
            return ('asm', A.toarray(), A.shape)
        add(line, call, m)
        ctx.count('biform_1d p=%d' % p); ctx.count('biform_1d (du,dv)=(%d,%d)' % (du, dv) if max(du, dv) <= 2 else 'biform_1d deriv>=3')

    nb = 220 if quick else 3000
    for it in range(nb):
        kv = rand_kv(rng)
        p = kv.p
        mode = it % 4
        if mode == 0:
            du = dv = 0
        elif mode == 1 and p >= 1:
            du = dv = 1
        else:
            du = int(rng.integers(0, p + 1)); dv = int(rng.integers(0, p + 1))
        nqp_arg = None if rng.integers(0, 3) else int(rng.integers(1, p + 3))
        wpoly = None if rng.integers(0, 3) else rand_poly(rng, int(rng.integers(0, 3)))
        biform_case(kv, du, dv, nqp_arg, wpoly)

    # ---- stream: asymmetric forms on a common mesh ----------------------------------------------
    def asym_case(kv1, kv2, du, dv, quadgrid, nqp_arg, tag):
        nqp = nqp_arg if nqp_arg is not None else int(math.ceil((kv1.p + kv2.p - du - dv + 1) / 2.0))
        qg = kv1.mesh if quadgrid is None else quadgrid
        x, w = leg(nqp)
        q = hquad(qg, nqp)
        d1 = np.asarray(bspline.active_deriv(kv1, q[0], du))[du]
        d2 = np.asarray(bspline.active_deriv(kv2, q[0], dv))[dv]
        hdr = 'asym %d %d %d %s %s %s %s %s ' % (kv1.p, kv2.p, nqp, fl(kv1.kv), fl(kv2.kv), fl(qg), fl(x), fl(w))
        m = {'kind': 'asm', 'abs': hdr + fmat(np.abs(d1)) + ' ' + fmat(np.abs(d2)), 'nterms': nqp * (max(kv1.p, kv2.p) + 1) + 6,
             'what': 'bsp_mixed_deriv_biform_1d_asym[' + tag + ']',
             'case': {'kv1': kv1.kv.tolist(), 'p1': kv1.p, 'kv2': kv2.kv.tolist(), 'p2': kv2.p, 'du': du, 'dv': dv,
                      'quadgrid': None if quadgrid is None else list(map(float, quadgrid)), 'nqp': nqp_arg}, 'q': q}

        def call():
            if nqp_arg is None and (du, dv) == (0, 0):
                A = assemble.bsp_mass_1d_asym(kv1, kv2, quadgrid=quadgrid)
            elif nqp_arg is None and (du, dv) == (1, 1):
                A = assemble.bsp_stiffness_1d_asym(kv1, kv2, quadgrid=quadgrid)
            else:
                A = assemble.bsp_mixed_deriv_biform_1d_asym(kv1, kv2, du, dv, quadgrid=quadgrid, nqp=nqp_arg)
            return ('asm', A.toarray(), A.shape)
        add(hdr + fmat(d1) + ' ' + fmat(d2), call, m)
        ctx.count('biform_1d_asym ' + tag)

    na = 120 if quick else 1500
    for it in range(na):
        kv1 = rand_kv(rng)
        kv2 = rand_kv(rng, mesh=kv1.mesh)
        du = int(rng.integers(0, kv1.p + 1)); dv = int(rng.integers(0, kv2.p + 1))
        if it % 3 == 0:
            du, dv = min(1, kv1.p), min(1, kv2.p)
        if it % 3 == 1:
            du = dv = 0
        mode = int(rng.integers(0, 3))
        nqp_arg = None if rng.integers(0, 3) else int(rng.integers(1, 5))
        if mode == 0:
            asym_case(kv1, kv2, du, dv, None, nqp_arg, 'common mesh, default quadgrid')
        elif mode == 1:
            asym_case(kv1, kv2, du, dv, kv2.mesh.copy(), nqp_arg, 'common mesh, explicit quadgrid')
        else:
            mesh = kv1.mesh
            extra = (mesh[1:] + mesh[:-1]) / 2
            extra = extra[rng.integers(0, 2, size=len(extra)).astype(bool)]
            asym_case(kv1, kv2, du, dv, np.sort(np.concatenate((mesh, extra))), nqp_arg, 'refined quadgrid')

    # ---- stream: Kronecker and generic paths (2-D, 3-D) ------------------------------------------
    def axis_tokens(kv, nqpM, nqpK):
        toks = ['%d %s' % (kv.p, fl(kv.kv))]
        atoks = list(toks)
        for nqp, d in ((nqpM, 0), (nqpK, 1)):
            if nqp <= 0 or d > kv.p:
                return None, None
            x, w = leg(nqp)
            q = hquad(kv.mesh, nqp)
            D = np.asarray(bspline.active_deriv(kv, q[0], d))[d]
            toks.append('%d %s %s %s' % (nqp, fl(x), fl(w), fmat(D)))
            atoks.append('%d %s %s %s' % (nqp, fl(x), fl(w), fmat(np.abs(D))))
        return ' '.join(toks), ' '.join(atoks)

    def identity_geo(kvs):
        """the identity map of the parameter box as a degree-1 B-spline function (control points = corners, x = last axis)"""
        gk = tuple(bspline.make_knots(1, float(kv.kv[0]), float(kv.kv[-1]), 1) for kv in kvs)
        ends = [np.array([float(kv.kv[0]), float(kv.kv[-1])]) for kv in kvs]
        G = np.meshgrid(*ends, indexing='ij')
        c = np.stack(list(reversed(G)), axis=-1)
        return bspline.BSplineFunc(gk, c)

    def tp_case(kvs, kind, path):
        dim = len(kvs)
        pmax = max(kv.p for kv in kvs)
        parts = []
        for kv in kvs:
            if path == 'kron':
                nM = kv.p + 1                                    # ceil((2p+1)/2)
                nK = int(math.ceil((2 * kv.p - 1) / 2.0))        # = p
            else:
                nM = nK = pmax + 1
            parts.append(axis_tokens(kv, nM, nK))
        if any(a is None for a, _ in parts):
            return
        line = 'tp %s %d %s' % (kind, dim, ' '.join(a for a, _ in parts))
        lineabs = 'tp %s %d %s' % (kind, dim, ' '.join(b for _, b in parts))
        geo = identity_geo(kvs)
        nt = sum((pmax + 1) * (kv.p + 1) for kv in kvs) + 40
        m = {'kind': 'tp', 'abs': lineabs, 'nterms': nt, 'what': '%s %dD via %s' % (kind, dim, path),
             'case': {'kvs': [(kv.kv.tolist(), kv.p) for kv in kvs], 'kind': kind, 'path': path}}

        def call():
            if path == 'kron':
                A = assemble.mass(kvs) if kind == 'mass' else assemble.stiffness(kvs)
            elif path == 'generic':
                A = assemble.mass(kvs, geo=geo) if kind == 'mass' else assemble.stiffness(kvs, geo=geo)
            elif path == 'string':
                with quiet():
                    form = 'u * v * dx' if kind == 'mass' else 'inner(grad(u), grad(v)) * dx'
                    try:
                        A = assemble.assemble(form, kvs, geo=geo)
                    except Exception as ex:
                        if 'Compile' not in type(ex).__name__:
                            raise
                        A = assemble.assemble(form, kvs, geo=geo)      # the shared module cache may have been cleaned concurrently: retry once
            elif path == 'vform':
                A = assemble.assemble(vform.mass_vf(dim) if kind == 'mass' else vform.stiffness_vf(dim), kvs, geo=geo, symmetric=True)
            elif path == 'bsp':
                f = {('mass', 2): assemble.bsp_mass_2d, ('stiff', 2): assemble.bsp_stiffness_2d,
                     ('mass', 3): assemble.bsp_mass_3d, ('stiff', 3): assemble.bsp_stiffness_3d}[(kind, dim)]
                A = f(kvs, geo=None, format='csc')
            return ('asm', A.toarray(), A.shape)
        add(line, call, m)
        ctx.count('%dD %s %s' % (dim, kind, path))

    n2 = 10 if quick else 120
    for it in range(n2):
        kvs = tuple(rand_kv(rng, maxp=3, nspans=int(rng.integers(1, 4))) for _ in range(2))
        for kind in ('mass', 'stiff'):
            if kind == 'stiff' and min(kv.p for kv in kvs) < 1:
                continue
            tp_case(kvs, kind, 'kron')
            tp_case(kvs, kind, 'bsp' if it % 2 else 'kron')
            tp_case(kvs, kind, ('generic', 'string', 'vform')[it % 3])
    n3 = 3 if quick else 30
    for it in range(n3):
        kvs = tuple(rand_kv(rng, maxp=2, nspans=int(rng.integers(1, 3))) for _ in range(3))
        for kind in ('mass', 'stiff'):
            if kind == 'stiff' and min(kv.p for kv in kvs) < 1:
                continue
            tp_case(kvs, kind, 'kron')
            tp_case(kvs, kind, ('generic', 'string', 'vform')[it % 3])

    # ---- tensor spaces whose directions have NEARLY EQUAL but different knot vectors ------------------------------------
    # (same degree and length, knots within KnotVector.__eq__'s allclose window 1e-8): every direction must still get its own
    # 1-D factor.  (a) tiny domains (2^-27..2^-33) with uniform vs graded breakpoints, (b) unit scale with one breakpoint
    # shifted by 2e-9..8e-9.  Compared with the exact-Rat model; its bound is relative to the entries, so scale-free.
    def near_equal_kvs():
        p = int(rng.integers(1, 4)); nsp = int(rng.integers(2, 5))
        mult = [int(rng.integers(1, p + 1)) for _ in range(nsp - 1)]

        def mk(mesh):
            return bspline.KnotVector(np.concatenate(([mesh[0]] * (p + 1), np.repeat(mesh[1:-1], mult), [mesh[-1]] * (p + 1))).astype(float), p)
        if rng.integers(0, 2) == 0:
            sc = 2.0 ** -int(rng.integers(27, 34))
            m1 = np.linspace(0.0, 1.0, nsp + 1) * sc
            cuts = np.sort(rng.permutation(np.arange(1, 16))[:nsp - 1]) / 16.0
            m2 = np.concatenate(([0.0], cuts, [1.0])) * sc
            if np.array_equal(m1, m2):
                m2[1] *= 0.75
            tag = 'tiny domain'
        else:
            m1 = np.concatenate(([0.0], np.cumsum(rng.integers(1, 9, size=nsp).astype(float) / 8)))
            m2 = m1.copy()
            k = int(rng.integers(1, nsp))
            m2[k] += float(rng.choice([-1.0, 1.0])) * float(rng.uniform(2e-9, 8e-9))
            tag = 'knot shifted by <1e-8'
        return mk(m1), mk(m2), tag

    nne = 6 if quick else 60
    for it in range(nne):
        kva, kvb, tag = near_equal_kvs()
        ctx.count('near-equal knot vector pairs (%s)' % tag)
        if not (kva == kvb) or np.array_equal(kva.kv, kvb.kv):
            ctx.count('near-equal generator produced a pair outside the __eq__ window')
        for kind in ('mass', 'stiff'):
            tp_case((kva, kvb), kind, 'kron')
            tp_case((kvb, kva), kind, 'bsp')
        if it % 3 == 0:
            tp_case((kva, kvb, kva), 'mass', 'kron')
            tp_case((kvb, kva, kvb), 'stiff', 'bsp')
        if it % 3 == 1:
            tp_case((kva, kvb), 'mass', 'generic')

    # ---- stream: load vectors / inner products / integrals ---------------------------------------
    def bilinear_geo(kvs):
        """degree-1 B-spline map of the parameter box of kvs with random dyadic control points; orientation may be reversed"""
        dim = len(kvs)
        gk = tuple(bspline.make_knots(1, float(kv.kv[0]), float(kv.kv[-1]), 1) for kv in kvs)
        if dim == 2:
            base = np.array([[[0, 0], [1, 0]], [[0, 1], [1, 1]]], dtype=float)    # [y,x,(X,Y)]
            c = base * float(rng.integers(1, 4)) + rng.integers(-2, 3, size=base.shape) / 8.0
            if rng.integers(0, 2):
                c = c[:, ::-1].copy()                                               # det J < 0
            return bspline.BSplineFunc(gk, c)
        g = geometry.unit_cube()
        c = g.coeffs * float(rng.integers(1, 4)) + rng.integers(-1, 2, size=g.coeffs.shape) / 8.0
        if rng.integers(0, 2):
            c = c[:, :, ::-1].copy()
        return bspline.BSplineFunc(gk, c)

    def load_case(kv, fp):
        nqp = kv.p + 1
        q = hquad(kv.mesh, nqp)
        C = bspline.collocation(kv, q[0]).toarray()
        fv = polyfun(fp)(q[0])
        add('load %s %s %s' % (fmat(C), fl(q[1]), fl(fv)), lambda: ('vec', bspline.load_vector(kv, polyfun(fp))),
            {'kind': 'vec', 'abs': 'load %s %s %s' % (fmat(np.abs(C)), fl(q[1]), fl(np.abs(fv))), 'nterms': len(q[0]) + 4,
             'what': 'load_vector', 'case': {'kv': kv.kv.tolist(), 'p': kv.p, 'f_poly': fp}})
        ctx.count('load_vector')

    nl = 40 if quick else 400
    for it in range(nl):
        load_case(rand_kv(rng), rand_poly(rng, int(rng.integers(0, 4))))
    # fixed finding gal:single-node-axis (repo commit ac6496d): an axis with a single quadrature node (all degrees 0, one-span axis)
    def single_node_axis(kvs):
        return max(kv.p for kv in kvs) == 0 and any(kv.numspans == 1 for kv in kvs)

    kv00 = bspline.KnotVector(np.array([0.0, 1.0]), 0)
    for nm, fcall in (('integrate', lambda: assemble.integrate((kv00,), lambda x: 1.0 + 0 * x)),
                      ('inner_products', lambda: assemble.inner_products((kv00,), lambda x: 1.0 + 0 * x))):
        try:
            v = np.asarray(fcall()).ravel()
            okv = v.shape == (1,) and v[0] == 1.0
            why = 'returned %r' % v.tolist()
        except Exception as ex:
            okv = False
            why = 'raised %s: %s' % (type(ex).__name__, str(ex)[:100])
        ctx.count('single-node-axis probe')
        if not okv:
            ctx.violation('gal:single-node-axis', '%s(KnotVector([0,1],0), 1) %s; exact value 1' % (nm, why),
                          {'kv': [0.0, 1.0], 'p': 0, 'f': '1', 'call': nm, 'observed': why}, True)

    def inner_case(kvs, cf, geo):
        dim = len(kvs)
        if single_node_axis(kvs):
            ctx.count('single-node axis (regression of fixed finding gal:single-node-axis)')
        nqp = max(kv.p for kv in kvs) + 1
        grid, wts = htquad([kv.mesh for kv in kvs], nqp)

        def f(*X, cf=cf):
            r = 1.0
            for c, xx in zip(cf, X):
                r = r * (c[0] + c[1] * xx)
            return r
        fv = utils.grid_eval(f, grid)
        # SIGNED determinants of the geometry Jacobian: the model applies np.abs itself (innerProductsGeo / integrateGeo)
        det = None if geo is None else np.asarray(assemble_tools.determinants(geo.grid_jacobian(grid)))
        Cs = [bspline.collocation(kv, g).toarray() for kv, g in zip(kvs, grid)]
        case = {'kvs': [(kv.kv.tolist(), kv.p) for kv in kvs], 'f_coeffs': cf, 'geo_coeffs': None if geo is None else geo.coeffs.tolist()}
        nt = sum(len(g) for g in grid) + 8
        if det is None:
            op1, op2, dtok, datok = 'inner', 'integ', '0', '0'
        else:
            op1, op2, dtok, datok = 'innerg', 'integg', fl(det.ravel()), fl(np.abs(det.ravel()))
            ctx.count('geometry cases with det J < 0' if det.ravel()[0] < 0 else 'geometry cases with det J > 0')
        add('%s %s %s %s %s' % (op1, plist(Cs, fmat), plist(wts, fl), fl(fv.ravel()), dtok),
            lambda: ('vec', np.asarray(assemble.inner_products(kvs, f, geo=geo)).ravel()),
            {'kind': 'vec', 'abs': '%s %s %s %s %s' % (op1, plist([np.abs(c) for c in Cs], fmat), plist(wts, fl), fl(np.abs(fv.ravel())), datok),
             'nterms': nt, 'what': 'inner_products %dD%s' % (dim, '' if geo is None else ' geo'), 'case': case})
        add('%s %s %s %s' % (op2, plist(wts, fl), fl(fv.ravel()), dtok),
            lambda: ('vec', np.asarray([assemble.integrate(kvs, f, geo=geo)])),
            {'kind': 'vec', 'abs': '%s %s %s %s' % (op2, plist(wts, fl), fl(np.abs(fv.ravel())), datok),
             'nterms': int(np.prod([len(g) for g in grid])) + 8, 'what': 'integrate %dD%s' % (dim, '' if geo is None else ' geo'), 'case': case})
        ctx.count('inner_products/integrate %dD%s' % (dim, '' if geo is None else ' geo'), 2)

    ni = 30 if quick else 300
    for it in range(ni):
        dim = 1 + it % 3
        kvs = tuple(rand_kv(rng, maxp=(4, 3, 2)[dim - 1], nspans=int(rng.integers(1, (5, 4, 3)[dim - 1]))) for _ in range(dim))
        cf = [rand_poly(rng, 1) for _ in range(dim)]
        inner_case(kvs, cf, bilinear_geo(kvs) if (dim >= 2 and it % 2) else None)

    # ---- stream: closed-form determinants / inverses (exact) ------------------------------------
    def unimodular(d):
        A = np.eye(d, dtype=np.int64)
        for _ in range(int(rng.integers(2, 7))):
            i, j = rng.permutation(d)[:2]
            A[i] += int(rng.integers(-2, 3)) * A[j]
            if rng.integers(0, 3) == 0:
                A[[i, j]] = A[[j, i]]
        return A

    nd = 150 if quick else 2000
    detinv_cases = []
    for it in range(nd):
        d = 2 + it % 2
        if it % 3 == 0:
            A = rng.integers(-5, 6, size=(d, d))
        else:
            A = unimodular(d)
            s = rng.permutation(d)
            A = A * (2 ** rng.integers(0, 3, size=d))[None, :]           # det = +-2^k: the inverse is dyadic
        X = A.astype(float)
        detinv_cases.append(X)
        shp = (1, 1) if d == 2 else (1, 1, 1)
        Xa = X.reshape(shp + (d, d)).copy()
        dA = round(float(np.linalg.det(X)))
        sing = (adj_inv([[F(int(v)) for v in r] for r in A.tolist()])[0] == 0)
        ent = fl(X.ravel())
        m = {'kind': 'detinv', 'X': A.tolist(), 'singular': sing}
        add('detinv determinants_%dx%d %s' % (d, d, ent), lambda: ('detinv', [float(np.asarray(assemble_tools.determinants(Xa)).ravel()[0])]), m)
        if not sing:
            def f1():
                de, inv = assemble_tools.det_and_inv(Xa)
                return ('detinv', [float(np.asarray(de).ravel()[0])] + np.asarray(inv).ravel().tolist())
            add('detinv det_and_inv_%dx%d %s' % (d, d, ent), f1, m)

            def f2():
                inv = assemble_tools.inverses(Xa)
                return ('detinv', [None] + np.asarray(inv).ravel().tolist())
            add('detinv inverses_%dx%d %s' % (d, d, ent), f2, m)
        ctx.count('det/inv %dx%d' % (d, d))

    # ---- stream: call HISTORIES in one process (state carried between calls must not change any result) ---------------
    # every call of a sequence is compared with the (stateless) model of that single call; after every call the arrays
    # returned by make_iterated_quadrature / gauss_rule for the meshes in play must be bitwise what they were before.
    hist_bad = []

    def run_history(kv, kv2, steps):
        nonlocal hist_seq, hist_monitor
        meshes = [kv.mesh.copy()]
        nqps = range(1, max(kv.p, kv2.p) + 3)

        def snapshot():
            out = {}
            for mi, mesh in enumerate(meshes):
                for n in nqps:
                    for nm, arrs in (('make_iterated_quadrature', quadrature.make_iterated_quadrature(mesh, n)),
                                     ('gauss_rule', quadrature.gauss_rule(n, mesh[:-1], mesh[1:]))):
                        out[(nm, mi, n)] = tuple(np.asarray(a).tobytes() for a in arrs)
            return out
        base = snapshot()
        hist_seq = []

        def monitor():
            now = snapshot()
            for k in base:
                if now[k] != base[k] and not hist_bad:
                    hist_bad.append(k)
                    ctx.violation('gal-hist:quadrature-arrays-mutated',
                                  '%s(mesh, %d) returns different arrays after the call sequence %s than before it (same arguments)'
                                  % (k[0], k[2], [c['call'] for c in hist_seq]),
                                  {'mesh': meshes[k[1]].tolist(), 'nqp': k[2], 'function': k[0], 'history': list(hist_seq)}, True)
        hist_monitor = monitor
        try:
            for st in steps:
                st()
        finally:
            hist_seq = None
            hist_monitor = None

    nh = 25 if quick else 300
    for it in range(nh):
        kv = rand_kv(rng, maxp=3, nspans=int(rng.integers(1, 4)))
        kv2 = rand_kv(rng, maxp=3, mesh=kv.mesh)
        p = kv.p
        wp = rand_poly(rng, int(rng.integers(1, 3))); wp[0] += 5
        dudv = (int(rng.integers(0, p + 1)), int(rng.integers(0, p + 1)))
        weighted = [lambda: biform_case(kv, 0, 0, None, wp), lambda: biform_case(kv, dudv[0], dudv[1], None, wp),
                    lambda: biform_case(kv2, 0, 0, None, wp)]
        if p >= 1:
            weighted.append(lambda: biform_case(kv, 1, 1, None, wp))
        plain = [lambda: biform_case(kv, 0, 0, None, None), lambda: biform_case(kv, dudv[0], dudv[1], None, None),
                 lambda: biform_case(kv2, 0, 0, None, None),
                 lambda: asym_case(kv, kv2, min(1, kv.p), min(1, kv2.p), None, None, 'history'),
                 lambda: asym_case(kv, kv2, 0, 0, None, None, 'history'),
                 lambda: tp_case((kv, kv2), 'mass', 'kron'), lambda: tp_case((kv2, kv), 'mass', 'generic'),
                 lambda: inner_case((kv,), [rand_poly(rng, 1)], None),
                 lambda: inner_case((kv, kv2), [rand_poly(rng, 1), rand_poly(rng, 1)], None),
                 lambda: load_case(kv, rand_poly(rng, 2))]
        if p >= 1:
            plain.append(lambda: biform_case(kv, 1, 1, None, None))
        if min(kv.p, kv2.p) >= 1:
            plain.append(lambda: tp_case((kv, kv2), 'stiff', 'kron'))
        n = int(rng.integers(3, 6))
        steps = []
        wpos = int(rng.integers(0, n - 1))          # at least one weighted call, never the last one
        for k in range(n):
            pool = weighted if (k == wpos or rng.integers(0, 4) == 0) else plain
            steps.append(pool[int(rng.integers(0, len(pool)))])
        run_history(kv, kv2, steps)
        ctx.count('histories')
        ctx.count('history calls', n)

    # ---- run the model --------------------------------------------------------------------------
    absreq = [m['abs'] for m in meta if 'abs' in m]
    got_all = ctx.model('drv_c09', req + absreq)
    got = got_all[:len(req)]
    absans = iter(got_all[len(req):])
    ndis = 0
    seen_keys = set()
    worst_ratio = 0.0

    def cmp_vals(impl, model, bound, nterms, scale=F(0)):
        """|impl - model| <= (nterms+8) * 2^-52 * bound (+ same factor * scale).  returns (ok, worst ratio)"""
        wr = 0.0
        ok = True
        for a, b, c in zip(impl, model, bound):
            if not np.isfinite(a):
                return False, float('inf')
            tol = (nterms + 8) * 2 * U * (abs(c) + scale)
            err = abs(F(float(a)) - b)
            if err > tol:
                ok = False
            if tol > 0:
                wr = max(wr, float(err / tol))
            elif err > 0:
                ok = False; wr = float('inf')
        return ok, wr

    def disagree(r, e, g, m, why):
        nonlocal ndis
        ndis += 1
        key = ('gal-hist:' if 'hist' in m else 'gal-corr:') + m.get('what', m['kind'])
        if key in seen_keys:          # one search + report per call site
            return
        seen_keys.add(key)
        found = search(m)
        after = ''
        if 'hist' in m:
            after = ' as call #%d of the in-process sequence %s' % (len(m['hist']), [c['call'] for c in m['hist']])
        ctx.violation(key, 'model and implementation disagree on %s%s (%s)%s' % (m.get('what', m['kind']), after, why, (': ' + found) if found else ''),
                      {'request': r[:1500], 'implementation': str(e)[:1500], 'model': g[:1500], 'case': m.get('case'), 'oracle': found,
                       'history (calls made in this order in one process; the last one is the failing call)': m.get('hist'),
                       'stream': 'gal (drv_c09)'}, found is not None)

    def recall(st):
        """re-issue a recorded call of a history (result ignored): rebuilds the in-process state the failing call saw"""
        nm, c = st['call'], st['args']
        mk = lambda k, p_: bspline.KnotVector(np.array(k), p_)
        if nm == 'bsp_mixed_deriv_biform_1d':
            assemble.bsp_mixed_deriv_biform_1d(mk(c['kv'], c['p']), c['du'], c['dv'], nqp=c['nqp'],
                                               weightfunc=None if c['weight_poly'] is None else polyfun(c['weight_poly']))
        elif nm.startswith('bsp_mixed_deriv_biform_1d_asym'):
            assemble.bsp_mixed_deriv_biform_1d_asym(mk(c['kv1'], c['p1']), mk(c['kv2'], c['p2']), c['du'], c['dv'],
                                                    quadgrid=None if c['quadgrid'] is None else np.array(c['quadgrid']), nqp=c['nqp'])
        elif nm.startswith(('mass ', 'stiff ')):
            kvs = tuple(mk(k, p_) for k, p_ in c['kvs'])
            geo = None if c['path'] in ('kron', 'bsp') else identity_geo(kvs)
            (assemble.mass if c['kind'] == 'mass' else assemble.stiffness)(kvs, geo=geo)
        elif nm == 'load_vector':
            bspline.load_vector(mk(c['kv'], c['p']), polyfun(c['f_poly']))
        elif nm.startswith(('inner_products', 'integrate')):
            kvs = tuple(mk(k, p_) for k, p_ in c['kvs'])
            cf = c['f_coeffs']

            def f(*X):
                r = 1.0
                for cc, xx in zip(cf, X):
                    r = r * (cc[0] + cc[1] * xx)
                return r
            geo = None
            if c['geo_coeffs'] is not None:
                gk = tuple(bspline.make_knots(1, float(kv.kv[0]), float(kv.kv[-1]), 1) for kv in kvs)
                geo = bspline.BSplineFunc(gk, np.array(c['geo_coeffs'], dtype=float))
            (assemble.inner_products if nm.startswith('inner') else assemble.integrate)(kvs, f, geo=geo)

    def search(m):
        """model-free oracle on the implementation for the failing case (for a history: after re-issuing the preceding calls)"""
        try:
            for st in (m.get('hist') or [])[:-1]:
                try:
                    recall(st)
                except Exception:
                    pass
            c = m.get('case')
            if m['kind'] == 'detinv':
                return oracle_detinv(np.array(m['X'], dtype=float))
            if m.get('what', '').startswith('bsp_mixed_deriv_biform_1d_asym'):
                kv1 = bspline.KnotVector(np.array(c['kv1']), c['p1']); kv2 = bspline.KnotVector(np.array(c['kv2']), c['p2'])
                return oracle_asym(kv1, kv2, c['du'], c['dv'], None if c['quadgrid'] is None else np.array(c['quadgrid']), c['nqp'])
            if m.get('what') == 'bsp_mixed_deriv_biform_1d':
                kv = bspline.KnotVector(np.array(c['kv']), c['p'])
                return oracle_biform(kv, c['du'], c['dv'], c['nqp'], c['weight_poly'])
            if m['kind'] == 'tp':
                kvs = tuple(bspline.KnotVector(np.array(k), p) for k, p in c['kvs'])
                return oracle_tp(kvs, c['kind'], c['path'])
            if m.get('what') == 'load_vector':
                kv = bspline.KnotVector(np.array(c['kv']), c['p'])
                return oracle_load(kv, c['f_poly'])
            if m.get('what', '').startswith(('inner_products', 'integrate')):
                return oracle_inner(c)
        except Exception as ex:
            return 'implementation raised %s: %s' % (type(ex).__name__, str(ex)[:200])
        return None

    # model-free oracles ------------------------------------------------------------------------
    OTOL = F(1, 2 ** 36)     # relative to the largest exact entry; see docs/C09.md (not a rounding bound: a coarse O(1)-error detector)

    def cmp_exact(A, E, what):
        A = np.asarray(A, dtype=float)
        mx = max([abs(x) for r in E for x in r] + [F(0)])
        if A.shape != (len(E), len(E[0]) if E else 0):
            return '%s: shape %s differs from %s' % (what, A.shape, (len(E), len(E[0]) if E else 0))
        for i, r in enumerate(E):
            for j, x in enumerate(r):
                if not np.isfinite(A[i, j]) or abs(F(float(A[i, j])) - x) > OTOL * mx:
                    return '%s: entry (%d,%d) = %r but the exact integral is %s = %r' % (what, i, j, float(A[i, j]), x, float(x))
        return None

    def oracle_biform(kv, du, dv, nqp, wpoly):
        p = kv.p
        deg = 2 * p - du - dv + (len(wpoly) - 1 if wpoly else 0)
        n_used = nqp if nqp is not None else int(math.ceil((2 * p - du - dv + 1) / 2.0))
        A = assemble.bsp_mixed_deriv_biform_1d(kv, du, dv, nqp=nqp, weightfunc=None if wpoly is None else polyfun(wpoly)).toarray()
        if deg > 2 * n_used - 1:
            # the requested rule is not exact for this integrand: compare with the dense definition C_dv^T diag(w) C_du instead
            q = hquad(kv.mesh, n_used)
            Cd = bspline.collocation_derivs(kv, q[0], derivs=max(du, dv))
            wq = q[1] if wpoly is None else q[1] * polyfun(wpoly)(q[0])
            D = (Cd[dv].T @ np.diag(wq) @ Cd[du])
            D = np.asarray(D.todense() if hasattr(D, 'todense') else D)
            if A.shape != D.shape or not np.allclose(A, D, rtol=1e-10, atol=1e-10 * (np.abs(D).max() + 1e-300)):
                return 'bsp_mixed_deriv_biform_1d differs from the dense definition C_dv^T diag(w) C_du'
            return None
        return cmp_exact(A, exact_biform(kv, kv, du, dv, wpoly), 'bsp_mixed_deriv_biform_1d(du=%d,dv=%d)' % (du, dv))

    def oracle_asym(kv1, kv2, du, dv, quadgrid, nqp):
        n_used = nqp if nqp is not None else int(math.ceil((kv1.p + kv2.p - du - dv + 1) / 2.0))
        A = assemble.bsp_mixed_deriv_biform_1d_asym(kv1, kv2, du, dv, quadgrid=quadgrid, nqp=nqp).toarray()
        if kv1.p + kv2.p - du - dv > 2 * n_used - 1:
            qg = kv1.mesh if quadgrid is None else quadgrid
            q = hquad(qg, n_used)
            C1 = bspline.collocation_derivs(kv1, q[0], derivs=du)[du]; C2 = bspline.collocation_derivs(kv2, q[0], derivs=dv)[dv]
            D = np.asarray((C2.T @ np.diag(q[1]) @ C1))
            if A.shape != D.shape or not np.allclose(A, D, rtol=1e-10, atol=1e-10 * (np.abs(D).max() + 1e-300)):
                return 'bsp_mixed_deriv_biform_1d_asym differs from the dense definition C2_dv^T diag(w) C1_du'
            return None
        return cmp_exact(A, exact_biform(kv1, kv2, du, dv), 'bsp_mixed_deriv_biform_1d_asym(du=%d,dv=%d)' % (du, dv))

    def exact_tp(kvs, kind):
        Ms = [exact_biform(kv, kv, 0, 0) for kv in kvs]
        if kind == 'mass':
            E = Ms[0]
            for M in Ms[1:]:
                E = fkron(E, M)
            return E
        Ks = [exact_biform(kv, kv, 1, 1) for kv in kvs]
        E = None
        for a in range(len(kvs)):
            T = None
            for b in range(len(kvs)):
                X = Ks[b] if a == b else Ms[b]
                T = X if T is None else fkron(T, X)
            E = T if E is None else fadd(E, T)
        return E

    def oracle_tp(kvs, kind, path):
        dim = len(kvs)
        geo = identity_geo(kvs)
        if path in ('kron', 'bsp'):
            A = assemble.mass(kvs) if kind == 'mass' else assemble.stiffness(kvs)
        elif path == 'generic':
            A = assemble.mass(kvs, geo=geo) if kind == 'mass' else assemble.stiffness(kvs, geo=geo)
        elif path == 'string':
            with quiet():
                A = assemble.assemble('u * v * dx' if kind == 'mass' else 'inner(grad(u), grad(v)) * dx', kvs, geo=geo)
        else:
            A = assemble.assemble(vform.mass_vf(dim) if kind == 'mass' else vform.stiffness_vf(dim), kvs, geo=geo, symmetric=True)
        return cmp_exact(A.toarray(), exact_tp(kvs, kind), '%s %dD (%s path)' % (kind, dim, path))

    def oracle_load(kv, fp):
        v = bspline.load_vector(kv, polyfun(fp))
        return cmp_exact(np.asarray(v)[None, :], [exact_load(kv, fp)], 'load_vector')

    def oracle_inner(c):
        kvs = tuple(bspline.KnotVector(np.array(k), p) for k, p in c['kvs'])
        if c['geo_coeffs'] is not None:
            # same geometry, f = 1: integrate, sum(inner_products) and sum(mass) are all the measure of the mapped box (> 0)
            gk = tuple(bspline.make_knots(1, float(kv.kv[0]), float(kv.kv[-1]), 1) for kv in kvs)
            geo = bspline.BSplineFunc(gk, np.array(c['geo_coeffs'], dtype=float))
            one = lambda *X: 1.0 + 0 * X[0]
            gi = float(assemble.integrate(kvs, one, geo=geo))
            ip = float(np.asarray(assemble.inner_products(kvs, one, geo=geo)).sum())
            ms = float(assemble.mass(kvs, geo=geo).sum())
            ref = area_quad(geo) if len(kvs) == 2 else None
            if not gi > 0:
                return 'integrate(1, geo) = %r is not positive (measure of the mapped domain%s)' % (gi, '' if ref is None else ' = %s' % ref)
            if not ip > 0:
                return 'sum(inner_products(1, geo)) = %r is not positive (measure of the mapped domain)' % ip
            if ref is not None and (abs(F(gi) - ref) > OTOL * ref or abs(F(ip) - ref) > OTOL * ref):
                return 'integrate(1, geo) = %r, sum(inner_products(1, geo)) = %r but the area (shoelace formula) is %s' % (gi, ip, ref)
            if abs(gi - ms) > 2.0 ** -36 * abs(ms) or abs(ip - ms) > 2.0 ** -36 * abs(ms):
                return 'integrate(1, geo) = %r, sum(inner_products(1, geo)) = %r, sum(mass(geo)) = %r disagree' % (gi, ip, ms)
            return None
        cf = c['f_coeffs']

        def f(*X):
            r = 1.0
            for cc, xx in zip(cf, X):
                r = r * (cc[0] + cc[1] * xx)
            return r
        # f(x_last_axis first): separable, so the exact tensor is the outer product of 1-D load vectors
        vecs = [exact_load(kv, cf[len(kvs) - 1 - k]) for k, kv in enumerate(kvs)]
        E = vecs[0]
        for v in vecs[1:]:
            E = [a * b for a in E for b in v]
        got = np.asarray(assemble.inner_products(kvs, f)).ravel()
        r = cmp_exact(got[None, :], [E], 'inner_products %dD' % len(kvs))
        if r:
            return r
        tot = F(1)
        for k, kv in enumerate(kvs):
            cc = cf[len(kvs) - 1 - k]
            tot *= pint([F(cc[0]), F(cc[1])], F(float(kv.kv[0])), F(float(kv.kv[-1])))
        gi = float(assemble.integrate(kvs, f))
        if abs(F(gi) - tot) > OTOL * max(abs(tot), F(1)):
            return 'integrate = %r but the exact integral is %s' % (gi, tot)
        return None

    def oracle_detinv(X):
        d = X.shape[0]
        XF = [[F(float(v)) for v in r] for r in X.tolist()]
        det, adj = adj_inv(XF)
        shp = (1, 1) if d == 2 else (1, 1, 1)
        Xa = X.reshape(shp + (d, d)).copy()
        g = float(np.asarray(assemble_tools.determinants(Xa)).ravel()[0])
        sc = max(abs(x) for r in XF for x in r) ** d * 6 + 1
        if abs(F(g) - det) > 16 * U * sc:
            return 'determinants(%s) = %r, exact %s' % (X.tolist(), g, det)
        if det != 0:
            for nm, inv in (('det_and_inv', np.asarray(assemble_tools.det_and_inv(Xa)[1])), ('inverses', np.asarray(assemble_tools.inverses(Xa)))):
                Y = inv.reshape(d, d)
                mxa = max(abs(x) for r in adj for x in r) / abs(det)
                for i in range(d):
                    for j in range(d):
                        if not np.isfinite(Y[i, j]) or abs(F(float(Y[i, j])) - adj[i][j] / det) > 64 * U * (mxa * sc / abs(det) + mxa):
                            return '%s(%s)[%d,%d] = %r, exact %s' % (nm, X.tolist(), i, j, float(Y[i, j]), adj[i][j] / det)
        return None

    # compare -----------------------------------------------------------------------------------
    for r, e, g, m in zip(req, exp, got, meta):
        ab = next(absans) if 'abs' in m else None
        if g == 'bad-request':
            from .common import InfraError
            raise InfraError('driver rejected request: ' + r[:300])
        if isinstance(e, str):
            if e != g:
                disagree(r, e, g, m, 'exact diff')
            continue
        kind = e[0]
        try:
            if kind == 'gauss':
                t = Toks(g); nodes = t.rats(); wts = t.rats()
                x, w, a, b = m['x'], m['w'], m['a'], m['b']
                bn = [abs(F(float(hh))) * abs(F(float(xx))) + abs(F(float(mm))) for hh, mm in zip(0.5 * (b - a), 0.5 * (a + b)) for xx in x]
                ok1, r1 = cmp_vals(e[1][0], nodes, bn, 0)
                ok2, r2 = cmp_vals(e[1][1], wts, [abs(v) for v in wts], 0)
                ok = ok1 and ok2 and len(nodes) == len(e[1][0]) and len(wts) == len(e[1][1])
                worst_ratio = max(worst_ratio, r1, r2)
            elif kind == 'quad':
                t = Toks(g); grids = t.ll(); wl = t.ll()
                ok = len(grids) == len(e[1][0]) and len(wl) == len(e[1][1])
                for gi, gm in zip(e[1][0], grids):
                    sc = max(abs(F(float(v))) for mm in m['meshes'] for v in mm)
                    o, rr = cmp_vals(gi, gm, [abs(v) for v in gm], 0, sc); ok = ok and o and len(gi) == len(gm)
                for wi, wm in zip(e[1][1], wl):
                    o, rr = cmp_vals(wi, wm, [abs(v) for v in wm], 0); ok = ok and o and len(wi) == len(wm)
            elif kind == 'asm':
                t = Toks(g)
                if m['kind'] == 'asm':
                    nodes = t.rats(); qw = t.rats()
                rws, cls, vals = t.mat()
                ta = Toks(ab)
                if m['kind'] == 'asm':
                    ta.rats(); ta.rats()
                _, _, avals = ta.mat()
                A = e[1]
                ok = (rws, cls) == tuple(e[2])
                if ok:
                    o, rr = cmp_vals(A.ravel().tolist(), vals, avals, m['nterms'])
                    worst_ratio = max(worst_ratio, rr)
                    ok = o
                if ok and m['kind'] == 'asm':
                    q = m['q']
                    sc = max(abs(F(float(v))) for v in q[0])
                    o, rr = cmp_vals(q[0], nodes, [abs(v) for v in nodes], 0, sc)
                    ok = o and len(nodes) == len(q[0])
            elif kind == 'vec':
                t = Toks(g); ta = Toks(ab)
                if r.startswith(('integ ', 'integg ')):
                    vals = [t.rat()]; avals = [ta.rat()]
                else:
                    vals = t.rats(); avals = ta.rats()
                ok = len(vals) == len(e[1])
                if ok:
                    o, rr = cmp_vals(list(e[1]), vals, avals, m['nterms'])
                    worst_ratio = max(worst_ratio, rr)
                    ok = o
            elif kind == 'detinv':
                t = Toks(g); vals = t.rats()
                impl = e[1]
                if impl[0] is None:
                    impl = impl[1:]; vals = vals[1:]
                # exact where the exact value is a double (det = +-2^k or integer results); else 4u relative
                ok = len(impl) == len(vals)
                for a, b in zip(impl, vals):
                    if not np.isfinite(a):
                        ok = False
                    elif F(float(b)) == b:
                        ok = ok and F(float(a)) == b
                    else:
                        ok = ok and abs(F(float(a)) - b) <= 8 * U * abs(b)
            else:
                ok = False
        except (ValueError, IndexError, ZeroDivisionError) as ex:
            ok = False
        if not ok:
            disagree(r, (e[0], np.asarray(e[1], dtype=object).tolist() if kind != 'asm' else e[1].tolist()), g, m, 'values outside the model-computed rounding bound')
    ctx.obligation('correspondence stream gal: %d requests, model == implementation (exact / within model-computed rounding bound)' % len(req),
                   ndis == 0, '%d disagreements' % ndis)
    ctx.extra['requests'] = len(req)
    ctx.extra['worst_error_over_bound'] = round(worst_ratio, 4)

    # ---- direct oracle runs: the property itself on the implementation ---------------------------
    orng = np.random.default_rng(ctx.seed + 1000)
    nor = 0

    def oracle_fail(key, d, case):
        ctx.violation(key, d, {'oracle': d, 'case': case}, True)

    for it in range(40 if quick else 400):
        kv = rand_kv(orng, maxp=5)
        p = kv.p
        du = int(orng.integers(0, p + 1)); dv = int(orng.integers(0, p + 1))
        wpoly = None if orng.integers(0, 2) else rand_poly(orng, 1)
        nqp = None if wpoly is None else int(math.ceil((2 * p - du - dv + 2) / 2.0))
        d = None
        try:
            d = oracle_biform(kv, du, dv, nqp, wpoly)
        except Exception as ex:
            d = 'implementation raised %s: %s' % (type(ex).__name__, str(ex)[:200])
        nor += 1
        if d:
            oracle_fail('gal-oracle:biform_1d', d, {'kv': kv.kv.tolist(), 'p': p, 'du': du, 'dv': dv, 'nqp': nqp, 'weight_poly': wpoly})
    for it in range(30 if quick else 300):
        kv1 = rand_kv(orng, maxp=4)
        kv2 = rand_kv(orng, maxp=4, mesh=kv1.mesh)
        du = int(orng.integers(0, kv1.p + 1)); dv = int(orng.integers(0, kv2.p + 1))
        try:
            d = oracle_asym(kv1, kv2, du, dv, None if it % 2 else kv2.mesh.copy(), None)
        except Exception as ex:
            d = 'implementation raised %s: %s' % (type(ex).__name__, str(ex)[:200])
        nor += 1
        if d:
            oracle_fail('gal-oracle:biform_1d_asym', d, {'kv1': kv1.kv.tolist(), 'p1': kv1.p, 'kv2': kv2.kv.tolist(), 'p2': kv2.p, 'du': du, 'dv': dv})

    # identities: symmetric, positive definite, total mass, K 1 = 0, kernel of K, per instance
    def identities(kvs, geo, area, tag):
        M = assemble.mass(kvs, geo=geo).toarray()
        n = M.shape[0]
        sc = float(np.abs(M).max())
        MF = [[F(float(v)) for v in r] for r in M.tolist()]
        if not np.allclose(M, M.T, rtol=0, atol=2.0 ** -40 * sc):
            return 'mass matrix not symmetric (%s)' % tag
        MS = [[(MF[i][j] + MF[j][i]) / 2 for j in range(n)] for i in range(n)]
        if n <= 40 and not exact_posdef(MS):
            return 'mass matrix not positive definite (exact elimination of the assembled doubles, %s)' % tag
        tot = sum(sum(r) for r in MF)
        if area is not None and abs(tot - area) > F(1, 2 ** 36) * abs(area):
            return 'sum of mass entries %r differs from the measure %s = %r (%s)' % (float(tot), area, float(area), tag)
        if min(kv.p for kv in (kvs if isinstance(kvs, tuple) else (kvs,))) >= 1:
            K = assemble.stiffness(kvs, geo=geo).toarray()
            ks = float(np.abs(K).max())
            if not np.allclose(K, K.T, rtol=0, atol=2.0 ** -40 * ks):
                return 'stiffness matrix not symmetric (%s)' % tag
            if np.abs(K.sum(axis=1)).max() > 2.0 ** -36 * ks * n or np.abs(K.sum(axis=0)).max() > 2.0 ** -36 * ks * n:
                return 'K*1 != 0 (%s): max row sum %r' % (tag, float(np.abs(K.sum(axis=1)).max()))
            ev = np.linalg.eigvalsh((K + K.T) / 2)
            if ev[0] < -2.0 ** -36 * ks * n:
                return 'stiffness matrix has negative eigenvalue %r (%s)' % (float(ev[0]), tag)
            if n >= 2 and ev[1] < 2.0 ** -30 * ev[-1]:
                return 'kernel of the stiffness matrix is larger than the constants: second eigenvalue %r (%s)' % (float(ev[1]), tag)
        return None

    for it in range(24 if quick else 240):
        dim = 1 + it % 3
        kvs = tuple(rand_kv(orng, maxp=(5, 3, 2)[dim - 1], nspans=int(orng.integers(1, (6, 4, 3)[dim - 1]))) for _ in range(dim))
        area = F(1)
        for kv in kvs:
            area *= F(float(kv.kv[-1])) - F(float(kv.kv[0]))
        geo = None
        tag = '%dD no geometry' % dim
        if dim == 2 and it % 2:
            # bilinear, possibly orientation-reversing map of the parameter rectangle (det J polynomial): area by the shoelace formula
            a0, a1 = float(kvs[1].kv[0]), float(kvs[1].kv[-1]); b0, b1 = float(kvs[0].kv[0]), float(kvs[0].kv[-1])
            kx = bspline.make_knots(1, a0, a1, 1); ky = bspline.make_knots(1, b0, b1, 1)
            base = np.array([[[0, 0], [2, 0]], [[0, 1], [2, 1]]], dtype=float) + orng.integers(-2, 3, size=(2, 2, 2)) / 8.0
            if orng.integers(0, 2):
                base = base[:, ::-1].copy()
            geo = bspline.BSplineFunc((ky, kx), base)
            area = area_quad(geo)
            tag = '2D bilinear geometry %s' % base.tolist()
        try:
            d = identities(kvs if dim > 1 else kvs[0], geo, area, tag)
            if d is None and dim >= 2:
                d = oracle_tp(kvs, 'mass', 'kron') or (oracle_tp(kvs, 'stiff', 'generic') if min(kv.p for kv in kvs) >= 1 else None)
            if d is None and geo is not None:
                gi = float(assemble.integrate(kvs, lambda x, y: 1.0 + 0 * x, geo=geo))
                if abs(F(gi) - area) > F(1, 2 ** 36) * area:
                    d = 'integrate(1, geo) = %r but the area is %s' % (gi, area)
        except Exception as ex:
            d = 'implementation raised %s: %s' % (type(ex).__name__, str(ex)[:200])
        nor += 1
        ctx.count('identities ' + tag[:22])
        if d:
            oracle_fail('gal-oracle:identities', d, {'kvs': [(kv.kv.tolist(), kv.p) for kv in kvs], 'tag': tag})
    # exact rank of the exact stiffness matrix = n-1 (kernel = constants), exact definiteness of the exact mass matrix
    for it in range(10 if quick else 100):
        kv = rand_kv(orng, maxp=4, p=int(orng.integers(1, 5)))
        K = exact_biform(kv, kv, 1, 1); M = exact_biform(kv, kv, 0, 0)
        nor += 1
        if exact_rank(K) != kv.numdofs - 1 or any(sum(r) != 0 for r in K):
            oracle_fail('gal-oracle:kernel', 'exact stiffness matrix has rank %d != n-1' % exact_rank(K), {'kv': kv.kv.tolist(), 'p': kv.p})
        if not exact_posdef(M) or sum(sum(r) for r in M) != F(float(kv.kv[-1])) - F(float(kv.kv[0])):
            oracle_fail('gal-oracle:mass-exact', 'exact mass matrix not SPD / total mass wrong', {'kv': kv.kv.tolist(), 'p': kv.p})
    # det/inv oracle (model-free)
    for X in detinv_cases[:60 if quick else 600]:
        d = None
        try:
            d = oracle_detinv(X)
        except Exception as ex:
            d = 'implementation raised %s: %s' % (type(ex).__name__, str(ex)[:200])
        nor += 1
        if d:
            oracle_fail('gal-oracle:detinv', d, {'X': X.tolist()})
    if not ok_gen and not any(v['key'] == 'gal-oracle:detinv' for v in ctx.violations):
        # regenerated obligation failed: widen the search for a concrete matrix
        for _ in range(2000):
            d_ = int(orng.integers(2, 4))
            X = orng.integers(-4, 5, size=(d_, d_)).astype(float)
            d = oracle_detinv(X)
            if d:
                oracle_fail('gal-oracle:detinv', d, {'X': X.tolist()})
                break

    # ---- fast (low-rank) assemblers: correspondence only -----------------------------------------
    # fixed finding gal:aca-skip-repeats (repo commit d357d3f): probe in a fresh process (the C rand() state is process history)
    import subprocess
    from .common import PY
    probe = ("import numpy as np\nfrom pyiga import bspline, assemble, geometry\n"
             "kvs=(bspline.make_knots(1,0.0,1.0,3), bspline.make_knots(3,0.0,1.0,3))\n"
             "g=geometry.bspline_quarter_annulus()\n"
             "A=assemble.stiffness_fast(kvs,geo=g,tol=1e-10,verbose=0).toarray(); B=assemble.stiffness(kvs,geo=g).toarray()\n"
             "print('ERR', repr(float(np.abs(A-B).max())), repr(float(np.abs(B).max())))\n")
    env = dict(os.environ)
    if REPO != '/repo':
        env['PYTHONPATH'] = REPO + os.pathsep + env.get('PYTHONPATH', '')
    try:
        pr = subprocess.run([PY, '-W', 'ignore', '-c', probe], env=env, cwd='/tmp', stdout=subprocess.PIPE, stderr=subprocess.PIPE, text=True, timeout=600)
        line = [l for l in pr.stdout.split('\n') if l.startswith('ERR')]
        perr, pmax = (float(line[0].split()[1]), float(line[0].split()[2])) if line else (float('inf'), 1.0)
        pdetail = '' if line else pr.stderr[-300:]
    except Exception as ex:
        perr, pmax, pdetail = float('inf'), 1.0, '%s: %s' % (type(ex).__name__, ex)
    ctx.count('aca skip probe (fresh process)')
    nor += 1
    if not perr <= 100 * 1e-10 * max(1.0, pmax):
        ctx.violation('gal:aca-skip-repeats',
                      'stiffness_fast((make_knots(1,0,1,3), make_knots(3,0,1,3)), geo=bspline_quarter_annulus(), tol=1e-10) differs from stiffness() by %r (max|A| = %r) in a fresh process %s' % (perr, pmax, pdetail),
                      {'kvs': 'make_knots(1,0,1,3) x make_knots(3,0,1,3)', 'geo': 'bspline_quarter_annulus', 'tol': 1e-10, 'error': perr, 'max_entry': pmax}, True)
    nfast = 3 if quick else 12
    for it in range(nfast):
        dim = 2 if it % 3 else 3
        kvs = tuple(bspline.make_knots(int(orng.integers(1, 4)), 0.0, 1.0, int(orng.integers(3, 7))) for _ in range(dim))
        geo = (geometry.bspline_quarter_annulus() if it % 2 else geometry.perturbed_square(num_intervals=3, noise=0.02)) if dim == 2 else geometry.twisted_box()
        tol = 1e-10
        try:
            for nm, ffast, fref in (('mass_fast', assemble.mass_fast, assemble.mass), ('stiffness_fast', assemble.stiffness_fast, assemble.stiffness)):
                Af = ffast(kvs, geo=geo, tol=tol, verbose=0).toarray()
                Ar = fref(kvs, geo=geo).toarray()
                err = np.abs(Af - Ar).max()
                bound = 100 * tol + 64 * 2.0 ** -52 * np.abs(Ar).max()       # absolute (see fast_bound below)
                nor += 1
                ctx.count(nm + ' %dD' % dim)
                if not err <= bound:
                    case = {'kvs': [(kv.kv.tolist(), kv.p) for kv in kvs], 'dim': dim, 'geo': ['perturbed_square', 'bspline_quarter_annulus'][it % 2] if dim == 2 else 'twisted_box',
                            'error': float(err), 'tol': tol}
                    # classify: does the ACA converge when it may not stop on skipped rows?
                    A2 = ffast(kvs, geo=geo, tol=tol, verbose=0, skipcount=10 ** 6).toarray()
                    if np.abs(A2 - Ar).max() <= bound:
                        ctx.violation('gal:aca-skip-repeats', '%s differs from the Gauss assembler by %r in %dD but agrees with skipcount=10**6: premature stop after skipped rows' % (nm, float(err), dim), case, True)
                    else:
                        oracle_fail('gal-oracle:' + nm, '%s differs from the Gauss assembler by %r (> 100*tol*max|A|) in %dD' % (nm, float(err), dim), case)
        except Exception as ex:
            oracle_fail('gal-oracle:fast', 'fast assembler raised %s: %s' % (type(ex).__name__, str(ex)[:200]), {'dim': dim})
    # ---- fast assemblers: call HISTORIES, each in one fresh process (the reported sequence is the complete history) -------------
    # sequences of 3-6 mass_fast/stiffness_fast calls on spaces of different sizes (small after large, large after small, same call
    # repeated), 2-D and a small 3-D; every result within 100*tol*max|A| of the Gauss assembler, as in the single-call check.
    import json as _json
    hist_script = (
        "import sys, json\nimport numpy as np\nfrom pyiga import bspline, assemble, geometry\n"
        "seq = json.loads(sys.argv[1]); out = []\n"
        "def mkgeo(nm):\n"
        "    np.random.seed(0)\n"
        "    return {'bspline_quarter_annulus': geometry.bspline_quarter_annulus, 'quarter_annulus': geometry.quarter_annulus,\n"
        "            'perturbed_square': lambda: geometry.perturbed_square(num_intervals=3, noise=0.02), 'twisted_box': geometry.twisted_box}[nm]()\n"
        "for c in seq:\n"
        "    kvs = tuple(bspline.make_knots(p, 0.0, 1.0, n) for p, n in zip(c['ps'], c['ns']))\n"
        "    g = mkgeo(c['geo'])\n"
        "    if c.get('scale') is not None:\n"
        "        g = g.scale(tuple(c['scale']) if isinstance(c['scale'], list) else c['scale'])\n"
        "    try:\n"
        "        A = getattr(assemble, c['fn'])(kvs, geo=g, tol=c['tol'], verbose=0).toarray()\n"
        "        B = getattr(assemble, c['fn'][:-5])(kvs, geo=g).toarray()\n"
        "        e1 = float(np.abs(A - B).max()) if A.shape == B.shape else float('inf'); mx = float(np.abs(B).max()); e2 = None\n"
        "        if not e1 <= 8 * c['tol'] * max(1.0, mx):\n"
        "            A2 = getattr(assemble, c['fn'])(kvs, geo=g, tol=c['tol'], verbose=0, skipcount=10**6).toarray()\n"
        "            e2 = float(np.abs(A2 - B).max())\n"
        "        out.append([e1, mx, e2])\n"
        "    except Exception as ex:\n"
        "        out.append(['%s: %s' % (type(ex).__name__, str(ex)[:100]), 1.0, None])\n"
        "print('RES ' + json.dumps(out))\n")

    def fast_call(dim, small=None):
        if dim == 3:
            return {'fn': ('mass_fast', 'stiffness_fast')[int(orng.integers(0, 2))], 'ps': [int(orng.integers(1, 3)) for _ in range(3)],
                    'ns': [int(orng.integers(1, 4)) for _ in range(3)], 'geo': 'twisted_box', 'tol': 1e-10}
        hi = 4 if small else 8
        lo = 1 if small is not False else 4
        return {'fn': ('mass_fast', 'stiffness_fast')[int(orng.integers(0, 2))], 'ps': [int(orng.integers(1, 4)) for _ in range(2)],
                'ns': [int(orng.integers(lo, hi)) for _ in range(2)],
                'geo': ('bspline_quarter_annulus', 'quarter_annulus', 'perturbed_square')[int(orng.integers(0, 3))], 'tol': 1e-10}

    # requested-tolerance sweep (property: "within a small multiple of its REQUESTED tolerance on smooth geometries"): the same
    # space assembled with tol = 1e-4 .. 1e-13 (shuffled) by mass_fast and stiffness_fast, on geometries whose matrices do not
    # have tiny Kronecker rank (3-D twisted box: the entrywise error tracks the ACA tolerance; measured 0.1..4.8 * tol on the
    # unchanged tree for every tol) and on 2-D perturbed square / NURBS annulus, at unit size, uniformly scaled by 2^5..2^13 and
    # anisotropically stretched by powers of two (entries up to ~1e9).  Bound FAST_C * tol + FAST_K * eps * max|A| (absolute).
    FAST_C = 32.0
    FAST_K = 64.0

    def fast_bound(c, mx):
        """ABSOLUTE entrywise bound: c*tol (the property: "a small multiple of its requested tolerance") + rounding floor k*eps*max|A|.
        Measured on the unchanged tree over scales 1..2^13 and stretches up to 2^16:1: error <= max(4.8*tol, 11*eps*max|A|)."""
        return FAST_C * c['tol'] + FAST_K * 2.0 ** -52 * mx

    def sweep_seq(k):
        fn = ('stiffness_fast', 'mass_fast')[k % 2]
        if (k // 2) % 2 == 0:
            pp = int(orng.integers(1, 4)); nn = int(orng.integers(4, 8 if pp < 3 else 6))
            base = {'fn': fn, 'ps': [pp, pp, pp] if orng.integers(0, 2) else [pp, max(1, pp - 1), pp],
                    'ns': [nn, nn, nn] if orng.integers(0, 2) else [nn, nn - 1, max(4, nn - 2)], 'geo': 'twisted_box'}
        else:
            base = {'fn': fn, 'ps': [int(orng.integers(1, 4)) for _ in range(2)], 'ns': [int(orng.integers(4, 9)) for _ in range(2)],
                    'geo': ('perturbed_square', 'quarter_annulus')[int(orng.integers(0, 2))]}
        dim_ = len(base['ps'])
        mode = k % 3
        if mode == 1:
            base['scale'] = float(2.0 ** int(orng.integers(5, 14)))
        elif mode == 2:
            ex = [int(orng.integers(-3, 4)) for _ in range(dim_)]
            ex[int(orng.integers(0, dim_))] = int(orng.integers(8, 14))
            base['scale'] = [float(2.0 ** e) for e in ex]
        tols = [1e-4, 1e-6, 1e-8, 1e-10, 1e-12, 1e-13]
        return [dict(base, tol=tols[j], sweep=True) for j in orng.permutation(6)]

    nfh = 8 if quick else 60
    nsw = 6 if quick else 24
    for it in range(nfh + nsw):
        kind = it % 4
        if it >= nfh:
            seq = sweep_seq(it - nfh)
        elif kind == 0:        # same small call repeated after a few small assemblies
            x = fast_call(2, small=True); x['fn'] = 'stiffness_fast'
            seq = [x] + [dict(fast_call(2, small=True), fn='mass_fast') for _ in range(int(orng.integers(2, 5)))] + [x]
        elif kind == 1:      # small after large
            seq = [fast_call(2, small=False) for _ in range(int(orng.integers(1, 3)))] + [fast_call(2, small=True) for _ in range(int(orng.integers(2, 5)))]
        elif kind == 2:      # large after small
            seq = [fast_call(2, small=True) for _ in range(int(orng.integers(2, 5)))] + [fast_call(2, small=False) for _ in range(int(orng.integers(1, 3)))]
        else:                # mixed with a small 3-D
            seq = [fast_call(2, small=None) for _ in range(int(orng.integers(2, 4)))]
            seq.insert(int(orng.integers(0, len(seq) + 1)), fast_call(3))
            seq.append(dict(seq[0]))
        seq = seq[:6]
        try:
            pr = subprocess.run([PY, '-W', 'ignore', '-c', hist_script, _json.dumps(seq)], env=env, cwd='/tmp',
                                stdout=subprocess.PIPE, stderr=subprocess.PIPE, text=True, timeout=900)
            line = [l for l in pr.stdout.split('\n') if l.startswith('RES ')]
            res = _json.loads(line[0][4:]) if line else None
            detail = '' if line else pr.stderr[-300:]
        except Exception as ex:
            res, detail = None, '%s: %s' % (type(ex).__name__, ex)
        ctx.count('fast-assembler tol sweeps (fresh process each)' if it >= nfh else 'fast-assembler histories (fresh process each)')
        ctx.count('fast-assembler history calls', len(seq))
        nor += len(seq)
        if res is None or len(res) != len(seq):
            oracle_fail('gal-hist:fast-runner', 'fast-assembler history did not complete: %s' % detail, {'sequence': seq})
            continue
        for k, ((err, mx, err_noskip), c) in enumerate(zip(res, seq)):
            if not isinstance(err, str):
                ctx.extra['fast_worst_error_over_bound'] = round(max(ctx.extra.get('fast_worst_error_over_bound', 0.0), err / fast_bound(c, mx)), 4)
            okc = not isinstance(err, str) and err <= fast_bound(c, mx)
            if not okc:
                first_same = next((j for j in range(k) if seq[j] == c), None)
                extra = ''
                if first_same is not None and not isinstance(res[first_same][0], str) and res[first_same][0] <= fast_bound(c, mx):
                    extra = ' (the identical call #%d earlier in the same process was correct: error %r)' % (first_same + 1, res[first_same][0])
                if c.get('sweep') and not isinstance(err, str):
                    extra += ' = %.0f * requested tol; errors/tol of the whole sweep: %s' % (
                        err / c['tol'], ['%g: %.3g' % (cc['tol'], (rr[0] / cc['tol']) if not isinstance(rr[0], str) else float('nan')) for cc, rr in zip(seq, res)])
                # classify: the same call re-issued (same process, right after) with skipcount=10**6, i.e. never stopping on skipped rows.
                # gal:aca-slice-skip is FIXED in /repo (2247491): the key only names the cause; a recurrence is an unlisted VIOLATION.
                key_ = ('gal-fast-tol:' if c.get('sweep') else 'gal-hist:') + c['fn']
                if len(c['ps']) == 3 and err_noskip is not None and err_noskip <= fast_bound(c, mx):
                    key_ = 'gal:aca-slice-skip'
                    extra += '; with skipcount=10**6 the same call is within the bound (error %r): premature stop of the slice ACA on skipped rows' % err_noskip
                ctx.violation(key_,
                              'call #%d of the fresh-process sequence %s: %s(degrees %s, spans %s, geo=%s, scale=%s, tol=%g) differs from the Gauss assembler by %r (max|A| = %r; absolute bound %g*tol + %g*eps*max|A| = %.3g)%s'
                              % (k + 1, [cc['fn'] for cc in seq[:k + 1]], c['fn'], c['ps'], c['ns'], c['geo'], c.get('scale'), c['tol'], err, mx, FAST_C, FAST_K, fast_bound(c, mx), extra),
                              {'sequence (run in this order in one fresh process; make_knots(p,0,1,n) per axis)': seq[:k + 1],
                               'errors_per_call': res[:k + 1]}, True)
                break
    ctx.extra['oracle_cross_checks'] = nor
    ctx.notes.append('mass_fast/stiffness_fast (C++ ACA) are compared with the Gauss assembler by ABSOLUTE entrywise bounds: 100*tol + 64*eps*max|A| (in-process random stream, tol=1e-10) and 32*tol + 64*eps*max|A| (fresh-process histories and requested-tolerance sweeps 1e-4..1e-13 at unit size, scaled 2^5..2^13 and stretched by powers of two): float-level evidence, no Lean statement')

    # ---- excluded point of biform_1d_asym: quadgrid coarser than a knot vector (documented behaviour) ----
    kv1 = bspline.make_knots(1, 0.0, 1.0, 1); kv2 = bspline.make_knots(1, 0.0, 1.0, 2)
    try:
        A = assemble.bsp_mass_1d_asym(kv1, kv2).toarray()
        E = exact_biform(kv1, kv2, 0, 0)
        wrong = cmp_exact(A, E, 'bsp_mass_1d_asym') is not None
    except Exception:
        wrong = True
    ctx.notes.append('excluded point (Props.C09.biform_1d_asym_needs_cell_hyp): bsp_mass_1d_asym(kv1, kv2) with the default quadgrid kv1.mesh COARSER than kv2 '
                     + ('returns a matrix that is not the Gram matrix (no error raised)' if wrong else 'now returns the exact Gram matrix')
                     + '; outside the property (quantifier: common mesh); the repository tests always pass quadgrid=kv2.mesh in that situation')
    ctx.extra['asym_coarse_quadgrid_wrong'] = bool(wrong)
    ctx.sample({'biform request (truncated)': next((r[:160] for r in req if r.startswith('biform')), '')})
    ctx.sample({'asym request (truncated)': next((r[:160] for r in req if r.startswith('asym')), '')})
    ctx.sample({'detinv': next((r for r in req if r.startswith('detinv det_and_inv_3x3')), '')})
