"""
C07 — geometry maps evaluate consistently on every route; constructions are exact (DESIGN.md §6/C07).

tie: hand-written Lean model (Pyiga.Model.Geometry / Jet, driver drv_c07) vs pyiga.bspline /
     pyiga.geometry on the same spline/NURBS functions (stream `geo`).  The implementation's own 1-D
     collocation values are inputs of the model (they are C02's subject), handed over as a table
     T[d][e] = info(kvs[d], coordinate array e) so that the *route* has to pick the axis pairing
     itself; the model computes in exact Rat and returns value + forward error bound per entry.
theorems: Pyiga.Props.C07.*
search (model-free): the definition  Σ_I c_I Π_k N_{I_k}(x_k)  with Cox-de Boor values, derivative
     recursion and quotient derivatives in python Fractions from the object's coefficient arrays.
monitor (labelled as such, no Lean content): byte snapshots of every argument object before/after
     every operation ("no operation alters an existing object"); circles by the Fraction oracle.
"""
import math
from fractions import Fraction

import numpy as np

from .common import plist, frac

THEOREMS = [
    'Pyiga.Props.C07.nurbs_jet', 'Pyiga.Props.C07.nurbs_jet_unique', 'Pyiga.Props.C07.hess_packing',
    'Pyiga.Props.C07.jet_mul_inv', 'Pyiga.Props.C07.jet_div_mul_cancel',
    'Pyiga.Props.C07.routes_agree', 'Pyiga.Props.C07.window_eq_dense', 'Pyiga.Props.C07.axis_map_is_reversal',
    'Pyiga.Props.C07.jac_columns_agree', 'Pyiga.Props.C07.jac_column_meaning',
    'Pyiga.Props.C07.translate_bspline', 'Pyiga.Props.C07.translate_nurbs', 'Pyiga.Props.C07.scale_pointwise',
    'Pyiga.Props.C07.apply_matrix_pointwise', 'Pyiga.Props.C07.rotate_2d_pointwise',
    'Pyiga.Props.C07.tensor_product_law', 'Pyiga.Props.C07.outer_sum_law', 'Pyiga.Props.C07.outer_product_law',
    'Pyiga.Props.C07.outer_nurbs_law', 'Pyiga.Props.C07.as_nurbs_same_map', 'Pyiga.Props.C07.getitem_component',
    'Pyiga.Props.C07.boundary_restriction', 'Pyiga.Props.C07.bdspec_table', 'Pyiga.Props.C07.boundary_function_args',
    'Pyiga.Props.C07.arc_on_circle', 'Pyiga.Props.C07.arc_segment_on_circle', 'Pyiga.Props.C07.arc_endpoints',
    'Pyiga.Props.C07.quarter_annulus_radius', 'Pyiga.Props.C07.arcs_on_circle', 'Pyiga.Props.C07.rotation_preserves_circle',
    'Pyiga.Props.C07.translate_bspline_model', 'Pyiga.Props.C07.scale_bspline_model',
    'Pyiga.Props.C07.getitem_bspline_model', 'Pyiga.Props.C07.tensor_product_model',
    'Pyiga.Props.C07.as_nurbs_model', 'Pyiga.Props.C07.nurbs_routes_agree', 'Pyiga.Props.C07.boundary_jacobian_columns', 'Pyiga.Props.C07.outer_model', 'Pyiga.Props.C07.boundary_model', 'Pyiga.Props.C07.translate_nurbs_model',
    'Pyiga.Props.C07.apply_matrix_model', 'Pyiga.Props.C07.scale_nurbs_model',
    'Pyiga.Props.C07.outer_nurbs_model', 'Pyiga.Props.C07.tensor_nurbs_law', 'Pyiga.Props.C07.tensor_nurbs_model',
    'Pyiga.Props.C07.composed_jet', 'Pyiga.Props.C07.composed_jacobian', 'Pyiga.Props.C07.composed_value_route',
    'Pyiga.Props.C07.as_vector_nurbs_model', 'Pyiga.Props.C07.getitem_nurbs_model', 'Pyiga.Props.C07.apply_matrix_nurbs_model',
    'Pyiga.Props.C07.line_segment_law', 'Pyiga.Props.C07.identity_axis', 'Pyiga.Props.C07.unit_cube_model', 'Pyiga.Props.C07.identity_model',
    'Pyiga.Props.C07.cylinderize_model', 'Pyiga.Props.C07.quarter_annulus_polar', 'Pyiga.Props.C07.disk_sides', 'Pyiga.Props.C07.disk_scale_radius',
    'Pyiga.Props.C07.copy_boundary_pinned_lose_scalar', 'Pyiga.Props.C07.boundary_pinned_curve_asserts',
]
MODULES = ['Pyiga.Model.Jet', 'Pyiga.Model.Geometry', 'Pyiga.Proofs.Jet', 'Pyiga.Proofs.Geometry', 'Pyiga.Proofs.GeoLists', 'Pyiga.Proofs.Arcs', 'Pyiga.Proofs.Compose', 'Pyiga.Props.C07']

U = 2.0 ** -52

# ------------------------------------------------------------------------------------------------
# model-free oracle: the definition in Fractions
# ------------------------------------------------------------------------------------------------

def _span(t, p, u):
    """index s of the half-open knot span [t_s, t_{s+1}) containing u; the last non-empty span at the
    right end (B-splines are right-continuous and closed at the right end of the support)."""
    n = len(t) - p - 1
    if u >= t[-1]:
        s = n - 1
        while s > 0 and t[s] == t[s + 1]:
            s -= 1
        return s
    for s in range(len(t) - 1):
        if t[s] <= u < t[s + 1]:
            return s
    raise ValueError('point outside the knot vector')


def basis_def(kv, u, nu):
    """[N_i^{(nu)}(u) for all i] by the Cox-de Boor recursion and its derivative recursion (Fractions)."""
    t = [Fraction(float(x)) for x in kv.kv]
    p = kv.p
    u = Fraction(u)
    s = _span(t, p, u)
    memo = {}

    def bas(i, q, d):
        key = (i, q, d)
        if key in memo:
            return memo[key]
        if q == 0:
            r = (Fraction(1) if i == s else Fraction(0)) if d == 0 else Fraction(0)
        else:
            d1 = t[i + q] - t[i]
            d2 = t[i + q + 1] - t[i + 1]
            r = Fraction(0)
            if d == 0:
                if d1 != 0:
                    r += (u - t[i]) / d1 * bas(i, q - 1, 0)
                if d2 != 0:
                    r += (t[i + q + 1] - u) / d2 * bas(i + 1, q - 1, 0)
            else:
                if d1 != 0:
                    r += q / d1 * bas(i, q - 1, d - 1)
                if d2 != 0:
                    r -= q / d2 * bas(i + 1, q - 1, d - 1)
        memo[key] = r
        return r
    return [bas(i, p, nu) for i in range(kv.numdofs)]


def to_frac_array(a):
    a = np.asarray(a, dtype=float)
    out = np.empty(a.shape, dtype=object)
    flat = out.reshape(-1)
    for i, x in enumerate(a.reshape(-1)):
        flat[i] = Fraction(float(x))
    return out


def spline_def(kvs, C, u_zyx, D_zyx, absolute=False):
    """Σ_I C[I] Π_k N^{(D_k)}_{I_k}(u_k): object array of the trailing shape.  `absolute`: the same sum
    with every factor replaced by its absolute value (magnitude used for the search tolerance)."""
    A = C
    if absolute:
        A = np.vectorize(abs, otypes=[object])(A) if A.size else A
    for kv, u, d in zip(kvs, u_zyx, D_zyx):
        v = basis_def(kv, u, d)
        if absolute:
            v = [abs(x) for x in v]
        A = np.tensordot(np.array(v, dtype=object), A, axes=([0], [0]))
    return np.asarray(A, dtype=object)


class Oracle:
    """exact value / Jacobian / packed Hessian of a BSplineFunc or NurbsFunc at one point (xyz order)"""

    def __init__(self, f):
        from pyiga import geometry
        self.f = f
        self.nurbs = isinstance(f, geometry.NurbsFunc)
        self.kvs = f.kvs
        self.sdim = len(f.kvs)
        self.C = to_frac_array(f.coeffs)

    def _sp(self, x, D_xyz, absolute=False):
        u = list(reversed([Fraction(float(t)) for t in x]))
        D = list(reversed(D_xyz))
        return spline_def(self.kvs, self.C, u, D, absolute)

    def jet(self, x, order):
        """(val, jac[m], hess[(a,b)]) in xyz numbering of the variables; entries are object arrays
        of the trailing coefficient shape (B-spline) or of shape (dim,) (NURBS)."""
        n = self.sdim
        E = lambda *idx: [sum(1 for i in idx if i == k) for k in range(n)]
        V = self._sp(x, E())
        G = [self._sp(x, E(a)) for a in range(n)] if order >= 1 else None
        H = {(a, b): self._sp(x, E(a, b)) for a in range(n) for b in range(a, n)} if order >= 2 else None
        if not self.nurbs:
            return V, G, H
        W = V[..., -1]
        N = V[..., :-1] / W
        NG = NH = None
        if order >= 1:
            # V = N W  =>  V_a = N_a W + N W_a
            NG = [(G[a][..., :-1] - N * G[a][..., -1]) / W for a in range(n)]
        if order >= 2:
            NH = {}
            for (a, b), Hab in H.items():
                NH[(a, b)] = (Hab[..., :-1] - NG[a] * G[b][..., -1] - NG[b] * G[a][..., -1] - N * Hab[..., -1]) / W
        if self.f._isscalar:
            N = N[..., 0]
            if NG: NG = [g[..., 0] for g in NG]
            if NH: NH = {k: h[..., 0] for k, h in NH.items()}
        return N, NG, NH

    def mag(self, x, order):
        """magnitude bound: Σ|c|Π|N^{(ν)}| maximised over the derivative patterns used"""
        n = self.sdim
        E = lambda *idx: [sum(1 for i in idx if i == k) for k in range(n)]
        pats = [E()]
        if order >= 1: pats += [E(a) for a in range(n)]
        if order >= 2: pats += [E(a, b) for a in range(n) for b in range(a, n)]
        m = Fraction(0)
        for P in pats:
            A = self._sp(x, P, absolute=True)
            m = max(m, max([abs(t) for t in np.asarray(A, dtype=object).reshape(-1)] or [0]))
        w = 1.0
        if self.nurbs:
            W = self._sp(x, E())[..., -1]
            w = min(1.0, float(abs(W)))
        return (float(m) + 1.0) / (w ** (order + 1))

    def value(self, x):
        return np.array(self.jet(x, 0)[0], dtype=float)

    def jacobian(self, x):
        """dim x sdim, column m = derivative with respect to the m-th argument (x first)"""
        _, G, _ = self.jet(x, 1)
        return np.stack([np.array(g, dtype=float) for g in G], axis=-1)

    def hessian(self, x):
        """packed (xx, xy, [xz,] yy, [yz, zz]) as documented in BSplineFunc.grid_hessian"""
        _, _, H = self.jet(x, 2)
        n = self.sdim
        return np.stack([np.array(H[(a, b)], dtype=float) for a in range(n) for b in range(a, n)], axis=-1)


def close(a, b, scale, rtol=1e-9):
    a = np.asarray(a, dtype=float); b = np.asarray(b, dtype=float)
    if a.shape != b.shape:
        return False
    return bool(np.all(np.abs(a - b) <= rtol * scale))


def oracle_routes(f, pts, grid):
    """The property itself on the implementation, for one function: every route against the definition.
    pts: list of points (xyz tuples); grid: gridaxes (zyx).  Returns None or a description."""
    try:
        return _oracle_routes(f, pts, grid)
    except Exception as ex:
        return 'implementation raised %s: %s' % (type(ex).__name__, str(ex)[:200])


def _oracle_routes(f, pts, grid):
    from pyiga import bspline
    O = Oracle(f)
    n = O.sdim
    matrix_valued = (not O.nurbs) and f.coeffs.ndim - n >= 2
    for x in pts:
        sc = O.mag(x, 1)
        v = O.value(x)
        if not close(np.asarray(f(*x)), v, sc):
            return '__call__%s = %s differs from the definition %s' % (tuple(x), np.asarray(f(*x)).tolist(), v.tolist())
        P = tuple(np.array([t]) for t in x)
        pv = f.pointwise_eval(P)
        if not close(pv[0], v, sc):
            return 'pointwise_eval at %s = %s differs from the definition %s' % (tuple(x), np.asarray(pv[0]).tolist(), v.tolist())
        J = O.jacobian(x)
        pj = f.pointwise_jacobian(P)
        if not close(pj[0], J, sc):
            return 'pointwise_jacobian at %s = %s differs from the derivative of the map %s' % (tuple(x), np.asarray(pj[0]).tolist(), J.tolist())
        g1 = tuple(np.array([t]) for t in reversed(x))
        gj = f.grid_jacobian(g1)
        if not close(gj[(0,) * n], J, sc):
            return 'grid_jacobian at %s = %s differs from the derivative of the map %s' % (tuple(x), np.asarray(gj[(0,) * n]).tolist(), J.tolist())
    # scattered routes: a 2-D coordinate array in Fortran order / as a transposed view gives the values of its C-ordered copy
    if len(pts) >= 2:
        Qs = [np.array([[p[e] for p in pts[:2]], [p[e] for p in pts[:2][::-1]], [pts[0][e], pts[0][e]]]) for e in range(n)]     # (3, 2)
        ref = np.asarray(f.pointwise_eval(tuple(np.ascontiguousarray(q) for q in Qs)))
        refj = np.asarray(f.pointwise_jacobian(tuple(np.ascontiguousarray(q) for q in Qs)))
        for lay, mk in (('Fortran-ordered', np.asfortranarray), ('transposed view', lambda q: np.ascontiguousarray(q.T).T)):
            got = np.asarray(f.pointwise_eval(tuple(mk(q) for q in Qs)))
            gotj = np.asarray(f.pointwise_jacobian(tuple(mk(q) for q in Qs)))
            if got.shape != ref.shape or not np.array_equal(got, ref):
                return 'pointwise_eval with %s (3,2) coordinate arrays = %s differs from the same points in a C-ordered copy = %s' % (lay, got.tolist(), ref.tolist())
            if gotj.shape != refj.shape or not np.array_equal(gotj, refj):
                return 'pointwise_jacobian with %s (3,2) coordinate arrays differs from the same points in a C-ordered copy' % lay
    # grid
    GV = f.grid_eval(grid)
    GJ = f.grid_jacobian(grid)
    GH = None if matrix_valued else f.grid_hessian(grid)
    for g in np.ndindex(*[len(a) for a in grid]):
        x = tuple(reversed([float(grid[i][g[i]]) for i in range(n)]))
        sc = O.mag(x, 2)
        if not close(GV[g], O.value(x), sc):
            return 'grid_eval node %s (point %s) = %s differs from the definition %s' % (g, x, np.asarray(GV[g]).tolist(), O.value(x).tolist())
        if not close(GJ[g], O.jacobian(x), sc):
            return 'grid_jacobian node %s (point %s) differs from the derivative of the map' % (g, x)
        if GH is not None and not close(np.asarray(GH[g]).ravel(), O.hessian(x).ravel(), sc):
            return 'grid_hessian node %s (point %s) = %s differs from the second derivatives %s (packed xx,xy,..)' % (
                g, x, np.asarray(GH[g]).tolist(), O.hessian(x).tolist())
    return None


# ------------------------------------------------------------------------------------------------
# generators
# ------------------------------------------------------------------------------------------------

def rand_kv(rng, small=False):
    from pyiga import bspline
    p = int(rng.choice([1, 2, 2, 3, 3, 4, 0] if not small else [1, 2, 2, 3]))
    nsp = int(rng.integers(1, 3 if small else 4))
    a = float(rng.integers(-4, 5)) / 4.0
    widths = rng.integers(1, 5, size=nsp).astype(float) / 4.0
    brk = np.concatenate(([a], a + np.cumsum(widths)))
    mult = [int(rng.integers(1, max(p, 1) + 1)) for _ in range(nsp - 1)]
    kv = np.concatenate(([brk[0]] * (p + 1), np.repeat(brk[1:-1], mult), [brk[-1]] * (p + 1)))
    return bspline.KnotVector(kv, p)


def rand_coord(rng, kv, n):
    lo, hi = [float(t) for t in kv.support()]
    out = []
    for _ in range(n):
        r = rng.integers(0, 6)
        if r == 0:
            out.append(lo)
        elif r == 1:
            out.append(hi)
        elif r == 2:
            out.append(float(rng.choice(kv.mesh)))
        else:
            out.append(lo + (hi - lo) * float(rng.integers(0, 65)) / 64.0)
    return out


def dyadic(rng, shape, lo=-16, hi=17, den=8.0):
    return rng.integers(lo, hi, size=shape).astype(float) / den


DTYPES = [np.float64, np.float64, np.float64, np.int64, np.int32, np.float32]


def rand_func(rng, sdim, kind=None, vshape=None, dtype=None, scale=None):
    """random spline / NURBS function; coefficient (and weight) arrays of dtype float64 / int64 / int32 / float32 —
    the constructors keep the dtype; all values are exactly representable in every one of them"""
    from pyiga import bspline, geometry
    kvs = tuple(rand_kv(rng, small=(sdim == 3)) for _ in range(sdim))
    if sdim >= 2 and rng.integers(0, 4) == 0:
        kvs = (kvs[0],) * sdim          # the same number of dofs on every axis (axis mix-ups stay shape-compatible)
    if scale is not None:
        # power-of-two rescaling of the parameter domain: knots (and the points drawn from them) stay exact doubles
        kvs = tuple(bspline.KnotVector(kv.kv * 2.0 ** scale, kv.p) for kv in kvs)
    N = tuple(kv.numdofs for kv in kvs)
    kind = kind or str(rng.choice(['bsp', 'bsp', 'nurbs']))
    if dtype is None:
        dtype = DTYPES[int(rng.integers(0, len(DTYPES)))]
    integral = np.issubdtype(dtype, np.integer)

    def coeffs(shape):
        if integral:
            return rng.integers(-12, 13, size=shape).astype(dtype)
        return dyadic(rng, shape).astype(dtype)
    if kind == 'bsp':
        if vshape is None:
            vshape = [(), (), (1,), (2,), (3,), (2, 2), (3, 2)][int(rng.integers(0, 7))]
        return bspline.BSplineFunc(kvs, coeffs(N + tuple(vshape)))
    else:
        if vshape is None:
            vshape = [(), (1,), (2,), (3,)][int(rng.integers(0, 4))]
        if integral:
            W = rng.integers(1, 5, size=N).astype(dtype)             # positive integer weights
        else:
            W = (rng.integers(4, 17, size=N).astype(float) / 8.0).astype(dtype)      # positive weights in [0.5, 2]
        return geometry.NurbsFunc(kvs, coeffs(N + tuple(vshape)), W)


def is_f64(f):
    return f.coeffs.dtype == np.float64


# ------------------------------------------------------------------------------------------------
# wire format
# ------------------------------------------------------------------------------------------------

def is_nurbs(f):
    from pyiga import geometry
    return isinstance(f, geometry.NurbsFunc)


def fmt_func(f):
    n = len(f.kvs)
    return '%d %d %s %s %s' % (1 if is_nurbs(f) else 0, 1 if getattr(f, '_isscalar', False) else 0,
                               plist(kv.numdofs for kv in f.kvs), plist(f.coeffs.shape[n:]),
                               plist(np.asarray(f.coeffs, dtype=float).ravel().tolist(), frac))


def fmt_info(first, vals):
    return '%d %s' % (first, plist(vals, lambda v: plist(np.asarray(v).tolist(), frac)))


def info_table(kvs, coords, derivs):
    """T[d][e][k] = row k of collocation(_derivs)_info(kvs[d], coords[e]) — the implementation's own 1-D
    values, computed with the function the route under test uses (derivs = 0, 1, 2)."""
    from pyiga import bspline
    out = []
    for kv in kvs:
        row = []
        lo, hi = [float(t) for t in kv.support()]
        for x in coords:
            x = np.ascontiguousarray(np.asarray(x, dtype=float).ravel())
            if len(x) and lo <= x.min() and x.max() <= hi:
                if derivs == 0:
                    idx, vals = bspline.collocation_info(kv, x)
                    vals = np.asarray(vals)[None]
                else:
                    idx, vals = bspline.collocation_derivs_info(kv, x, derivs)
                    vals = np.asarray(vals)
                row.append([fmt_info(int(idx[k]), vals[:, k, :]) for k in range(len(x))])
            else:
                row.append([])      # never used by a correct route (coordinate array outside this knot vector)
        out.append(row)
    return plist(out, lambda row: plist(row, lambda pts: plist(pts)))


class Answer:
    """canonical form of an implementation result"""

    def __init__(self, kind, header=None, data=None, parts=None, f32=False):
        self.kind, self.header, self.data, self.parts, self.f32 = kind, header, data, parts, f32

    @staticmethod
    def of(x):
        from pyiga import bspline, geometry
        if isinstance(x, str):
            return Answer('err', x)
        if isinstance(x, tuple) and x and isinstance(x[0], np.ndarray):
            parts = [Answer.of(t) for t in x]
            return Answer('multi', parts=parts, f32=any(p.f32 for p in parts))
        if isinstance(x, (bspline.BSplineFunc, geometry.NurbsFunc)):
            n = len(x.kvs)
            hdr = 'F %d %d %s %s' % (1 if is_nurbs(x) else 0, 1 if getattr(x, '_isscalar', False) else 0,
                                     plist(kv.numdofs for kv in x.kvs), plist(x.coeffs.shape[n:]))
            return Answer('arr', hdr, np.array(x.coeffs, dtype=float).ravel(), f32=(np.asarray(x.coeffs).dtype == np.float32))
        a = np.array(x, dtype=float)
        return Answer('arr', plist(a.shape), a.ravel(), f32=(np.asarray(x).dtype == np.float32))

    def short(self):
        if self.kind == 'err':
            return self.header
        if self.kind == 'multi':
            return ' ; '.join(p.short() for p in self.parts)
        return '%s | %s' % (self.header, ' '.join(repr(float(t)) for t in self.data[:24]))


def compare(ans, model, loose=1):
    """None if the implementation's answer agrees with the model's line, else a description.  `loose`: factor on
    the model's tolerance (2^29 when float32 data are involved: unit roundoff 2^-24 instead of 2^-53)"""
    if ans.kind == 'err':
        return None if model == ans.header else 'implementation %s, model %s' % (ans.header, model[:80])
    if model.startswith('err-') or model in ('div0', 'bad-request'):
        return 'implementation returned a value, model says %s' % model
    if ans.kind == 'multi':
        parts = model.split(' ; ')
        if len(parts) != len(ans.parts):
            return 'number of results differs'
        for a, m in zip(ans.parts, parts):
            d = compare(a, m, loose)
            if d:
                return d
        return None
    hdr, _, body = model.partition(' | ')
    if hdr.strip() != ans.header:
        return 'shape/type header: implementation `%s`, model `%s`' % (ans.header, hdr.strip())
    toks = body.split()
    if len(toks) != 2 * len(ans.data):
        return 'entry count: implementation %d, model %d' % (len(ans.data), len(toks) // 2)
    for i, x in enumerate(ans.data):
        v, tol = toks[2 * i], toks[2 * i + 1]
        if not math.isfinite(x):
            return 'entry %d: implementation %r' % (i, x)
        fv, ft = Fraction(v), Fraction(tol) * loose
        if abs(Fraction(float(x)) - fv) > ft:
            return 'entry %d: implementation %r, model %.17g (tolerance %.3g)' % (i, float(x), float(fv), float(ft))
    return None


# ------------------------------------------------------------------------------------------------
# mutation monitor
# ------------------------------------------------------------------------------------------------

def snapshot(objs):
    from pyiga import bspline
    out = []
    for o in objs:
        if isinstance(o, np.ndarray):
            out.append(o.tobytes())
        elif hasattr(o, 'kvs') and hasattr(o, 'coeffs'):
            out.append((o.coeffs.tobytes(), o.coeffs.shape, tuple(kv.kv.tobytes() for kv in o.kvs),
                        tuple(kv.p for kv in o.kvs), repr(getattr(o, '_support_override', None))))
        else:
            out.append(repr(o))
    return out


# ------------------------------------------------------------------------------------------------

def run(ctx):
    import time
    t0 = time.time()
    phases = ctx.extra.setdefault('phase_seconds', {})

    def lap(name):
        nonlocal t0
        phases[name] = round(time.time() - t0, 1); t0 = time.time()
    ctx.build_repo()
    from pyiga import bspline, geometry, utils
    lap('build_repo')
    ctx.require_lean(['Pyiga.Props.C07', 'drv_c07'])
    lap('lake build (incl. lock wait)')
    ctx.audit(['Pyiga.Props.C07'], THEOREMS, MODULES)
    lap('axiom audit (incl. lock wait)')
    if ctx.tier == 'thorough':
        ctx.leanchecker(MODULES)
    ctx.level = 'proof (partial)'
    ctx.trusted += [
        '1-D B-spline values/derivatives at the evaluation points are inputs of the model (taken from the implementation; property C02)',
        'apply_tprod is modelled by the sum it denotes (the mode-product loop is property C16); numpy broadcasting/einsum/matmul by their documented meaning',
        'IEEE rounding is not modelled: implementation doubles are compared with the exact Rat model value within the model-computed bound (k+4)*2^-52*Σ|terms| (k = number of operations in the expression)',
        'cos/sin/sqrt values used by rotate_2d / circular_arc / quarter_annulus are inputs of the model (libm)',
    ]
    ctx.assumptions += ['NURBS weights are positive (no zero of the weight function)',
                        'aliasing clause ("no operation alters an existing object") is monitored by byte snapshots only',
                        'UserFunction callables are exercised by the oracle only (polynomial callables)']
    ctx.rule = ('functions: sdim 1-3, degrees 0-4, 1-3 spans/axis, interior multiplicities 1..p, supports with dyadic ends; '
                'B-spline coefficients scalar / (1,) / vector / matrix, NURBS scalar / vector with weights in [0.5,2]; dyadic data. '
                'per function: __call__, grid_eval/jacobian/hessian, pointwise_eval/jacobian, tp_bsp_eval_with_jac_pointwise, '
                '_BoundaryFunction routes, and every operation (translate scale apply_matrix rotate_2d as_nurbs as_vector __getitem__ '
                'boundary copy coeffs_weights outer_sum outer_product tensor_product cylinderize) + curve constructors. '
                'non-trivial = function with >= 2 basis functions on every axis; distinct by (knots, coefficients)')
    rng = ctx.rng
    req, thunks, meta = [], [], []

    def add(r, thunk, m):
        req.append(r); thunks.append(thunk); meta.append(m)

    def run_impl(thunk):
        try:
            return Answer.of(thunk())
        except AssertionError:
            ctx.count('err-AssertionError'); return Answer('err', 'err-AssertionError')
        except Exception as ex:
            ctx.count('err-' + type(ex).__name__); return Answer('err', 'err-' + type(ex).__name__)

    mutated = []

    def monitored(name, objs, thunk):
        """run an operation with byte snapshots of all argument objects (monitoring)"""
        def f():
            before = snapshot(objs)
            try:
                return thunk()
            finally:
                ctx.count('monitored operations')
                if snapshot(objs) != before:
                    mutated.append(name)
        return f

    nfun = {'quick': (80, 80, 50), 'thorough': (600, 600, 400)}[ctx.tier]
    funcs = []
    for sdim in (1, 2, 3):
        for _ in range(nfun[sdim - 1]):
            funcs.append(rand_func(rng, sdim))
    # maps on rescaled parameter domains (2^-40 ... 2^20: spans down to ~2e-13 and up to ~1e6), all routes
    SCALES = [-40, -36, -30, -20, -10, 10, 20]
    rescaled = []
    for k in range(21 if ctx.tier == 'quick' else 140):
        g = rand_func(rng, 1 + k % 3, None, [(), (2,), (3,)][int(rng.integers(0, 3))], dtype=np.float64, scale=SCALES[k % len(SCALES)])
        g._verif_scale = SCALES[k % len(SCALES)]
        rescaled.append(g)
        ctx.count('parameter domain scaled by 2^%d' % SCALES[k % len(SCALES)])
    funcs += rescaled
    # library geometries as additional subjects
    funcs += [geometry.unit_square(2), geometry.unit_cube(num_intervals=2), geometry.quarter_annulus(0.5, 1.25),
              geometry.bspline_quarter_annulus(), geometry.twisted_box(), geometry.circular_arc(1.25, 2.0),
              geometry.circle(0.75), geometry.disk(1.5), geometry.semicircle(2.0),
              geometry.identity([(0.0, 0.5), (0.25, 1.0), (-1.0, 1.0)])]

    def attempt(label, fn, *objs):
        """preparing the requests already calls into pyiga (constructors, boundary(), grid_eval of inner maps ...): a
        modified tree must not crash the harness — an exception there is a finding with the object that triggered it"""
        try:
            return fn()
        except Exception as ex:
            import traceback
            ctx.violation('geo-gen:' + label, 'pyiga raised %s while the harness prepared the %s requests: %s' % (type(ex).__name__, label, str(ex)[:200]),
                          {'traceback': traceback.format_exc()[-1500:], 'case': describe(('gen:' + label,) + tuple(objs))}, True)
            return None

    def route_requests(f, tag, fmt_from=None, with_bd=True):
        # fmt_from: object holding the data f WILL have when the thunks run (call-history stream)
        n = len(f.kvs)
        fd = fmt_func(fmt_from if fmt_from is not None else f)
        nb = is_nurbs(f)
        matrix_valued = (not nb) and f.coeffs.ndim - n >= 2
        # single point (xyz order)
        for _ in range(2):
            x = [rand_coord(rng, f.kvs[n - 1 - e], 1)[0] for e in range(n)]
            add('call %s %s' % (fd, info_table(f.kvs, [[t] for t in x], 0)),
                (lambda x=x: np.asarray(f(*x))), ('call', f, x))
        # grids (zyx order)
        lens = [int(rng.integers(1, 4)) for _ in range(n)]
        grid = tuple(np.array(rand_coord(rng, f.kvs[i], lens[i])) for i in range(n))
        add('geval %s %s' % (fd, info_table(f.kvs, grid, 0)), (lambda: f.grid_eval(grid)), ('geval', f, grid))
        add('gjac %s %s' % (fd, info_table(f.kvs, grid, 1)), (lambda: f.grid_jacobian(grid)), ('gjac', f, grid))
        add('ghess %s %s' % (fd, info_table(f.kvs, grid, 2)), (lambda: f.grid_hessian(grid)), ('ghess', f, grid))
        # scattered (xyz order)
        npt = int(rng.integers(1, 4))
        P = tuple(np.array(rand_coord(rng, f.kvs[n - 1 - e], npt)) for e in range(n))
        add('pweval %s %s %d' % (fd, info_table(f.kvs, P, 0), npt), (lambda: f.pointwise_eval(P)), ('pweval', f, P))
        add('pwjac %s %s %d' % (fd, info_table(f.kvs, P, 1), npt), (lambda: f.pointwise_jacobian(P)), ('pwjac', f, P))
        if not nb:
            add('pwevaljac %s %s %d' % (fd, info_table(f.kvs, P, 1), npt),
                (lambda: bspline.tp_bsp_eval_with_jac_pointwise(f.kvs, f.coeffs, P)), ('pwevaljac', f, P))
            # a 2-D array of scattered points (input_shape handling)
            if npt >= 2 and rng.integers(0, 3) == 0:
                P2 = tuple(np.stack([p, p[::-1]]) for p in P)
                add('pweval %s %s %d' % (fd, info_table(f.kvs, P2, 0), 2 * npt),
                    (lambda: f.pointwise_eval(P2).reshape((2 * npt,) + f.coeffs.shape[n:])), ('pweval', f, P2))
        # scattered routes with ndim >= 2 coordinate arrays in Fortran order / as transposed or strided views (all coordinate
        # arrays of one call have the same logical shape): the result belongs to the points in LOGICAL (C) index order
        if with_bd:
            k3 = 3
            Q = [np.array([rand_coord(rng, f.kvs[n - 1 - e], k3), rand_coord(rng, f.kvs[n - 1 - e], k3)]) for e in range(n)]   # (2, 3)
            def layouts(q):
                big = np.zeros((2, 2 * k3 + 1)); big[:, 1::2] = q
                big3 = np.zeros((4, k3)); big3[::2, :] = q
                return {'F': np.asfortranarray(q), 'T': np.ascontiguousarray(q.T).T, 'strided': big[:, 1::2], 'rows': big3[::2, :],
                        'reversed': np.ascontiguousarray(q[::-1, ::-1])[::-1, ::-1]}
            name = ['F', 'T', 'strided', 'rows', 'reversed'][int(rng.integers(0, 5))]
            for lay in ('F', name) if name != 'F' else ('F', 'T'):
                Pv = tuple(layouts(q)[lay] for q in Q)
                osh = tuple(f.coeffs.shape[n:]) if not nb else (() if f._isscalar else (f.coeffs.shape[-1] - 1,))
                add('pweval %s %s %d' % (fd, info_table(f.kvs, Q, 0), 2 * k3),
                    (lambda Pv=Pv: np.asarray(f.pointwise_eval(Pv)).reshape((2 * k3,) + osh)), ('pweval', f, Q))
                add('pwjac %s %s %d' % (fd, info_table(f.kvs, Q, 1), 2 * k3),
                    (lambda Pv=Pv: np.asarray(f.pointwise_jacobian(Pv)).reshape((2 * k3,) + osh + (n,))), ('pwjac', f, Q))
                ctx.count('scattered routes, coordinate arrays in layout %s' % lay)
        # generic boundary functions (_BoundaryFunction): every axis/side of one parent, built directly and through
        # boundary(name) of a support-restricted copy (the generic path); single-point, grid and Jacobian routes
        if with_bd and n >= 2 and not matrix_valued:
            def bd_routes(parent, bf, axis, fixed, supp, side):
                rest = [i for i in range(n) if i != axis]

                def crd(i, k):
                    lo, hi = supp[i]
                    return [lo + (hi - lo) * float(rng.integers(0, 9)) / 8.0 for _ in range(k)]
                xb = [crd(i, 1)[0] for i in reversed(rest)]          # xyz order
                add('bdcall %s %d %s' % (fd, axis, info_table(f.kvs, [[t] for t in xb] + [[fixed]], 0)),
                    (lambda: np.asarray(bf(*xb))), ('bdcall', parent, (axis, side), xb))
                gb = tuple(np.array(crd(i, int(rng.integers(1, 3)))) for i in rest)
                add('bdgeval %s %d %s' % (fd, axis, info_table(f.kvs, list(gb) + [[fixed]], 0)),
                    (lambda: bf.grid_eval(gb)), ('bdgeval', parent, (axis, side), gb))
                add('bdgjac %s %d %s' % (fd, axis, info_table(f.kvs, list(gb) + [[fixed]], 1)),
                    (lambda: bf.grid_jacobian(gb)), ('bdgjac', parent, (axis, side), gb))
            full = tuple((float(kv.support()[0]), float(kv.support()[1])) for kv in f.kvs)
            side = int(rng.integers(0, 2))
            for axis in range(n):
                bd_routes(f, geometry._BoundaryFunction(f, (axis, side)), axis, full[axis][side], full, side)
            # support-restricted parent: boundary(name) takes the generic path, the face is the face of the box
            g = f.copy()
            box = []
            for (lo, hi) in full:
                a = int(rng.integers(0, 8)); b = int(rng.integers(a + 1, 9))
                box.append((lo + (hi - lo) * a / 8.0, lo + (hi - lo) * b / 8.0))
            g.support = tuple(box)
            names = ['left', 'right', 'bottom', 'top', 'front', 'back'][:2 * n]
            for name in [names[int(k)] for k in rng.permutation(len(names))[:2]] + [names[2 + int(rng.integers(0, 2))]]:
                axis, sd = bspline._parse_bdspec(name, n)
                bd_routes(g, g.boundary(name), axis, box[axis][sd], box, sd)

    def op_requests(f):
        n = len(f.kvs)
        fd = fmt_func(f)
        nb = is_nurbs(f)
        vs = f.coeffs.shape[n:]
        dim_out = (vs[-1] - 1) if nb else (vs[-1] if vs else 1)
        is_vec = (len(vs) == 1) if not nb else (not f._isscalar)

        def op(name, line, objs, thunk):
            add(line, monitored(name, [f] + objs, thunk), ('op:' + name, f, line.split(' ', 1)[0]))
        # translate / scale
        for name in ('translate', 'scale'):
            if rng.integers(0, 2) == 0 or not vs:
                v = dyadic(rng, (), -8, 9, 4.0)
                arg = float(v); vl = [arg]
            else:
                arg = dyadic(rng, (dim_out,), -8, 9, 4.0); vl = arg.tolist()
            op(name, '%s %s %s' % (name, fd, plist(vl, frac)), [arg] if isinstance(arg, np.ndarray) else [],
               (lambda name=name, arg=arg: getattr(f, name)(arg)))
        if is_vec:
            r = int(rng.integers(1, 4))
            A = dyadic(rng, (r, dim_out), -8, 9, 4.0)
            op('apply_matrix', 'applymat %s %s' % (fd, plist(A.tolist(), lambda row: plist(row, frac))), [A],
               (lambda: f.apply_matrix(A)))
            # one matrix per control point ("an array of matrices ... numpy broadcasting rules apply"): full batch shape N,
            # trailing part of N, singleton axes, and a non-broadcastable batch shape (expected answer: the error kind)
            N = tuple(kv.numdofs for kv in f.kvs)
            forms = [N, N[1:], tuple(1 if rng.integers(0, 2) else k for k in N), (1,) * n]
            forms.append(tuple(k + 1 for k in N[-1:]))
            for ab in forms:
                r2 = int(rng.integers(1, 4))
                AB = dyadic(rng, tuple(ab) + (r2, dim_out), -8, 9, 4.0)
                mats = AB.reshape((-1, r2, dim_out))
                op('apply_matrix[array]', 'applymatb %s %s %d %s' % (fd, plist(ab), r2, plist(mats.tolist(), lambda M: plist(M, lambda row: plist(row, frac)))),
                   [AB], (lambda AB=AB: f.apply_matrix(AB)))
            if dim_out == 2:
                ang = float(rng.integers(-16, 17)) / 4.0
                op('rotate_2d', 'rotate %s %s %s' % (fd, frac(np.sin(ang)), frac(np.cos(ang))), [],
                   (lambda: f.rotate_2d(ang)))
            # __getitem__: the documented meaning is component selection, i.e. python indexing of range(dim_out);
            # ints (also negative), index lists (also negative entries), slices (open-ended, reversed, stepped)
            comps = list(range(dim_out))
            for I in (int(rng.integers(0, dim_out)), -int(rng.integers(1, dim_out + 1))):
                op('getitem', 'getitem %s %d' % (fd, comps[I]), [], (lambda I=I: f[I]))
            Is = [int(t) for t in rng.integers(-dim_out, dim_out, size=int(rng.integers(1, 4)))]
            op('getitems', 'getitems %s %s' % (fd, plist([comps[i] for i in Is])), [], (lambda Is=Is: f[Is]))
            op('getitems', 'getitems %s %s' % (fd, plist([comps[i] for i in Is])), [], (lambda Is=Is: f[np.array(Is)]))
            slices = [slice(None), slice(None, None, -1), slice(1, None), slice(None, -1), slice(-1, None), slice(None, None, 2),
                      slice(-2, None), slice(0, 1)]
            for k in rng.permutation(len(slices))[:3]:
                sl = slices[int(k)]
                if len(comps[sl]) == 0:
                    continue
                op('getitems', 'getitems %s %s' % (fd, plist(comps[sl])), [], (lambda sl=sl: f[sl]))
        if len(vs) <= 1:
            op('as_vector', 'asvector %s' % fd, [], (lambda: f.as_vector()))
        op('as_nurbs', 'asnurbs %s' % fd, [], (lambda: f.as_nurbs()))
        op('copy', 'copy %s' % fd, [], (lambda: f.copy()))
        if nb:
            op('coeffs_weights', 'cw %s' % fd, [], (lambda: f.coeffs_weights()))
        # boundary by name and by pair
        names = ['left', 'right', 'bottom', 'top', 'front', 'back']
        for _ in range(2):
            if rng.integers(0, 2) == 0:
                bd = str(rng.choice(names)); bdt = bd
            else:
                bd = (int(rng.integers(-1, n + 1)), int(rng.integers(0, 2))); bdt = 'pair %d %d' % bd
            add('bdspec %s %d' % (bdt, n), (lambda bd=bd: '%d %d' % tuple(bspline._parse_bdspec(bd, n))), ('bdspec', bd, n))
            try:
                ax, sd = bspline._parse_bdspec(bd, n)
            except Exception:
                continue
            op('boundary', 'boundary %s %d %d' % (fd, ax, sd), [], (lambda bd=bd: f.boundary(bd)))

    def binop_requests(g1, g2, with_tensor=True):
        d1, d2 = fmt_func(g1), fmt_func(g2)
        for name, tokn, fn in (('outer_sum', 'osum', geometry.outer_sum), ('outer_product', 'oprod', geometry.outer_product),
                               ('tensor_product', 'tprod', geometry.tensor_product)):
            if tokn == 'tprod' and not with_tensor:
                continue
            add('%s %s %s' % (tokn, d1, d2), monitored(name, [g1, g2], (lambda fn=fn: fn(g1, g2))), ('op:' + name, g1, g2))

    for f in funcs:
        n = len(f.kvs)
        nontriv = all(kv.numdofs >= 2 for kv in f.kvs)
        ctx.case((tuple(kv.kv.tobytes() for kv in f.kvs), f.coeffs.tobytes()), nontrivial=nontriv)
        ctx.count('sdim=%d' % n); ctx.count('nurbs' if is_nurbs(f) else 'bspline')
        ctx.count('vshape=%s' % (f.coeffs.shape[n:],))
        for kv in f.kvs:
            ctx.count('degree=%d' % kv.p)
            if len(kv.kv) - 2 * (kv.p + 1) > len(kv.mesh) - 2:
                ctx.count('kv with repeated interior knots')
        attempt('routes', lambda: route_requests(f, 'rand'), f)
        attempt('operations', lambda: op_requests(f), f)
        if len(ctx.samples) < 3 and n == 3:
            ctx.sample({'kvs': [kv.kv.tolist() for kv in f.kvs], 'degrees': [kv.p for kv in f.kvs],
                        'coeff_shape': list(f.coeffs.shape), 'nurbs': is_nurbs(f)})

    # ---- call-history stream: one object, all routes; mutate; all routes again.  After every mutation each route must
    # describe the CURRENT object: the model evaluates a fresh function with the data the object then has.
    def history_requests(f):
        from pyiga import bspline as _b, geometry as _g
        n = len(f.kvs)

        def fresh(C):
            if is_nurbs(f):
                h = _g.NurbsFunc(f.kvs, np.array(C), None, premultiplied=True)
                h._isscalar = f._isscalar
                return h
            return _b.BSplineFunc(f.kvs, np.array(C))
        route_requests(f, 'hist0', with_bd=False)
        # 1. rebind the coefficient array (the idiom disk() uses): g.coeffs = np.flipud(g.coeffs)
        C1 = np.flipud(f.coeffs).copy()
        s1 = fresh(C1)
        def m1():
            f.coeffs = np.flipud(f.coeffs)
            return f
        add('copy %s' % fmt_func(s1), m1, ('hist:rebind', s1))
        route_requests(f, 'hist1', fmt_from=s1, with_bd=False)
        # 2. edit the coefficient array in place
        idx = tuple(int(rng.integers(0, k)) for k in C1.shape[:n])
        delta = 3 if np.issubdtype(C1.dtype, np.integer) else 0.375
        C2 = C1.copy()
        if is_nurbs(f):
            C2[idx][..., :-1] += delta
        else:
            C2[idx] += delta
        s2 = fresh(C2)
        def m2():
            if is_nurbs(f):
                f.coeffs[idx][..., :-1] += delta
            else:
                f.coeffs[idx] += delta
            return f
        add('copy %s' % fmt_func(s2), m2, ('hist:inplace', s2))
        route_requests(f, 'hist2', fmt_from=s2, with_bd=False)
        # 3. restrict the support: the map itself is unchanged
        box = tuple((float(kv.support()[0]), float(kv.support()[0]) + (float(kv.support()[1]) - float(kv.support()[0])) * 0.75) for kv in f.kvs)
        def m3():
            f.support = box
            return f
        add('copy %s' % fmt_func(s2), m3, ('hist:support', s2))
        route_requests(f, 'hist3', fmt_from=s2, with_bd=False)

    def gen_more():
        nhist = 10 if ctx.tier == 'quick' else 80
        for k in range(nhist):
            f = rand_func(rng, int(rng.integers(1, 3)), 'nurbs' if k % 2 == 0 else 'bsp',
                          [(), (2,), (3,)][int(rng.integers(0, 3))], dtype=[np.float64, np.float64, np.int64][int(rng.integers(0, 3))])
            ctx.case(('hist', f.coeffs.tobytes()), True)
            ctx.count('call histories (routes / rebind / in-place edit / support, routes after each)')
            attempt('history', lambda f=f: history_requests(f), f)

        # binary operations: compatible value shapes, total sdim <= 3
        nbin = 60 if ctx.tier == 'quick' else 600
        for _ in range(nbin):
            s1 = int(rng.integers(1, 3)); s2 = int(rng.integers(1, 4 - s1))
            k1 = str(rng.choice(['bsp', 'bsp', 'nurbs'])); k2 = str(rng.choice(['bsp', 'bsp', 'nurbs']))
            m = int(rng.integers(1, 4))
            v1 = (m,) if rng.integers(0, 4) else ()
            v2 = (m,) if rng.integers(0, 4) else ()
            g1 = rand_func(rng, s1, k1, v1); g2 = rand_func(rng, s2, k2, v2)
            ctx.case(('bin', g1.coeffs.tobytes(), g2.coeffs.tobytes()), True)
            attempt('binary operations', lambda: binop_requests(g1, g2), g1, g2)
        # outer operations on value shapes of different rank (numpy broadcasting of the value axes: vector x matrix,
        # matrix x vector, scalar x matrix, and a non-broadcastable pair whose expected answer is the error kind)
        MIXED = [((2,), (2, 2)), ((2, 2), (2,)), ((3,), (2, 3)), ((2, 3), (3,)), ((), (2, 2)), ((3, 2), ()), ((1,), (2, 3)),
                 ((2, 1), (3,)), ((2, 2), (2, 2)), ((3,), (2, 2))]
        nmix = 3 if ctx.tier == 'quick' else 20
        for (v1, v2) in MIXED:
            for _ in range(nmix):
                s1 = int(rng.integers(1, 3)); s2 = int(rng.integers(1, 4 - s1))
                g1 = rand_func(rng, s1, 'bsp', v1); g2 = rand_func(rng, s2, 'bsp', v2)
                ctx.case(('mixed', g1.coeffs.tobytes(), g2.coeffs.tobytes()), True)
                ctx.count('outer ops, value shapes %s x %s' % (v1, v2))
                attempt('binary operations', lambda: binop_requests(g1, g2, with_tensor=False), g1, g2)
        # ---- ComposedFunction: grid_eval = geo2's scattered route at XY = geo1.grid_eval(grd) (the implementation's own doubles are
        # the inputs of the model), grid_jacobian = matmul(jac2, jac1); boundary(bd) = geo2 o geo1.boundary(bd)
        def unit_kvs(k):
            return tuple(bspline.make_knots(int(rng.integers(1, 4)), 0.0, 1.0, int(rng.integers(1, 3))) for _ in range(k))

        ncomp = 14 if ctx.tier == 'quick' else 150
        def one_composed():
            m = int(rng.choice([1, 2, 2, 3]))
            s1 = int(rng.integers(1, 3 if m == 3 else 4))
            g1 = rand_func(rng, s1, str(rng.choice(['bsp', 'bsp', 'nurbs'])), (m,), dtype=np.float64)
            c = g1.coeffs[..., :m] if not is_nurbs(g1) else g1.coeffs_weights()[0]
            lo, hi = float(c.min()), float(c.max())
            g1 = g1.translate(-lo).scale(1.0 / max(hi - lo, 1.0))        # image inside the unit cube
            kv2 = unit_kvs(m)
            N2 = tuple(kv.numdofs for kv in kv2)
            d2 = int(rng.integers(1, 4))
            if rng.integers(0, 3) == 0:
                g2 = geometry.NurbsFunc(kv2, dyadic(rng, N2 + (d2,)), rng.integers(4, 17, size=N2).astype(float) / 8.0)
            else:
                g2 = bspline.BSplineFunc(kv2, dyadic(rng, N2 + (d2,)))
            comp = geometry.ComposedFunction(g2, g1)
            ctx.case(('composed', g1.coeffs.tobytes(), g2.coeffs.tobytes()), True)
            ctx.count('composed functions')

            def comp_requests(comp, inner, grid, tag):
                XY = np.asarray(inner.grid_eval(grid), dtype=float)
                P = [XY[..., e].ravel() for e in range(XY.shape[-1])]
                if any(p.min() < 0.0 or p.max() > 1.0 for p in P):
                    return
                add('compgeval %s %s %s' % (fmt_func(g2), info_table(g2.kvs, P, 0), plist(XY.shape[:-1])),
                    (lambda: comp.grid_eval(grid)), ('compgeval', g2, inner, grid))
                add('compgjac %s %s %s %s' % (fmt_func(inner), info_table(inner.kvs, grid, 1), fmt_func(g2), info_table(g2.kvs, P, 1)),
                    (lambda: comp.grid_jacobian(grid)), ('compgjac', g2, inner, grid))
            grid = tuple(np.array(rand_coord(rng, g1.kvs[i], int(rng.integers(1, 3)))) for i in range(s1))
            comp_requests(comp, g1, grid, 'comp')
            if s1 >= 2:
                bd = (int(rng.integers(0, s1)), int(rng.integers(0, 2)))
                cb = comp.boundary(bd)
                inner = g1.boundary(bd)
                gb = tuple(np.array(rand_coord(rng, inner.kvs[i], int(rng.integers(1, 3)))) for i in range(s1 - 1))
                comp_requests(cb, inner, gb, 'comp-bd')
                # generic boundary restriction of the composition: _BoundaryFunction(comp, bd).grid_eval evaluates comp on the
                # grid with the fixed coordinate inserted at `axis` (zyx) and squeezes that axis
                bf = geometry._BoundaryFunction(comp, bd)
                full = list(gb); full.insert(bd[0], np.array([float(g1.support[bd[0]][bd[1]])]))
                XYb = np.asarray(g1.grid_eval(tuple(full)), dtype=float)
                Pb = [XYb[..., e].ravel() for e in range(XYb.shape[-1])]
                xb = [float(a[0]) for a in reversed(gb)]      # single-point route (xyz order) at the first grid node
                XY1 = np.asarray(g1.grid_eval(tuple(np.array([float(a[0])]) for a in full)), dtype=float)
                P1 = [XY1[..., e].ravel() for e in range(XY1.shape[-1])]
                if all(0.0 <= p.min() and p.max() <= 1.0 for p in P1):
                    add('compgeval %s %s %s' % (fmt_func(g2), info_table(g2.kvs, P1, 0), plist(())),
                        (lambda bf=bf, xb=xb: np.asarray(bf(*xb))), ('compgeval', g2, g1, tuple(np.array([float(a[0])]) for a in full)))
                if all(0.0 <= p.min() and p.max() <= 1.0 for p in Pb):
                    add('compgeval %s %s %s' % (fmt_func(g2), info_table(g2.kvs, Pb, 0), plist(tuple(len(a) for a in gb))),
                        (lambda bf=bf, gb=gb: bf.grid_eval(gb)), ('compgeval', g2, g1, tuple(full)))
        for _ in range(ncomp):
            attempt('composed functions', one_composed)
        # ---- more constructors: unit_cube / unit_square / identity / cylinderize / disk
        for dim in (1, 2, 3):
            for iv in ((1, 2, 3) if dim < 3 else (1, 2)):
                S = np.linspace(0.0, 1.0, iv + 1)
                add('unitcube %d %s' % (dim, plist(S.tolist(), frac)), (lambda dim=dim, iv=iv: geometry.unit_cube(dim=dim, num_intervals=iv)), ('op:unit_cube', dim, iv))
            ext = [(float(rng.integers(-8, 1)) / 4, float(rng.integers(1, 9)) / 4) for _ in range(dim)]
            add('identity %s' % plist(ext, lambda e: '%s %s' % (frac(e[0]), frac(e[1]))), (lambda ext=ext: geometry.identity(ext)), ('op:identity', ext))
        add('unitcube 2 %s' % plist(np.linspace(0.0, 1.0, 3).tolist(), frac), (lambda: geometry.unit_square(2)), ('op:unit_cube', 2, 2))
        for _ in range(6 if ctx.tier == 'quick' else 60):
            f = rand_func(rng, int(rng.integers(1, 3)), 'bsp', [(), (1,), (2,)][int(rng.integers(0, 3))])
            z0, z1 = float(rng.integers(-8, 9)) / 4, float(rng.integers(-8, 9)) / 4
            add('cylinderize %s %s %s' % (fmt_func(f), frac(z0), frac(z1)),
                monitored('cylinderize', [f], (lambda f=f, z0=z0, z1=z1: f.cylinderize(z0, z1, support=(0.25, 1.5)))), ('op:cylinderize', f, [z0, z1]))
        for r in (1.0, 0.75, float(rng.integers(2, 17)) / 4):
            angs = np.linspace(0, np.pi / 2, 3)
            cs = [(np.cos(a), np.sin(a)) for a in angs]
            add('disk %s %s %s %s %s %d' % (plist(cs, lambda p: '%s %s' % (frac(p[0]), frac(p[1]))), frac(np.cos(np.pi / 2 / 2)),
                                            frac(np.sin(-np.pi / 2)), frac(np.cos(-np.pi / 2)), frac(r), 1 if r != 1.0 else 0),
                (lambda r=r: geometry.disk(r)), ('op:disk', r))
        # curve constructors
        ncurve = 40 if ctx.tier == 'quick' else 400
        for _ in range(ncurve):
            d = int(rng.integers(1, 4)); iv = int(rng.integers(1, 5))
            x0 = dyadic(rng, (d,), -8, 9, 4.0); x1 = dyadic(rng, (d,), -8, 9, 4.0)
            S = np.linspace(0.0, 1.0, iv + 1)
            add('lineseg %s %s %s' % (plist(x0.tolist(), frac), plist(x1.tolist(), frac), plist(S.tolist(), frac)),
                monitored('line_segment', [x0, x1], (lambda x0=x0, x1=x1, iv=iv: geometry.line_segment(x0, x1, intervals=iv))), ('op:line_segment', x0, x1, iv))
            r = float(rng.integers(1, 17)) / 4.0
            for npt, fn, lo, hi in ((3, geometry.circular_arc_3pt, 0.05, math.pi - 0.05), (5, geometry.circular_arc_5pt, 0.05, 2 * math.pi),
                                    (7, geometry.circular_arc_7pt, 0.05, 2 * math.pi)):
                alpha = float(rng.uniform(lo, hi))
                angs = np.linspace(0, alpha, npt)
                cs = [(np.cos(a), np.sin(a)) for a in angs]
                w = np.cos(alpha / (npt - 1))
                add('arc %s %s %s' % (plist(cs, lambda p: '%s %s' % (frac(p[0]), frac(p[1]))), frac(w), frac(r)),
                    (lambda fn=fn, alpha=alpha, r=r: fn(alpha, r)), ('op:arc%d' % npt, alpha, r))
            r1 = float(rng.integers(1, 9)) / 4.0; r2 = r1 + float(rng.integers(1, 9)) / 4.0
            add('qannulus %s %s %s' % (frac(r1), frac(r2), frac(1.0 / np.sqrt(2.0))), (lambda r1=r1, r2=r2: geometry.quarter_annulus(r1, r2)),
                ('op:quarter_annulus', r1, r2))
    attempt('histories / binary operations / composed functions / constructors', gen_more)
    for nn in range(0, 6):
        add('hesspairs %d' % nn, None, ('hesspairs', nn))

    # ---- run implementation + model, diff
    lap('generate requests')
    answers = [run_impl(t) if t is not None else None for t in thunks]
    lap('run implementation')
    got = ctx.model('drv_c07', req)
    lap('run model driver')
    ndis = 0
    per_key = {}
    nbad = sum(1 for g in got if g == 'bad-request')
    if nbad:
        from .common import InfraError
        raise InfraError('%d requests rejected by drv_c07 (first: %s)' % (nbad, req[got.index('bad-request')][:300]))
    for r, a, g, m in zip(req, answers, got, meta):
        ctx.count('requests:' + m[0].split(':')[0])
        if m[0] == 'hesspairs':
            left, _, right = g.partition(' ; ')
            n = m[1]
            pairs = [tuple(map(int, t.split(','))) for t in left.split()[1:]]
            want = list(zip(*[x.tolist() for x in np.triu_indices(n)])) if n else []
            if [(n - 1 - i, n - 1 - j) for (i, j) in pairs] != want or left.split()[0] != str(len(want)):
                ndis += 1
                ctx.violation('geo-corr:hesspairs', 'grid_hessian packing order differs from np.triu_indices(%d)' % n,
                              {'model': g, 'numpy': want}, False)
            continue
        loose = 2 ** 29 if (a.f32 or any(hasattr(t, 'coeffs') and np.asarray(t.coeffs).dtype == np.float32 for t in m[1:])) else 1
        d = compare(a, g, loose)
        if d is None:
            continue
        ndis += 1
        per_key[m[0]] = per_key.get(m[0], 0) + 1
        if per_key[m[0]] > 2:        # (the oracle search is run for the first disagreements of every request kind)
            continue
        found = search(ctx, m, d)
        ctx.violation('geo-corr:' + m[0], 'model and implementation disagree on `%s`: %s%s' % (m[0], d, (' — ' + found) if found else ''),
                      {'request': r[:3000], 'implementation': a.short()[:1500], 'model': g[:1500], 'oracle': found, 'case': describe(m),
                       'stream': 'geo (drv_c07)'}, found is not None)
    ctx.obligation('correspondence stream geo: %d requests, implementation within the model-computed bound of the exact model value' % len(req),
                   ndis == 0, '%d disagreements' % ndis)
    ctx.extra['requests'] = len(req)

    lap('compare')
    # ---- defects of the pinned tree that the model reproduces as coded: the property itself fails there
    known_probes(ctx)
    probe_copy_support(ctx)
    probe_hessian_dtype(ctx)
    design_observations(ctx)

    # ---- monitor: no operation altered an argument object
    ctx.obligation('monitor: byte snapshots of all argument objects unchanged over %d operations' % ctx.counters.get('monitored operations', 0),
                   not mutated, 'altered by: ' + ','.join(sorted(set(mutated))))
    for name in sorted(set(mutated)):
        ctx.violation('mutation:' + name, 'operation %s altered one of its argument objects (byte snapshot differs)' % name, {'operation': name}, True)

    # ---- model-free oracle cross-checks (support the search; tests, not proofs)
    try:
        oracle_checks(ctx, funcs)
    except Exception as ex:
        import traceback
        ctx.violation('geo-oracle:exception', 'the model-free cross-checks raised %s: %s (an exception coming out of pyiga on a valid input)'
                      % (type(ex).__name__, str(ex)[:200]), {'traceback': traceback.format_exc()[-2000:]}, True)
    lap('oracle cross-checks')


def known_probes(ctx):
    """defects found by this check (all repaired in /repo, `status: fixed` in known_findings.d/C07.json): each is
    re-probed on every run with its concrete input and reported as a VIOLATION under its key if it ever returns"""
    from pyiga import bspline, geometry
    kv = bspline.make_knots(2, 0.0, 1.0, 2); kv1 = bspline.make_knots(1, 0.0, 1.0, 3)
    # 1. Hessian of a (1,)-vector B-spline function
    f = bspline.BSplineFunc((kv,), np.arange(4.0)).as_vector()
    grid = (np.array([0.25, 0.5]),)
    try:
        H = f.grid_hessian(grid)
        ok = close(np.asarray(H).ravel(), np.array([Oracle(f).hessian((t,)) for t in grid[0]]).ravel(), 100.0)
        if not ok:
            raise ValueError('wrong values')
    except Exception as ex:
        ctx.violation('hessian-1vector', 'BSplineFunc.grid_hessian raises %s for a function whose coefficients have a trailing axis of length 1 '
                      '(e.g. the result of as_vector()), although the Hessian exists' % type(ex).__name__,
                      {'construct': 'BSplineFunc((make_knots(2,0,1,2),), arange(4.)).as_vector().grid_hessian((array([.25,.5]),))', 'error': str(ex)[:200]}, True)
    # 2. outer_sum / outer_product of a scalar and a vector BSplineFunc (documented as permissible)
    sfun = bspline.BSplineFunc((kv,), np.arange(4.0)); vfun = bspline.BSplineFunc((kv1,), np.arange(8.0).reshape(4, 2))
    for fn in (geometry.outer_sum, geometry.outer_product):
        for a, b in ((sfun, vfun), (vfun, sfun)):
            try:
                G = fn(a, b)
                d = oracle_operation(('op:' + fn.__name__, a, b), np.random.default_rng(5))
                if d:
                    raise ValueError(d)
            except Exception as ex:
                ctx.violation('outer-scalar-vector', '%s of a scalar-valued and a vector-valued BSplineFunc raises %s although the documentation allows '
                              'broadcasting a scalar against a vector function' % (fn.__name__, type(ex).__name__),
                              {'construct': '%s(BSplineFunc(kv_p2, arange(4.)), BSplineFunc(kv_p1, arange(8.).reshape(4,2))) (either order)' % fn.__name__,
                               'error': str(ex)[:200]}, True)
    # 3. end point of a vector-valued curve
    for c, what in ((bspline.BSplineFunc((kv,), np.arange(8.0).reshape(4, 2)), 'BSplineFunc curve with values in R^2'),
                    (geometry.circular_arc(1.0), 'circular_arc(1.0) (NurbsFunc curve)')):
        for bd in ('left', 'right'):
            try:
                b = c.boundary(bd)
                want = Oracle(c).value((float(c.kvs[0].support()[0 if bd == 'left' else 1]),))
                got = np.asarray(b.coeffs, dtype=float)
                if is_nurbs(c):
                    got = got[:-1] / got[-1]
                if not close(got, want, 10.0):
                    raise ValueError('wrong end point')
            except Exception as ex:
                ctx.violation('boundary-curve-endpoint', "boundary('%s') of a %s raises %s (a 1-D coefficient array is taken for a coefficient vector "
                              'of a tensor-product basis)' % (bd, what, type(ex).__name__), {'curve': what, 'bdspec': bd, 'error': str(ex)[:200]}, True)
    # 4. copy()/boundary() of a scalar NURBS function are not scalar
    nf = geometry.NurbsFunc((kv, kv), np.arange(16.0).reshape(4, 4), np.ones((4, 4)))
    g = (np.array([0.5]), np.array([0.25, 0.75]))
    for what, h, gg in (('copy()', nf.copy(), g), ("boundary('left')", nf.boundary('left'), g[:1])):
        ref = nf.grid_eval(g)
        if h.output_shape() != nf.output_shape() or h.grid_eval(gg).ndim != len(gg):
            ctx.violation('nurbs-scalar-flag-lost', 'NurbsFunc.%s of a scalar-valued NURBS function is (1,)-vector-valued: output_shape %s instead of %s, '
                          'grid_eval has an extra axis' % (what, h.output_shape(), nf.output_shape()),
                          {'construct': 'NurbsFunc((kv,kv), arange(16.).reshape(4,4), ones((4,4))).' + what, 'output_shape': list(h.output_shape())}, True)


def probe_hessian_dtype(ctx):
    """grid_hessian allocates its result with the dtype of the coefficient array"""
    from pyiga import bspline, geometry
    kv = bspline.make_knots(2, 0.0, 1.0, 2)
    C = (np.arange(16).reshape(4, 4) * 3 % 7)
    grid = (np.array([0.3, 0.6]), np.array([0.2]))
    for dt in (np.int64, np.int32, np.float32):
        for what, mk in (('BSplineFunc', lambda d: bspline.BSplineFunc((kv, kv), C.astype(d))),
                         ('NurbsFunc', lambda d: geometry.NurbsFunc((kv, kv), C.astype(d), (C % 3 + 1).astype(d)))):
            f = mk(dt)
            H = np.asarray(f.grid_hessian(grid), dtype=float)
            O = Oracle(f)
            want = np.array([[O.hessian((float(grid[1][j]), float(grid[0][i]))) for j in range(1)] for i in range(2)], dtype=float)
            err = float(np.abs(H - want).max())
            if err > 1e-9 * (1 + np.abs(want).max()):
                ctx.violation('hessian-coeff-dtype', '%s.grid_hessian with %s coefficients is off by %.3g: the result array is allocated with the dtype of '
                              'the coefficients (values truncated to integers / rounded to single precision), while grid_eval and grid_jacobian are exact'
                              % (what, np.dtype(dt).name, err),
                              {'construct': '%s((kv,kv), (arange(16).reshape(4,4)*3 %% 7).astype(%s)...).grid_hessian(([.3,.6],[.2]))' % (what, np.dtype(dt).name),
                               'got': H.ravel().tolist()[:6], 'expected': want.ravel().tolist()[:6]}, True)
                break


def probe_copy_support(ctx):
    from pyiga import geometry
    for mk, what in ((geometry.unit_square, 'unit_square()'), (geometry.quarter_annulus, 'quarter_annulus()')):
        g = mk()
        supp = ((0.25, 0.5), (0.0, 1.0))
        g.support = supp
        got = tuple(tuple(float(t) for t in s) for s in g.copy().support)
        if got != supp:
            ctx.violation('copy-drops-support', '%s with support restricted to %s: copy().support = %s (the copy is defined on the full domain again)'
                          % (what, supp, got), {'construct': 'g = %s; g.support = %s; g.copy().support' % (what, supp), 'got': got}, True)


def design_observations(ctx):
    """Behaviours recorded as observations only (coordinator decision: by design / interpretive, NOT violations of C07
    and not findings): a ComposedFunction is a view on geo1, so its `support` setter writes through to geo1; unary
    operations of a support-restricted function return a function on the full knot-vector domain; translate/scale of
    a scalar-valued NURBS return a (1,)-vector-valued NURBS with the same values.  Counted in the evidence, never
    reported."""
    from pyiga import geometry, bspline
    box = ((0.25, 0.5), (0.5, 1.0))
    norm = lambda supp: tuple(tuple(float(t) for t in s) for s in supp)
    try:
        geo1 = geometry.unit_square()
        comp = geometry.ComposedFunction(geometry.quarter_annulus(), geo1)
        comp.support = box
        ctx.count('observation: ComposedFunction.support setter writes through to geo1', int(norm(geo1.support) == box))
        kv = bspline.make_knots(2, 0.0, 1.0, 2)
        nf = geometry.NurbsFunc((kv, kv), np.arange(16.0).reshape(4, 4), np.ones((4, 4)))
        ctx.count('observation: translate/scale of a scalar NURBS is (1,)-vector-valued',
                  int(nf.translate(1.0).output_shape() == (1,)) + int(nf.scale(2.0).output_shape() == (1,)))
        g = geometry.unit_square(); g.support = box
        ctx.count('observation: unary operations of a support-restricted function return full-support functions',
                  sum(int(norm(h.support) != box) for h in (g.translate((1.0, 0.0)), g.scale(2.0), g.as_nurbs(), g[0])))
    except Exception as ex:
        ctx.notes.append('design_observations raised %s' % type(ex).__name__)


def describe(m):
    out = {'kind': m[0]}
    for x in m[1:]:
        if hasattr(x, 'kvs'):
            out.setdefault('functions', []).append({'class': type(x).__name__, 'kvs': [kv.kv.tolist() for kv in x.kvs], 'degrees': [kv.p for kv in x.kvs],
                                                    'coeffs': np.asarray(x.coeffs).tolist()})
        elif isinstance(x, (tuple, list)) and x and isinstance(x[0], np.ndarray):
            out['arrays'] = [np.asarray(t).tolist() for t in x]
        elif isinstance(x, np.ndarray):
            out.setdefault('args', []).append(x.tolist())
        else:
            out.setdefault('args', []).append(x)
    return out


def search(ctx, m, why):
    """model-free search for an input on which the property itself fails, starting from the disagreeing case"""
    from pyiga import bspline, geometry
    kind = m[0]
    try:
        if kind in ('call', 'geval', 'gjac', 'ghess', 'pweval', 'pwjac', 'pwevaljac', 'bdcall', 'bdgeval', 'bdgjac'):
            f = m[1]
            n = len(f.kvs)
            rng = np.random.default_rng(12345)
            pts = [tuple(rand_coord(rng, f.kvs[n - 1 - e], 1)[0] for e in range(n)) for _ in range(3)]
            grid = tuple(np.array(rand_coord(rng, f.kvs[i], 2)) for i in range(n))
            if kind in ('geval', 'gjac', 'ghess'):
                grid = m[2]
            if kind in ('pweval', 'pwjac', 'pwevaljac'):
                P = [np.asarray(p).ravel() for p in m[2]]
                pts = [tuple(float(P[e][k]) for e in range(n)) for k in range(len(P[0]))] + pts
            if kind == 'call':
                pts = [tuple(m[2])] + pts
            if kind.startswith('bd'):
                d = oracle_boundary_function(f, m[2], rng)
                if d:
                    return d
            return oracle_routes(f, pts, grid)
        if kind in ('compgeval', 'compgjac'):
            return oracle_composed(m[1], m[2], m[3])
        if kind in ('op:unit_cube', 'op:identity', 'op:cylinderize', 'op:disk'):
            return oracle_constructor(m, np.random.default_rng(54321))
        if kind.startswith('op:'):
            return oracle_operation(m, np.random.default_rng(54321))
        if kind == 'bdspec':
            return oracle_bdspec(m[1], m[2])
    except Exception as ex:
        return 'implementation raised %s: %s' % (type(ex).__name__, str(ex)[:200])
    return None


def oracle_bdspec(bd, n):
    from pyiga import bspline
    table = {'left': (n - 1, 0), 'right': (n - 1, 1), 'bottom': (n - 2, 0), 'top': (n - 2, 1), 'front': (n - 3, 0), 'back': (n - 3, 1)}
    want = table.get(bd, bd)
    ok = len(want) == 2 and want[1] in (0, 1) and 0 <= want[0] < n
    try:
        got = tuple(bspline._parse_bdspec(bd, n))
    except ValueError:
        return None if not ok else '_parse_bdspec(%r, %d) raised ValueError for a valid side' % (bd, n)
    if not ok or tuple(got) != tuple(want):
        return '_parse_bdspec(%r, %d) = %r, documented side table gives %r' % (bd, n, got, want if ok else 'ValueError')
    return None


def oracle_boundary_function(f, bd, rng, bf=None):
    """_BoundaryFunction(f, bd) equals f with the coordinate of `axis` fixed at the end of the support"""
    from pyiga import geometry
    n = len(f.kvs)
    axis, side = bd
    if bf is None:
        bf = geometry._BoundaryFunction(f, bd)
    O = Oracle(f)
    fixed = float(f.support[axis][side])
    rest = [i for i in range(n) if i != axis]

    def coord(i):
        lo, hi = [float(t) for t in f.support[i]]
        return lo + (hi - lo) * float(rng.integers(0, 9)) / 8.0
    for _ in range(3):
        xb = [coord(i) for i in reversed(rest)]      # xyz order of the boundary function
        full_zyx = [None] * n
        for i, t in zip(rest, reversed(xb)):
            full_zyx[i] = t
        full_zyx[axis] = fixed
        x = tuple(reversed(full_zyx))
        sc = O.mag(x, 1)
        if not close(np.asarray(bf(*xb)), O.value(x), sc):
            return '_BoundaryFunction%s(%s) = %s differs from f%s = %s' % (bd, xb, np.asarray(bf(*xb)).tolist(), x, O.value(x).tolist())
        gb = tuple(np.array([full_zyx[i]]) for i in rest)
        if not close(bf.grid_eval(gb)[(0,) * (n - 1)], O.value(x), sc):
            return '_BoundaryFunction%s.grid_eval at %s differs from f%s' % (bd, [g.tolist() for g in gb], x)
        J = O.jacobian(x)
        col = n - 1 - axis
        Jt = np.concatenate((J[..., :col], J[..., col + 1:]), axis=-1)
        if not close(bf.grid_jacobian(gb)[(0,) * (n - 1)], Jt, sc):
            return '_BoundaryFunction%s.grid_jacobian at %s differs from the tangential derivatives of f at %s' % (bd, [g.tolist() for g in gb], x)
    return None


def oracle_support_restriction(f, rng):
    """support restriction: `f.support = box` keeps the map, reports the box, and boundary(bdspec) becomes the
    restriction to the face of the *box* (a _BoundaryFunction), with the named-side table"""
    from pyiga import geometry, bspline
    n = len(f.kvs)
    g = f.copy()
    box = []
    for kv in f.kvs:
        lo, hi = [float(t) for t in kv.support()]
        a = int(rng.integers(0, 8)); b = int(rng.integers(a + 1, 9))
        box.append((lo + (hi - lo) * a / 8.0, lo + (hi - lo) * b / 8.0))
    box = tuple(box)
    g.support = box
    if tuple(tuple(float(t) for t in s) for s in g.support) != box:
        return 'support setter: support reads %s after setting %s' % (g.support, box)
    names = ['left', 'right', 'bottom', 'top', 'front', 'back'][:2 * n]
    for name in names:
        bd = bspline._parse_bdspec(name, n)
        bf = g.boundary(name)
        if not isinstance(bf, geometry._BoundaryFunction):
            return 'boundary(%r) of a support-restricted function is a %s' % (name, type(bf).__name__)
        if tuple(tuple(float(t) for t in s) for s in bf.support) != box[:bd[0]] + box[bd[0] + 1:]:
            return 'boundary(%r).support = %s for box %s' % (name, bf.support, box)
        d = oracle_boundary_function(g, bd, rng, bf=bf)
        if d:
            return 'support %s, boundary(%r): %s' % (box, name, d)
    return None


def oracle_operation(m, rng):
    """the law of one operation, on the implementation, by exact evaluation of argument and result"""
    from pyiga import bspline, geometry
    name = m[0][3:]
    if name in ('line_segment',):
        x0, x1, iv = m[1], m[2], m[3]
        g = geometry.line_segment(x0, x1, intervals=iv)
        O = Oracle(g)
        for t in (0.0, 0.25, 0.5, 0.8125, 1.0):
            want = (1 - t) * x0 + t * x1
            if not close(O.value((t,)), want, 1.0 + np.abs(want).max()):
                return 'line_segment(%s,%s,intervals=%d)(%s) = %s, expected %s' % (x0.tolist(), x1.tolist(), iv, t, O.value((t,)).tolist(), want.tolist())
        return None
    if name.startswith('arc'):
        npt, alpha, r = int(name[3:]), m[1], m[2]
        fn = {3: geometry.circular_arc_3pt, 5: geometry.circular_arc_5pt, 7: geometry.circular_arc_7pt}[npt]
        return oracle_circle(fn(alpha, r), r, alpha, 'circular_arc_%dpt(%r, %r)' % (npt, alpha, r))
    if name == 'quarter_annulus':
        return oracle_quarter_annulus(m[1], m[2])
    if name in ('outer_sum', 'outer_product', 'tensor_product'):
        g1, g2 = m[1], m[2]
        fn = getattr(geometry, name)
        G = fn(g1, g2)
        O, O1, O2 = Oracle(G), Oracle(g1), Oracle(g2)
        n1, n2 = len(g1.kvs), len(g2.kvs)
        for _ in range(4):
            y = [rand_coord(rng, g1.kvs[n1 - 1 - e], 1)[0] for e in range(n1)]       # arguments of G1 (xyz)
            x = [rand_coord(rng, g2.kvs[n2 - 1 - e], 1)[0] for e in range(n2)]       # arguments of G2 (xyz)
            a = np.atleast_1d(O1.value(y)); b = np.atleast_1d(O2.value(x))
            want = {'outer_sum': lambda: a + b, 'outer_product': lambda: a * b, 'tensor_product': lambda: np.concatenate((b, a))}[name]()
            got = np.atleast_1d(O.value(tuple(x) + tuple(y)))
            sc = O.mag(tuple(x) + tuple(y), 0) + O1.mag(y, 0) * O2.mag(x, 0)
            if not close(got.ravel(), np.asarray(want).ravel(), sc):
                return '%s(G1,G2)(x=%s, y=%s) = %s, documented G1(y) ∘ G2(x) gives %s' % (name, x, y, got.tolist(), np.asarray(want).tolist())
        return None
    f = m[1]
    line = None
    return oracle_unary(name, f, rng)


def oracle_unary(name, f, rng):
    from pyiga import bspline, geometry
    n = len(f.kvs)
    O = Oracle(f)
    nb = is_nurbs(f)
    vs = f.coeffs.shape[n:]
    dim_out = (vs[-1] - 1) if nb else (vs[-1] if vs else 1)
    pts = [tuple(rand_coord(rng, f.kvs[n - 1 - e], 1)[0] for e in range(n)) for _ in range(3)]

    def same(g, law, what):
        Og = Oracle(g)
        for x in pts:
            want = law(O.value(x))
            got = Og.value(x)
            sc = (O.mag(x, 0) + Og.mag(x, 0)) * 8
            if not close(np.asarray(got).ravel(), np.asarray(want).ravel(), sc):
                return '%s: result%s = %s, expected %s' % (what, x, np.asarray(got).tolist(), np.asarray(want).tolist())
        return None
    if name in ('translate', 'scale'):
        for arg in (0.75, -1.5, (np.arange(dim_out) - 0.5) if vs else 2.0):
            g = getattr(f, name)(arg)
            d = same(g, (lambda v: v + arg) if name == 'translate' else (lambda v: v * arg), '%s(%s)' % (name, np.asarray(arg).tolist()))
            if d: return d
        return None
    if name == 'apply_matrix[array]':
        N = tuple(kv.numdofs for kv in f.kvs)
        for ab in (N, N[1:], (1,) * n, tuple(1 if i % 2 else k for i, k in enumerate(N))):
            AB = (np.arange(int(np.prod(ab, dtype=int)) * 2 * dim_out).reshape(tuple(ab) + (2, dim_out)) % 7 - 3) / 2.0
            g = f.apply_matrix(AB)
            Ab = np.broadcast_to(AB, N + (2, dim_out))
            if nb:
                C, W = f.coeffs_weights()
                got = g.coeffs[..., :-1] / g.coeffs[..., -1:]
            else:
                C = f.coeffs; got = g.coeffs
            want = np.empty(N + (2,))
            for I in np.ndindex(*N):
                want[I] = Ab[I].dot(C[I])
            if np.shape(got) != want.shape or not np.allclose(got, want, rtol=1e-12, atol=1e-12):
                return ('apply_matrix(A) with A of shape %s (one matrix per control point): control points of the result have shape %s, '
                        'expected A[I].c[I] of shape %s; first mismatch %s vs %s'
                        % (AB.shape, np.shape(got), want.shape, np.asarray(got).ravel()[:4].tolist(), want.ravel()[:4].tolist()))
        return None
    if name in ('apply_matrix', 'rotate_2d'):
        if name == 'rotate_2d':
            ang = 0.625
            A = np.array([[math.cos(ang), -math.sin(ang)], [math.sin(ang), math.cos(ang)]])
            return same(f.rotate_2d(ang), lambda v: A.dot(v), 'rotate_2d(%r)' % ang)
        A = (np.arange(2 * dim_out).reshape(2, dim_out) - 1.5) / 2
        return same(f.apply_matrix(A), lambda v: A.dot(v), 'apply_matrix(%s)' % A.tolist())
    if name in ('getitem', 'getitems'):
        for I in range(dim_out):
            d = same(f[I], lambda v: np.asarray(v)[..., I], '__getitem__(%d)' % I)
            if d: return d
        for I in range(-dim_out, 0):
            d = same(f[I], lambda v: np.asarray(v)[..., I], '__getitem__(%d)' % I)
            if d: return d
        forms = [list(range(dim_out))[::-1], [-1] + list(range(dim_out)), np.array([-1, 0]), slice(None), slice(None, None, -1),
                 slice(1, None) if dim_out > 1 else slice(None), slice(-1, None), slice(None, None, 2)]
        for I in forms:
            d = same(f[I], lambda v: np.asarray(v)[..., I], '__getitem__(%r)' % (I,))
            if d: return d
        return None
    if name in ('as_vector', 'as_nurbs', 'copy'):
        g = {'as_vector': f.as_vector, 'as_nurbs': f.as_nurbs, 'copy': f.copy}[name]()
        return same(g, lambda v: v, name)
    if name == 'coeffs_weights':
        C, W = f.coeffs_weights()
        g = geometry.NurbsFunc(f.kvs, C.copy(), W.copy())
        return same(g, lambda v: v, 'NurbsFunc(kvs, *coeffs_weights())')
    if name == 'boundary':
        for axis in range(n):
            for side in (0, 1):
                g = f.boundary((axis, side))
                Og = Oracle(g)
                rest = [i for i in range(n) if i != axis]
                fixed = float(f.kvs[axis].support()[side])
                for _ in range(2):
                    zyx = [rand_coord(rng, f.kvs[i], 1)[0] for i in range(n)]
                    zyx[axis] = fixed
                    x = tuple(reversed(zyx))
                    xb = tuple(reversed([zyx[i] for i in rest]))
                    got = Og.value(xb) if rest else np.asarray(Og.C, dtype=float)
                    if n == 1:
                        got = np.asarray(g.coeffs, dtype=float)
                        if nb:
                            got = got[..., :-1] / got[..., -1:]
                            if f._isscalar: got = got[..., 0]
                    want = O.value(x)
                    if not close(np.asarray(got).ravel(), np.asarray(want).ravel(), O.mag(x, 0) * 8):
                        return 'boundary((%d,%d))%s = %s differs from the restriction f%s = %s' % (axis, side, xb, np.asarray(got).tolist(), x, np.asarray(want).tolist())
        return None
    return None


def oracle_circle(g, r, alpha, what, nt=33):
    """x²+y² = r² at many parameters (exact rational evaluation of the NURBS from its coefficient arrays),
    end points at angle 0 and alpha, angle increasing"""
    O = Oracle(g)
    lo, hi = [float(t) for t in g.kvs[0].support()]
    prev = -1.0
    for k in range(nt + 1):
        t = lo + (hi - lo) * k / nt
        V, _, _ = O.jet((t,), 0)
        x, y = V[0], V[1]
        dev = abs(x * x + y * y - Fraction(float(r)) ** 2)
        if dev > Fraction(64 * U) * Fraction(float(r)) ** 2:
            return '%s: |G(%r)|^2 - r^2 = %.3g (more than 64 ulp of r^2)' % (what, t, float(dev))
        ang = math.atan2(float(y), float(x)) % (2 * math.pi)
        if k == nt and alpha > 6.28:
            ang = 2 * math.pi if ang < 1.0 else ang
        if ang < prev - 1e-12:
            return '%s: angle not increasing at t=%r' % (what, t)
        prev = ang
    a0 = O.value((lo,)); a1 = O.value((hi,))
    if not (abs(a0[0] - r) <= 4 * U * r and abs(a0[1]) <= 4 * U * r):
        return '%s: start point %s is not (r, 0)' % (what, a0.tolist())
    if not (abs(a1[0] - r * math.cos(alpha)) <= 8 * U * r and abs(a1[1] - r * math.sin(alpha)) <= 8 * U * r):
        return '%s: end point %s is not r(cos alpha, sin alpha) = %s' % (what, a1.tolist(), [r * math.cos(alpha), r * math.sin(alpha)])
    return None


def oracle_quarter_annulus(r1, r2):
    from pyiga import geometry
    g = geometry.quarter_annulus(r1, r2)
    O = Oracle(g)
    for i in range(9):
        for j in range(9):
            x, y = i / 8.0, j / 8.0
            V, _, _ = O.jet((x, y), 0)
            R = Fraction(r1) + (Fraction(r2) - Fraction(r1)) * Fraction(x)
            dev = abs(V[0] ** 2 + V[1] ** 2 - R * R)
            if dev > Fraction(64 * U) * R * R:
                return 'quarter_annulus(%r,%r): |G(%r,%r)|^2 - (r1+(r2-r1)x)^2 = %.3g' % (r1, r2, x, y, float(dev))
            if V[0] < 0 or V[1] < 0:
                return 'quarter_annulus(%r,%r): G(%r,%r) not in the first quadrant' % (r1, r2, x, y)
    b = O.value((0.5, 0.0)); t = O.value((0.5, 1.0))
    if abs(b[1]) > 4 * U * r2 or abs(t[0]) > 4 * U * r2:
        return 'quarter_annulus: bottom/top boundaries do not lie on the x / y axis'
    return None


def oracle_rescaling(g, sc, rng):
    """reparametrisation invariance (model-free): g lives on knot vectors scaled by 2^sc; the same coefficients on the unscaled
    knot vectors give the same values at the unscaled points, Jacobians scale by 2^-sc, Hessians by 2^-2sc (power-of-two scalings
    commute with every floating-point operation of the evaluation, so agreement is expected to the last bits)"""
    from pyiga import bspline, geometry
    n = len(g.kvs)
    kv0 = tuple(bspline.KnotVector(kv.kv * 2.0 ** (-sc), kv.p) for kv in g.kvs)
    if is_nurbs(g):
        twin = geometry.NurbsFunc(kv0, g.coeffs.copy(), None, premultiplied=True)
        twin._isscalar = g._isscalar
    else:
        twin = bspline.BSplineFunc(kv0, g.coeffs.copy())
    S = 2.0 ** sc

    def same(a, b, what):
        a = np.asarray(a, dtype=float); b = np.asarray(b, dtype=float)
        if a.shape != b.shape or not np.allclose(a, b, rtol=1e-11, atol=1e-13 * (1.0 + np.abs(b).max())):
            return '%s on the domain scaled by 2^%d = %s, on the unscaled domain = %s' % (what, sc, a.ravel()[:6].tolist(), b.ravel()[:6].tolist())
        return None
    for _ in range(2):
        grid = tuple(np.array(rand_coord(rng, g.kvs[i], 3)) for i in range(n))
        grid0 = tuple(a / S for a in grid)
        d = same(g.grid_eval(grid), twin.grid_eval(grid0), 'grid_eval at %s' % [a.tolist() for a in grid]) \
            or same(np.asarray(g.grid_jacobian(grid)) * S, twin.grid_jacobian(grid0), 'grid_jacobian * 2^sc')
        if d: return d
        if g.coeffs.ndim - n <= 1:
            d = same(np.asarray(g.grid_hessian(grid)) * S * S, twin.grid_hessian(grid0), 'grid_hessian * 4^sc')
            if d: return d
        P = tuple(np.array(rand_coord(rng, g.kvs[n - 1 - e], 4)) for e in range(n))
        P0 = tuple(a / S for a in P)
        d = same(g.pointwise_eval(P), twin.pointwise_eval(P0), 'pointwise_eval at %s' % [a.tolist() for a in P]) \
            or same(np.asarray(g.pointwise_jacobian(P)) * S, twin.pointwise_jacobian(P0), 'pointwise_jacobian * 2^sc')
        if d: return d
        x = tuple(float(a[0]) for a in P)
        d = same(g(*x), twin(*[t / S for t in x]), '__call__%s' % (x,))
        if d: return d
    return None


def oracle_checks(ctx, funcs):
    from pyiga import bspline, geometry, utils
    rng = np.random.default_rng(ctx.seed + 1007)
    nor = 35 if ctx.tier == 'quick' else 300
    count = 0

    def report(key, d, replay):
        ctx.violation(key, d, replay, True)

    def safe(fn, *a, **kw):
        """an exception raised by pyiga (or by the exact evaluation of an object it returned) is a finding, not a crash"""
        try:
            return fn(*a, **kw)
        except Exception as ex:
            return '%s raised %s: %s' % (getattr(fn, '__name__', 'oracle'), type(ex).__name__, str(ex)[:200])
    # maps on rescaled parameter domains: every one against the exact definition and against its unscaled twin
    for f in [g for g in funcs if hasattr(g, '_verif_scale')]:
        n = len(f.kvs)
        pts = [tuple(rand_coord(rng, f.kvs[n - 1 - e], 1)[0] for e in range(n)) for _ in range(3)]
        grid = tuple(np.array(rand_coord(rng, f.kvs[k], 2 if (k == 0 or n < 3) else 1)) for k in range(n))
        for d in (oracle_routes(f, pts, grid), safe(oracle_rescaling, f, f._verif_scale, rng)):
            count += 1
            if d:
                report('geo-oracle:rescaled-domain', 'parameter domain scaled by 2^%d: %s' % (f._verif_scale, d), describe(('rescaled', f, pts, grid)))
    idx = rng.permutation(len(funcs))[:nor]
    for i in idx:
        f = funcs[i]
        n = len(f.kvs)
        pts = [tuple(rand_coord(rng, f.kvs[n - 1 - e], 1)[0] for e in range(n)) for _ in range(2)]
        grid = tuple(np.array(rand_coord(rng, f.kvs[k], 2 if (k == 0 or n < 3) else 1)) for k in range(n))
        d = oracle_routes(f, pts, grid)
        count += 1
        if d:
            report('geo-oracle:routes', d, describe(('routes', f, pts, grid)))
        if n >= 2 and f.coeffs.ndim - n <= 1:
            bd = (int(rng.integers(0, n)), int(rng.integers(0, 2)))
            d = safe(oracle_boundary_function, f, bd, rng)
            count += 1
            if d:
                report('geo-oracle:boundary-function', d, describe(('bdfun', f, bd)))
            d = safe(oracle_support_restriction, f, rng)
            count += 1
            if d:
                report('geo-oracle:support-restriction', d, describe(('support', f)))
    # operations (laws) on a sample
    for i in rng.permutation(len(funcs))[:nor]:
        f = funcs[i]
        n = len(f.kvs)
        vs = f.coeffs.shape[n:]
        if len(vs) > 1:
            continue
        names = ['translate', 'scale', 'as_nurbs', 'copy', 'boundary', 'as_vector']
        if len(vs) == 1 and not (is_nurbs(f) and f._isscalar):
            names += ['apply_matrix', 'apply_matrix[array]', 'getitem']
            if ((vs[0] - 1) if is_nurbs(f) else vs[0]) == 2:
                names.append('rotate_2d')
        if is_nurbs(f):
            names.append('coeffs_weights')
        for name in names:
            try:
                d = oracle_unary(name, f, rng)
            except Exception as ex:
                d = '%s raised %s: %s' % (name, type(ex).__name__, str(ex)[:200])
            count += 1
            if d:
                report('geo-oracle:' + name, d, describe(('op:' + name, f)))
    for _ in range(nor):
        s1 = int(rng.integers(1, 3)); s2 = int(rng.integers(1, 4 - s1))
        m = int(rng.integers(1, 4))
        g1 = rand_func(rng, s1, str(rng.choice(['bsp', 'nurbs'])), (m,) if rng.integers(0, 3) else ())
        g2 = rand_func(rng, s2, str(rng.choice(['bsp', 'nurbs'])), (m,) if rng.integers(0, 3) else ())
        for name in ('outer_sum', 'outer_product', 'tensor_product'):
            try:
                d = oracle_operation(('op:' + name, g1, g2), rng)
            except Exception as ex:
                d = '%s raised %s: %s' % (name, type(ex).__name__, str(ex)[:200])
            count += 1
            if d:
                report('geo-oracle:' + name, d, describe(('op:' + name, g1, g2)))
    for (v1, v2) in [((2,), (2, 2)), ((2, 2), (2,)), ((3,), (2, 3)), ((2, 3), (3,)), ((), (2, 2)), ((2, 1), (3,))]:
        for _ in range(2 if ctx.tier == 'quick' else 12):
            s1 = int(rng.integers(1, 3)); s2 = int(rng.integers(1, 4 - s1))
            g1 = rand_func(rng, s1, 'bsp', v1); g2 = rand_func(rng, s2, 'bsp', v2)
            for name in ('outer_sum', 'outer_product'):
                try:
                    d = oracle_operation(('op:' + name, g1, g2), rng)
                except Exception as ex:
                    d = '%s raised %s: %s' % (name, type(ex).__name__, str(ex)[:200])
                count += 1
                if d:
                    report('geo-oracle:' + name, 'value shapes %s x %s: %s' % (v1, v2, d), describe(('op:' + name, g1, g2)))
    # cylinderize / unit_cube / identity (a modified tree must not crash the oracle: exceptions are findings)
    def guarded(m):
        try:
            return oracle_constructor(m, rng)
        except Exception as ex:
            return '%s: oracle evaluation raised %s: %s' % (m[0][3:], type(ex).__name__, str(ex)[:160])
    for _ in range(max(3, nor // 5)):
        f = rand_func(rng, int(rng.integers(1, 3)), 'bsp', (int(rng.integers(1, 3)),))
        z0, z1 = float(rng.integers(-8, 9)) / 4, float(rng.integers(-8, 9)) / 4
        d = guarded(('op:cylinderize', f, [z0, z1]))
        count += 3
        if d:
            report('geo-oracle:cylinderize', d, describe(('op:cylinderize', f, [z0, z1])))
    for dim in (1, 2, 3):
        iv = int(rng.integers(1, 4))
        ext = [(float(rng.integers(-4, 1)) / 4, float(rng.integers(1, 5)) / 4) for _ in range(dim)]
        for m in (('op:unit_cube', dim, iv), ('op:identity', ext)):
            d = guarded(m)
            count += 4
            if d:
                report('geo-oracle:' + m[0][3:], d, {'args': list(m[1:])})
    # circles (model-free; arcs cannot be handed to the library with exact angles)
    ncirc = 12 if ctx.tier == 'quick' else 150
    for _ in range(ncirc):
        r = float(rng.uniform(0.1, 8.0))
        cases = [(geometry.circular_arc_3pt, float(rng.uniform(0.01, math.pi - 0.01))), (geometry.circular_arc_5pt, float(rng.uniform(0.01, 2 * math.pi))),
                 (geometry.circular_arc_7pt, float(rng.uniform(0.01, 2 * math.pi))), (geometry.circular_arc, float(rng.uniform(0.01, 2 * math.pi)))]
        for fn, alpha in cases:
            d = safe(lambda: oracle_circle(fn(alpha, r), r, alpha, '%s(%r, %r)' % (fn.__name__, alpha, r), nt=17))
            count += 1
            if d:
                report('geo-oracle:' + fn.__name__, d, {'alpha': alpha, 'r': r})
        d = safe(lambda: oracle_circle(geometry.circle(r), r, 2 * math.pi, 'circle(%r)' % r, nt=24) or
                 oracle_circle(geometry.semicircle(r), r, math.pi, 'semicircle(%r)' % r, nt=16))
        count += 2
        if d:
            report('geo-oracle:circle', d, {'r': r})
        r1 = float(rng.uniform(0.1, 2.0)); r2 = r1 + float(rng.uniform(0.1, 2.0))
        d = safe(oracle_quarter_annulus, r1, r2)
        count += 1
        if d:
            report('geo-oracle:quarter_annulus', d, {'r1': r1, 'r2': r2})
        # disk: the four sides lie on the circle of radius r, interior inside
        D = geometry.disk(r)
        OD = Oracle(D)
        for k in range(9):
            t = k / 8.0
            for x in ((t, 0.0), (t, 1.0), (0.0, t), (1.0, t)):
                V, _, _ = OD.jet(x, 0)
                dev = abs(V[0] ** 2 + V[1] ** 2 - Fraction(r) ** 2)
                count += 1
                if dev > Fraction(64 * U) * Fraction(r) ** 2:
                    report('geo-oracle:disk', 'disk(%r): boundary point G%s has |G|^2 - r^2 = %.3g' % (r, x, float(dev)), {'r': r, 'x': x})
            V, _, _ = OD.jet((t, 0.5), 0)
            if V[0] ** 2 + V[1] ** 2 > Fraction(r) ** 2 * (1 + Fraction(64 * U)):
                report('geo-oracle:disk', 'disk(%r): interior point outside the circle' % r, {'r': r, 'x': (t, 0.5)})
    # UserFunction / utils.grid_eval: axes reversed (zyx grid, xyz arguments)
    def poly(x, y, z=0.0):
        return x + 2 * y * y - 3 * z * x
    uf = geometry.UserFunction(lambda x, y: poly(x, y), [(0.0, 1.0), (0.0, 2.0)])
    gy, gx = np.array([0.0, 0.5, 2.0]), np.array([0.25, 1.0])
    V = uf.grid_eval((gy, gx))
    count += 1
    if V.shape != (3, 2) or any(V[i, j] != poly(gx[j], gy[i]) for i in range(3) for j in range(2)):
        report('geo-oracle:userfunction', 'UserFunction.grid_eval does not evaluate f(x,y) at (gridaxes[1][j], gridaxes[0][i])', {'got': V.tolist()})
    uf3 = geometry.UserFunction(lambda x, y, z: (poly(x, y, z), z), [(0.0, 1.0)] * 3)
    gz = np.array([0.5, 0.75])
    V = uf3.grid_eval((gz, gy[:2], gx))
    count += 1
    if V.shape != (2, 2, 2, 2) or any(V[k, i, j, 0] != poly(gx[j], gy[i], gz[k]) or V[k, i, j, 1] != gz[k] for k in range(2) for i in range(2) for j in range(2)):
        report('geo-oracle:userfunction', 'UserFunction.grid_eval (3D, vector-valued) axis order', {'got': V.tolist()})
    count += 1
    if uf(0.25, 0.5) != poly(0.25, 0.5) or uf.pointwise_eval((np.array([0.25]), np.array([0.5])))[0] != poly(0.25, 0.5):
        report('geo-oracle:userfunction', 'UserFunction __call__/pointwise_eval', {})
    # generic boundary functions of user functions, dims 2-3, every bdspec (names and pairs): the single-point route,
    # the grid route and the parent at the embedded point must agree (exact: the same callable is evaluated)
    def user_boundary_checks():
        n_checked = 0
        for dim in (2, 3):
            supp = [(float(rng.integers(-4, 1)) / 4, float(rng.integers(1, 9)) / 4) for _ in range(dim)]      # zyx order
            def parent(*x):
                return (x[0] + 2 * x[1] * x[1] - 3 * x[-1] * x[0], sum((k + 2) * t for k, t in enumerate(x)))
            uf_ = geometry.UserFunction(parent, supp)
            names = ['left', 'right', 'bottom', 'top', 'front', 'back'][:2 * dim]
            for bd in names + [(ax, sd) for ax in range(dim) for sd in (0, 1)]:
                axis, side = bspline._parse_bdspec(bd, dim)
                bf = uf_.boundary(bd)
                rest = [i for i in range(dim) if i != axis]
                for _ in range(2):
                    zyx = [supp[i][0] + (supp[i][1] - supp[i][0]) * float(rng.integers(0, 9)) / 8 for i in range(dim)]
                    zyx[axis] = supp[axis][side]
                    want = tuple(float(t) for t in parent(*reversed(zyx)))
                    xb = [zyx[i] for i in reversed(rest)]
                    got = tuple(np.asarray(bf(*xb), dtype=float).ravel())
                    ge = tuple(np.asarray(bf.grid_eval(tuple(np.array([zyx[i]]) for i in rest)), dtype=float).ravel())
                    n_checked += 1
                    if got != want or ge != want:
                        return n_checked, ('UserFunction(dim %d, support %s).boundary(%r): single-point route %s%s = %s, grid route = %s, parent at the embedded point %s = %s'
                                           % (dim, supp, bd, type(bf).__name__, tuple(xb), list(got), list(ge), tuple(reversed(zyx)), list(want)))
        return n_checked, None
    try:
        k, d = user_boundary_checks()
    except Exception as ex:
        k, d = 1, 'boundary of a UserFunction raised %s: %s' % (type(ex).__name__, str(ex)[:200])
    count += k
    if d:
        report('geo-oracle:boundary-function-user', d, {})
    # ComposedFunction: values and chain rule against the exact composition
    for _ in range(max(4, nor // 4)):
        g1 = rand_func(rng, int(rng.integers(1, 3)), 'bsp', (2,))
        n1 = len(g1.kvs)
        # inner map into the unit square: clamp through an affine rescale of the coefficients
        c = g1.coeffs
        lo, hi = c.min(), c.max()
        g1 = bspline.BSplineFunc(g1.kvs, (c - lo) / max(hi - lo, 1.0))
        g2 = rand_func(rng, 2, str(rng.choice(['bsp', 'nurbs'])), (int(rng.integers(1, 4)),))
        # reparametrise g2's domain to contain [0,1]^2: use knot vectors on [0,1]
        kv2 = tuple(bspline.make_knots(int(rng.integers(1, 4)), 0.0, 1.0, int(rng.integers(1, 3))) for _ in range(2))
        N2 = tuple(kv.numdofs for kv in kv2)
        if is_nurbs(g2):
            g2 = geometry.NurbsFunc(kv2, dyadic(rng, N2 + (2,)), rng.integers(4, 17, size=N2).astype(float) / 8.0)
        else:
            g2 = bspline.BSplineFunc(kv2, dyadic(rng, N2 + (2,)))
        comp = geometry.ComposedFunction(g2, g1)
        grid = tuple(np.array(rand_coord(rng, g1.kvs[i], 2)) for i in range(n1))
        try:
            V = comp.grid_eval(grid); J = comp.grid_jacobian(grid)
            O1, O2 = Oracle(g1), Oracle(g2)
            for g in np.ndindex(*[len(a) for a in grid]):
                x = tuple(reversed([float(grid[i][g[i]]) for i in range(n1)]))
                V1, G1, _ = O1.jet(x, 1)
                mid = tuple(V1)       # exact inner value (Fractions), xyz order of g2's arguments
                V2, G2, _ = _exact_jet(O2, mid)
                J1 = np.stack([np.array(t, dtype=object) for t in G1], axis=-1)
                J2 = np.stack([np.array(t, dtype=object) for t in G2], axis=-1)
                want_J = np.array(J2.dot(J1), dtype=float)
                sc = 64.0 * (1 + np.abs(want_J).max()) * 64
                count += 1
                if not close(V[g], np.array(V2, dtype=float), sc) or not close(J[g], want_J, sc):
                    report('geo-oracle:composed', 'ComposedFunction grid_eval/grid_jacobian at node %s differs from geo2(geo1(x)) / the chain rule' % (g,),
                           describe(('composed', g2, g1, grid)))
                    break
        except Exception as ex:
            report('geo-oracle:composed', 'ComposedFunction raised %s: %s' % (type(ex).__name__, str(ex)[:200]), describe(('composed', g2, g1, grid)))
    ctx.extra['oracle_cross_checks'] = count
    ctx.count('oracle cross-checks', count)


def oracle_composed(g2, g1, grid):
    """ComposedFunction(g2, g1): values = g2(g1(x)), Jacobian = J2(g1(x)) . J1(x), exactly (Fractions)"""
    from pyiga import geometry
    try:
        comp = geometry.ComposedFunction(g2, g1)
        n1 = len(g1.kvs)
        V = comp.grid_eval(grid); J = comp.grid_jacobian(grid)
        O1, O2 = Oracle(g1), Oracle(g2)
        for g in np.ndindex(*[len(a) for a in grid]):
            x = tuple(reversed([float(grid[i][g[i]]) for i in range(n1)]))
            V1, G1, _ = O1.jet(x, 1)
            mid = tuple(np.atleast_1d(V1))
            V2, G2, _ = _exact_jet(O2, mid)
            J1 = np.stack([np.atleast_1d(np.array(t, dtype=object)) for t in G1], axis=-1)
            J2 = np.stack([np.array(t, dtype=object) for t in G2], axis=-1)
            want_J = np.array(J2.dot(J1), dtype=float)
            sc = 4096.0 * (1 + np.abs(want_J).max())
            if not close(np.asarray(V[g]).ravel(), np.array(V2, dtype=float).ravel(), sc):
                return 'ComposedFunction.grid_eval node %s = %s differs from geo2(geo1(x)) = %s' % (g, np.asarray(V[g]).tolist(), np.array(V2, dtype=float).tolist())
            if not close(np.asarray(J[g]).ravel(), want_J.ravel(), sc):
                return 'ComposedFunction.grid_jacobian node %s = %s differs from the chain rule J2.J1 = %s' % (g, np.asarray(J[g]).tolist(), want_J.tolist())
    except Exception as ex:
        return 'ComposedFunction raised %s: %s' % (type(ex).__name__, str(ex)[:200])
    return None


def oracle_constructor(m, rng):
    """unit_cube / identity / cylinderize / disk against their documented maps (exact evaluation)"""
    from pyiga import geometry
    name = m[0][3:]
    if name == 'unit_cube':
        dim, iv = m[1], m[2]
        G = geometry.unit_cube(dim=dim, num_intervals=iv)
        for _ in range(4):
            x = tuple(float(rng.integers(0, 17)) / 16 for _ in range(dim))
            if not close(Oracle(G).value(x), np.array(x), 8.0):
                return 'unit_cube(dim=%d, num_intervals=%d)%s = %s is not the identity' % (dim, iv, x, Oracle(G).value(x).tolist())
    if name == 'identity':
        ext = m[1]; dim = len(ext)
        G = geometry.identity(ext)
        for _ in range(4):
            t = [float(rng.integers(0, 17)) / 16 for _ in range(dim)]
            xi = tuple(ext[dim - 1 - e][0] + (ext[dim - 1 - e][1] - ext[dim - 1 - e][0]) * t[e] for e in range(dim))
            if not close(Oracle(G).value(xi), np.array(xi), 8.0):
                return 'identity(%s)%s = %s is not the identity' % (ext, xi, Oracle(G).value(xi).tolist())
    if name == 'cylinderize':
        f, (z0, z1) = m[1], m[2]
        supp = (0.25, 1.5)
        G = f.cylinderize(z0, z1, support=supp)
        O, OG = Oracle(f), Oracle(G)
        n = len(f.kvs)
        for _ in range(3):
            x = tuple(rand_coord(rng, f.kvs[n - 1 - e], 1)[0] for e in range(n))
            z = supp[0] + (supp[1] - supp[0]) * float(rng.integers(0, 17)) / 16
            want = np.concatenate((np.atleast_1d(O.value(x)), [z0 + (z1 - z0) * (z - supp[0]) / (supp[1] - supp[0])]))
            got = OG.value(x + (z,))
            if not close(got, want, OG.mag(x + (z,), 0) * 8):
                return 'cylinderize(%r,%r,support=%r)%s = %s, expected (f(x), linear in z) = %s' % (z0, z1, supp, x + (z,), got.tolist(), want.tolist())
    if name == 'disk':
        r = m[1]
        OD = Oracle(geometry.disk(r))
        for k in range(9):
            t = k / 8.0
            for x in ((t, 0.0), (t, 1.0), (0.0, t), (1.0, t)):
                V, _, _ = OD.jet(x, 0)
                dev = abs(V[0] ** 2 + V[1] ** 2 - Fraction(r) ** 2)
                if dev > Fraction(64 * U) * Fraction(r) ** 2:
                    return 'disk(%r): boundary point G%s has |G|^2 - r^2 = %.3g' % (r, x, float(dev))
            V, _, _ = OD.jet((t, 0.5), 0)
            if V[0] ** 2 + V[1] ** 2 > Fraction(r) ** 2 * (1 + Fraction(64 * U)):
                return 'disk(%r): interior point G(%r, 0.5) outside the circle' % (r, t)
    return None


def _exact_jet(O, x_frac):
    """Oracle.jet at a point given as Fractions (used for the exact composition)"""
    n = O.sdim
    u = list(reversed(list(x_frac)))
    E = lambda *idx: list(reversed([sum(1 for i in idx if i == k) for k in range(n)]))
    V = spline_def(O.kvs, O.C, u, E())
    G = [spline_def(O.kvs, O.C, u, E(a)) for a in range(n)]
    if not O.nurbs:
        return V, G, None
    W = V[..., -1]
    N = V[..., :-1] / W
    NG = [(G[a][..., :-1] - N * G[a][..., -1]) / W for a in range(n)]
    return N, NG, None
