"""
C02 — B-spline basis evaluation is exact, local, non-negative and sums to one (DESIGN.md §6/C02).

tie: hand-written Lean model Pyiga.Model.BSpline (literal NURBS-book A2.3, `_bspline_single_ev_single`,
     findspan; driver drv_c02) vs pyiga.bspline.{active_deriv, active_ev, single_ev, collocation,
     collocation_info, collocation_derivs(_info), ev, deriv, first_active_at, BSplineFunc.grid_*,
     pointwise_*}.  Knots, points and the doubles returned by the implementation are sent as exact
     rationals; the driver evaluates the same recursion over `RE` (exact Rat value + running forward
     error bound of that very recursion) and accepts a double iff it lies within the bound.  First-active
     indices / CSR structure are compared exactly.  The driver also decides, per request and for every
     derivative order, that the exact A2.3 output equals the Cox-de Boor / derivative recursion (`spec=ok`).
theorems: Pyiga.Props.C02.*
search (model-free): Cox-de Boor recursion and its derivative recursion in fractions.Fraction, evaluated
     directly on the implementation's inputs.
"""
from fractions import Fraction

import numpy as np

from .common import plist
from .c19 import gen_kv, points_for, Stream, span_oracle, frac

THEOREMS = [
    'Pyiga.Props.C02.findspan_spec',
    'Pyiga.Props.C02.N_nonneg', 'Pyiga.Props.C02.N_local_support', 'Pyiga.Props.C02.N_partition_of_unity',
    'Pyiga.Props.C02.dN_sum_zero', 'Pyiga.Props.C02.dN_vanish', 'Pyiga.Props.C02.dN_local_support',
    'Pyiga.Props.C02.coxS_eq_cox', 'Pyiga.Props.C02.coxS_right_end',
    'Pyiga.Props.C02.basisFuns_eq_cox', 'Pyiga.Props.C02.ndu_denominators_pos', 'Pyiga.Props.C02.activeDeriv_row0',
    'Pyiga.Props.C02.ders1_eq_cox_partial', 'Pyiga.Props.C02.ders_high_zero',
    'Pyiga.Props.C02.ders_row1_eq_cox', 'Pyiga.Props.C02.ders_rows_high_zero',
    'Pyiga.Props.C02.active_values_nonneg', 'Pyiga.Props.C02.active_values_sum_one',
    'Pyiga.Props.C02.single_ev_eq_cox', 'Pyiga.Props.C02.single_ev_boundary',
    'Pyiga.Props.C02.dN_eq_sum_a', 'Pyiga.Props.C02.ders_buffer_invariant', 'Pyiga.Props.C02.ders_rows_mid_eq_cox',
    'Pyiga.Props.C02.ders_eq_cox',
]
MODULES = ['Pyiga.Model.Knots', 'Pyiga.Model.BSpline', 'Pyiga.Proofs.Knots', 'Pyiga.Proofs.BSpline', 'Pyiga.Proofs.Ders', 'Pyiga.Props.C02',
           'Pyiga.Props.C02Full']

F_SPLEV = 32    # splev (FITPACK de Boor / splder) is a different algorithm: route agreement at 32x the A2.3 bound
F_TP = 4        # collocation-matrix products: same values, different summation order


# ----------------------------------------------------------------------------- model-free oracle
def cox_oracle(kv, p, u, kmax):
    """exact Cox-de Boor values and derivative-recursion derivatives of the p+1 active functions
    (right-continuous; at the right end point the limit from the left).  Independent of the Lean model."""
    t = [Fraction(float(x)) for x in kv]
    u = Fraction(float(u))
    s = span_oracle(kv, p, float(u))

    memo = {}

    def N(k, q, i):
        key = (k, q, i)
        if key in memo:
            return memo[key]
        if k == 0:
            if q == 0:
                v = Fraction(1) if i == s else Fraction(0)
            else:
                v = Fraction(0)
                d1 = t[i + q] - t[i]
                if d1 != 0:
                    v += (u - t[i]) / d1 * N(0, q - 1, i)
                d2 = t[i + q + 1] - t[i + 1]
                if d2 != 0:
                    v += (t[i + q + 1] - u) / d2 * N(0, q - 1, i + 1)
        else:
            if q == 0:
                v = Fraction(0)
            else:
                v = Fraction(0)
                d1 = t[i + q] - t[i]
                if d1 != 0:
                    v += N(k - 1, q - 1, i) / d1
                d2 = t[i + q + 1] - t[i + 1]
                if d2 != 0:
                    v -= N(k - 1, q - 1, i + 1) / d2
                v *= q
        memo[key] = v
        return v
    return s, [[N(k, p, s - p + r) for r in range(p + 1)] for k in range(kmax + 1)]


def rows_oracle(kv, p, us, nd, get):
    """get(j) -> (first_active, array (nd+1, p+1)) of the implementation for point j"""
    def f():
        for j, u in enumerate(us):
            s, ex = cox_oracle(kv, p, u, nd)
            fa, V = get(j)
            if not np.all(np.isfinite(np.asarray(V, dtype=float))):
                return 'non-finite basis value/derivative at u=%r' % float(u)
            if int(fa) != s - p:
                return 'first active index at u=%r is %d, the span containing u starts its functions at %d' % (float(u), int(fa), s - p)
            for k in range(nd + 1):
                scale = max([abs(x) for x in ex[k]] + [abs(Fraction(float(x))) for x in V[k]])
                for r in range(p + 1):
                    if not np.isfinite(V[k][r]) or abs(Fraction(float(V[k][r])) - ex[k][r]) > Fraction(1, 10 ** 9) * scale:
                        return ('derivative order %d of active function %d at u=%r: implementation %r, Cox-de Boor %r'
                                % (k, r, float(u), float(V[k][r]), float(ex[k][r])))
            if any(float(x) < 0 for x in V[0]):
                return 'negative basis value at u=%r' % float(u)
        return None
    return f


def run(ctx):
    ctx.build_repo()
    from pyiga import bspline, assemble_tools
    ctx.require_lean(['Pyiga.Props.C02', 'Pyiga.Props.C02Full', 'drv_c02'])
    ctx.audit(['Pyiga.Props.C02', 'Pyiga.Props.C02Full'], THEOREMS, MODULES)
    if ctx.tier == 'thorough':
        ctx.leanchecker(MODULES)
    rng = ctx.rng
    quick = ctx.tier == 'quick'
    ctx.trusted += ['tolerance rule: running forward error bound computed by the model for the same recursion (Model/BSpline.lean RE: 2^-51 relative per operation)',
                    'scipy.interpolate.splev (routes ev/deriv) is compared, not modelled: bound scaled by %d' % F_SPLEV,
                    'scipy.sparse COO->CSR conversion, apply_tprod: documented behaviour']
    ctx.assumptions += ['IEEE double rounding and -ffast-math code generation are bounded, not modelled',
                        'knot vectors are open, non-decreasing, interior multiplicity <= p; C `int fac` overflow is outside the model (p <= 12 in the main stream)']
    ctx.rule = ('random open knot vectors: degree 0..12, 1..8 spans, dyadic spans with ratios up to 2^40 / eighths / arbitrary doubles / uniform, interior '
                'multiplicities 1..p; points: every breakpoint, its two adjacent doubles, both ends, midpoints, random interior points; derivative orders '
                '0..p+2; scalar, contiguous and strided array arguments; routes: active_deriv, active_ev, single_ev, collocation(_info), '
                'collocation_derivs(_info), assemble_tools.compute_values_derivs (dense table read by the assemblers), ev/deriv (splev), '
                'BSplineFunc.grid_eval/jacobian/hessian/pointwise_*/__call__ in 1-D and 2-D, also with int64/int32/float32 coefficient arrays.  '
                'histories: pairs of different knot vectors with knots < 1e-8 apart evaluated alternately at identical nodes (stateless model of the '
                'current one); collocation_derivs results after the caller edited one returned matrix in place.  '
                'non-trivial = degree >= 1 and >= 2 spans.  plus a probe of degrees 13..16 (C int `fac`).')
    # ---- probe (subprocess, first): scipy's splev(der>=1) supports degree <= 5 only (FITPACK splder) and kills the interpreter beyond;
    # bspline.deriv used to delegate to it for every degree (repaired in /repo 3311b35).  Only if the probe passes is
    # bspline.deriv called in-process for p > 5 below.
    import subprocess, sys as _sys, json as _json
    from .common import REPO, PY
    code = ("import sys, json, numpy as np\n"
            "sys.path.insert(0, %r)\n"
            "from pyiga import bspline\n"
            "p = int(sys.argv[1]); kv = bspline.make_knots(p, 0.0, 1.0, 3)\n"
            "c = np.arange(kv.numdofs) ** 2 * 1.0; x = np.array([0.0, 0.3, 0.5, 1.0])\n"
            "y = bspline.deriv(kv, c, 1, x); z = bspline.collocation_derivs(kv, x, 1)[1] @ c\n"
            "print(json.dumps({'deriv': y.tolist(), 'collocation': z.tolist()}))\n") % REPO
    crash = None
    for pp in range(6, 13):
        pr = subprocess.run([PY, '-c', code, str(pp)], stdout=subprocess.PIPE, stderr=subprocess.PIPE, text=True, timeout=300)
        ctx.count('bspline.deriv subprocess probes (p=6..12)')
        bad = None
        if pr.returncode != 0:
            bad = 'the interpreter dies with exit status %d' % pr.returncode
        else:
            try:
                o = _json.loads(pr.stdout.strip().split('\n')[-1])
                if not np.allclose(o['deriv'], o['collocation'], rtol=1e-9, atol=0):
                    bad = 'returns %s, derivative collocation gives %s' % (o['deriv'], o['collocation'])
            except Exception:
                bad = 'unparsable output'
        if bad and crash is None:
            crash = {'call': 'bspline.deriv(make_knots(%d, 0.0, 1.0, 3), arange(n)**2, 1, [0, .3, .5, 1])' % pp, 'p': pp, 'observed': bad}
    deriv_safe = crash is None
    if crash is not None:
        ctx.violation('deriv-splev-degree-gt-5', 'bspline.deriv (splev with der>=1) at degree %d: %s — %s' % (crash['p'], crash['observed'], crash['call']), crash, True)


    S = Stream(ctx, 'drv_c02')
    nkv = 150 if quick else 2500
    npts = 0

    def guarded(fn):
        """run an implementation call; exceptions become error tokens"""
        try:
            return fn()
        except AssertionError:
            ctx.count('err-assertion'); return 'err-assertion'
        except Exception as ex:
            ctx.count('err-' + type(ex).__name__); return 'err-' + type(ex).__name__

    def verdict_kind(names, oracles, default):
        """first value set whose verdict is not ok names the failing route"""
        def f(e, g):
            toks = []
            if 'sets=' in g:
                toks = g.split('sets=')[1].split(' spec=')[0].split(' ')
            for nm, orc, t in zip(names, oracles, toks):
                if t != 'ok':
                    return nm, orc
            def any_oracle():
                # no per-set verdict (e.g. a non-finite value made the request unparsable): try every route's oracle
                for nm, orc in zip(names, oracles):
                    if orc is None:
                        continue
                    try:
                        d = orc()
                    except Exception as ex:
                        d = 'implementation raised %s: %s' % (type(ex).__name__, str(ex)[:200])
                    if d is not None:
                        return '%s: %s' % (nm, d)
                return None
            return default, any_oracle
        return f

    def one(it):
        # one knot vector; a function so that the oracles' closures keep *this* iteration's objects
        nonlocal npts
        k, p, style = gen_kv(rng, pmax=12, maxspans=8)
        KV = bspline.KnotVector(k.copy(), p)
        kvd = plist(k, frac)
        us = points_for(rng, k, p, nrand=3)
        if len(us) > 12:
            # every breakpoint (interior knots of every multiplicity, both ends) stays; the rest is sampled
            mesh_pts = np.unique(k)
            rest = us[~np.isin(us, mesh_pts)]
            rest = rest[np.sort(rng.permutation(len(rest))[:max(5, 12 - len(mesh_pts))])]
            us = np.concatenate((mesh_pts, rest))
            us = np.ascontiguousarray(us[rng.permutation(len(us))])
        m = len(us)
        nd = int(rng.integers(0, p + 3))
        ctx.case(('kv', p, tuple(k.tolist()), nd), nontrivial=(p >= 1 and len(np.unique(k)) >= 3))
        ctx.count('p=%d' % p); ctx.count('style=' + style); ctx.count('numderiv=%d' % nd)
        npts += m
        info = {'kv': k.tolist(), 'p': p, 'u': us.tolist(), 'numderiv': nd}
        usd = plist(us, frac)
        fa = guarded(lambda: [int(KV.first_active_at(float(u))) for u in us])

        def csr_rows(C):
            """canonical per-row view of a collocation matrix: first column index and the p+1 stored values"""
            C = C.tocsr()
            if C.shape != (m, KV.numdofs):
                raise ValueError('shape')
            C.sort_indices()
            if not np.array_equal(C.indptr, (p + 1) * np.arange(m + 1)):
                raise ValueError('row does not have p+1 stored entries')
            J = C.indices.reshape(m, p + 1)
            if not np.array_equal(J, J[:, :1] + np.arange(p + 1)[None, :]):
                raise ValueError('columns of a row are not consecutive')
            return J[:, 0].tolist(), C.data.reshape(m, p + 1)

        # every route returns (nd_i, idx list, array [k][node][r]); idx=None: the route reports no indices (first_active_at is used)
        def r_active_deriv(strided):
            def f():
                arg = np.repeat(us, 2)[::2] if strided else us
                V = np.asarray(bspline.active_deriv(KV, arg, nd))
                if V.shape != (nd + 1, p + 1, m):
                    raise ValueError('shape')
                return nd, None, V.swapaxes(1, 2)
            return f

        def r_active_deriv_scalar():
            V = np.stack([np.asarray(bspline.active_deriv(KV, float(u), nd)) for u in us], axis=1)   # (nd+1, m, p+1)
            if V.shape != (nd + 1, m, p + 1):
                raise ValueError('shape')
            return nd, None, V

        def r_active_ev():
            V = np.asarray(bspline.active_ev(KV, us))
            if V.shape != (p + 1, m):
                raise ValueError('shape')
            return 0, None, V.T[None]

        def r_active_ev_scalar():
            V = np.stack([np.asarray(bspline.active_ev(KV, float(u))) for u in us], axis=0)
            if V.shape != (m, p + 1):
                raise ValueError('shape')
            return 0, None, V[None]

        def r_coll_info():
            idx, V = bspline.collocation_info(KV, us)
            V = np.asarray(V)
            if V.shape != (m, p + 1):
                raise ValueError('shape')
            return 0, [int(i) for i in idx], V[None]

        def r_coll():
            idx, V = csr_rows(bspline.collocation(KV, us))
            return 0, idx, V[None]

        def r_cdi():
            idx, V = bspline.collocation_derivs_info(KV, us, nd)
            V = np.asarray(V)
            if V.shape != (nd + 1, m, p + 1):
                raise ValueError('shape')
            return nd, [int(i) for i in idx], V

        def r_cd():
            Cs = bspline.collocation_derivs(KV, us, nd)
            if len(Cs) != nd + 1:
                raise ValueError('count')
            parts = [csr_rows(C) for C in Cs]
            if any(q[0] != parts[0][0] for q in parts):
                raise ValueError('derivative matrices have different sparsity')
            return nd, parts[0][0], np.stack([q[1] for q in parts])

        def r_cvd():
            # the dense table the assemblers read: axes (basis function, grid point, derivative)
            T = np.asarray(assemble_tools.compute_values_derivs(KV, us, nd))
            if T.shape != (KV.numdofs, m, nd + 1) or not T.flags['C_CONTIGUOUS']:
                raise ValueError('shape/layout')
            if isinstance(fa, str):
                raise ValueError('first_active_at failed')
            V = np.empty((nd + 1, m, p + 1))
            for j in range(m):
                rows = np.arange(fa[j], fa[j] + p + 1)
                if fa[j] < 0 or fa[j] + p + 1 > KV.numdofs:
                    raise IndexError('first active index out of range')
                out = np.delete(T[:, j, :], rows, axis=0)
                if np.any(out != 0):
                    raise ValueError('nonzero entries outside the p+1 active rows')
                V[:, j, :] = T[rows, j, :].T
            return nd, None, V

        def cvd_oracle():
            T = np.asarray(assemble_tools.compute_values_derivs(KV, us, nd))
            for j, u in enumerate(us):
                s_, ex = cox_oracle(k, p, u, nd)
                for kk in range(nd + 1):
                    scale = max([abs(x) for x in ex[kk]] + [Fraction(1, 10 ** 300)])
                    for i_ in range(KV.numdofs):
                        want = ex[kk][i_ - (s_ - p)] if s_ - p <= i_ <= s_ else Fraction(0)
                        if not np.isfinite(T[i_, j, kk]) or abs(Fraction(float(T[i_, j, kk])) - want) > Fraction(1, 10 ** 9) * scale:
                            return ('compute_values_derivs(kv, grid, %d)[%d, %d, %d] = %r at grid point %r, Cox-de Boor %r'
                                    % (nd, i_, j, kk, float(T[i_, j, kk]), float(u), float(want)))
            return None

        routes = [('compute_values_derivs', r_cvd),
                  ('active_deriv', r_active_deriv(False)), ('active_deriv[strided]', r_active_deriv(True)),
                  ('active_deriv[scalar]', r_active_deriv_scalar), ('active_ev', r_active_ev), ('active_ev[scalar]', r_active_ev_scalar),
                  ('collocation_info', r_coll_info), ('collocation', r_coll), ('collocation_derivs_info', r_cdi),
                  ('collocation_derivs', r_cd)]
        names, oracles, sets = [], [], []
        for nm, fn in routes:
            res = guarded(fn)
            ctx.count('route ' + nm)
            if isinstance(res, str) or isinstance(fa, str):
                def raises(fn=fn):
                    try:
                        fn()
                    except Exception as ex:
                        return 'implementation raised %s: %s' % (type(ex).__name__, str(ex)[:200])
                    return None
                S.add('rows 0 0 0 0 0', 'impl-%s' % (res if isinstance(res, str) else fa), nm,
                      cvd_oracle if nm == 'compute_values_derivs' else raises, info)
                continue
            ndi, idx, V = res
            idx = fa if idx is None else idx
            names.append(nm)
            oracles.append(cvd_oracle if nm == 'compute_values_derivs' else
                           rows_oracle(k, p, us, ndi, lambda j, idx=idx, V=V: (idx[j], V[:, j, :])))
            sets.append('%d %s %s' % (ndi, plist(idx), plist(np.ascontiguousarray(V).ravel(), frac)))
        if sets:
            S.add('rows %d %d %s %s %d %s' % (p, nd, kvd, usd, len(sets), ' '.join(sets)),
                  'idx=%s sets=%s spec=ok' % (plist(fa), ' '.join(['ok'] * len(sets))),
                  verdict_kind(names, oracles, 'active_deriv'), None, info)

        # --- single_ev: a few functions, array and scalar argument
        fns, names, oracles = [], [], []
        for i in sorted(set([0, KV.numdofs - 1] + [int(x) for x in rng.integers(0, KV.numdofs, size=2)])):
            def single_oracle(i=i):
                for u in us:
                    s, ex = cox_oracle(k, p, u, 0)
                    want = ex[0][i - (s - p)] if s - p <= i <= s else Fraction(0)
                    got = bspline.single_ev(KV, i, float(u))
                    if not np.isfinite(got) or abs(Fraction(float(got)) - want) > Fraction(1, 10 ** 9):
                        return 'single_ev(kv, %d, %r) = %r, Cox-de Boor %r' % (i, float(u), float(got), float(want))
                return None

            def f(i=i):
                y = np.asarray(bspline.single_ev(KV, i, us))
                y2 = np.array([bspline.single_ev(KV, i, float(u)) for u in us])
                if y.shape != (m,) or not np.array_equal(y, y2):
                    raise ValueError('scalar-vs-array-mismatch')
                return y
            y = guarded(f)
            ctx.count('route single_ev')
            if isinstance(y, str):
                S.add('rows 0 0 0 0 0', 'impl-' + y, 'single_ev', single_oracle, dict(info, i=i))
                continue
            fns.append('%d %s' % (i, plist(y, frac))); names.append('single_ev'); oracles.append(single_oracle)
        if fns:
            S.add('single %d %s %s %d %s' % (p, kvd, usd, len(fns), ' '.join(fns)), 'sets=%s spec=ok' % ' '.join(['ok'] * len(fns)),
                  verdict_kind(names, oracles, 'single_ev'), None, info)

        # --- spline evaluation routes (1-D)
        if rng.integers(0, 2):
            c = rng.integers(-8, 9, size=KV.numdofs).astype(float)
        else:
            c = rng.normal(size=KV.numdofs) * 10.0 ** rng.integers(-2, 3)
        # the same coefficient values also stored with a non-float64 dtype (BSplineFunc keeps the dtype it is given):
        # integers -> int64 / int32, otherwise float32 (the float64 coefficients are the exact float32 values)
        if np.all(c == np.round(c)):
            cv = c.astype(np.int64 if rng.integers(0, 2) else np.int32)
        else:
            c = c.astype(np.float32).astype(float)
            cv = c.astype(np.float32)
        assert np.array_equal(cv.astype(float), c)
        dtn = str(cv.dtype)
        cd = plist(c, frac)
        Fn = bspline.BSplineFunc(KV, c)
        Fv = bspline.BSplineFunc(KV, cv)
        # bspline.deriv for p >= 6 is called in-process only if the subprocess probe above found it safe
        kmax_spl = min(p, 3) if (p <= 5 or deriv_safe) else 0
        sroutes = [('splev[der=%d]' % kk, F_SPLEV, kk, (lambda kk=kk: bspline.ev(KV, c, us) if kk == 0 else bspline.deriv(KV, c, kk, us)))
                   for kk in range(kmax_spl + 1)]
        sroutes += [('grid_eval', F_TP, 0, lambda: Fn.grid_eval((us,))), ('grid_jacobian', F_TP, 1, lambda: Fn.grid_jacobian((us,))),
                    ('grid_hessian', F_TP, 2, lambda: Fn.grid_hessian((us,))), ('pointwise_eval', F_TP, 0, lambda: Fn.pointwise_eval((us,))),
                    ('pointwise_jacobian', F_TP, 1, lambda: Fn.pointwise_jacobian((us,))),
                    ('ev[%s]' % dtn, F_SPLEV, 0, lambda: bspline.ev(KV, cv, us)),
                    ('grid_eval[%s]' % dtn, F_TP, 0, lambda: Fv.grid_eval((us,))),
                    ('grid_jacobian[%s]' % dtn, F_TP, 1, lambda: Fv.grid_jacobian((us,))),
                    ('grid_hessian[coeff-dtype]', F_TP, 2, lambda: Fv.grid_hessian((us,))),
                    ('pointwise_eval[%s]' % dtn, F_TP, 0, lambda: Fv.pointwise_eval((us,))),
                    ('pointwise_jacobian[%s]' % dtn, F_TP, 1, lambda: Fv.pointwise_jacobian((us,))),
                    ('__call__[%s]' % dtn, F_TP, 0, lambda: Fv(us))]
        names, oracles, sets = [], [], []
        for nm, fct, kk, fn in sroutes:
            def f(fn=fn):
                y = np.asarray(fn(), dtype=float)
                if y.size != m:
                    raise ValueError('shape')
                return y.ravel()
            y = guarded(f)
            ctx.count('route ' + nm.split('[')[0])
            sorc = make_spl_oracle(k, p, c, us, kk, fn)
            if isinstance(y, str):
                S.add('rows 0 0 0 0 0', 'impl-' + y, nm, sorc, dict(info, coeffs=c.tolist()))
                continue
            names.append(nm); oracles.append(sorc)
            sets.append('%d %d %s' % (fct, kk, plist(y, frac)))
        if sets:
            S.add('spl %d %s %s %s %d %s' % (p, kvd, cd, usd, len(sets), ' '.join(sets)), 'sets=%s' % ' '.join(['ok'] * len(sets)),
                  verdict_kind(names, oracles, 'spline-eval'), None, dict(info, coeffs=c.tolist()))

        # --- point arrays with ndim >= 2 whose memory order differs from index order (Fortran order, transposed view, strided slice):
        # the value at index I of the result must belong to the point at index I
        m2 = (m // 2) * 2
        if m2 >= 4:
            base = us[:m2]
            variant = int(rng.integers(0, 4))
            if variant == 0:
                U2 = np.asfortranarray(base.reshape(2, -1)); vname = 'F-order'
            elif variant == 1:
                U2 = base.reshape(-1, 2).T; vname = 'transposed view'
            elif variant == 2:
                big = np.zeros((m2 // 2, 6)); big[:, 1::3] = base.reshape(-1, 2); U2 = big[:, 1::3].T; vname = 'transposed strided slice'
            else:
                U2 = np.asfortranarray(base.reshape(2, 1, -1)); vname = 'F-order 3-d'
            flat = np.array(U2, order='C').ravel()          # points in index order
            nroutes = [('ev[nd points, %s]' % vname, F_SPLEV, 0, lambda: bspline.ev(KV, c, U2))]
            nroutes += [('deriv[nd points, %s, der=%d]' % (vname, kk), F_SPLEV, kk, (lambda kk=kk: bspline.deriv(KV, c, kk, U2)))
                        for kk in range(1, kmax_spl + 1)]
            names, oracles, sets = [], [], []
            for nm, fct, kk, fn in nroutes:
                def f(fn=fn):
                    y = np.asarray(fn(), dtype=float)
                    if y.shape != U2.shape:
                        raise ValueError('shape %s for points of shape %s' % (y.shape, U2.shape))
                    return np.array(y, order='C').ravel()
                y = guarded(f)
                ctx.count('route nd-points ' + nm.split('[')[0])
                sorc = make_spl_oracle(k, p, c, flat, kk, (lambda fn=fn: np.array(np.asarray(fn(), dtype=float), order='C').ravel()))
                if isinstance(y, str):
                    S.add('rows 0 0 0 0 0', 'impl-' + y, nm, sorc, dict(info, coeffs=c.tolist(), points=U2.tolist()))
                    continue
                names.append(nm); oracles.append(sorc)
                sets.append('%d %d %s' % (fct, kk, plist(y, frac)))
            if sets:
                S.add('spl %d %s %s %s %d %s' % (p, kvd, cd, plist(flat, frac), len(sets), ' '.join(sets)), 'sets=%s' % ' '.join(['ok'] * len(sets)),
                      verdict_kind(names, oracles, 'spline-eval[nd points]'), None, dict(info, coeffs=c.tolist(), points=U2.tolist()))

        # --- 2-D tensor product (every 4th knot vector, paired with a fresh small one)
        if it % 4 == 0:
            k2, p2, _ = gen_kv(rng, pmax=4, maxspans=4)
            KV2 = bspline.KnotVector(k2.copy(), p2)
            x1 = us[:5]
            x2 = points_for(rng, k2, p2, nrand=2)
            x2 = np.ascontiguousarray(x2[np.sort(rng.permutation(len(x2))[:4])])
            C2 = rng.integers(-5, 6, size=(KV.numdofs, KV2.numdofs)).astype(float)
            F2 = bspline.BSplineFunc((KV, KV2), C2)
            F2v = bspline.BSplineFunc((KV, KV2), C2.astype(np.int64))       # integer coefficient array, same values
            info2 = {'kv1': k.tolist(), 'p1': p, 'kv2': k2.tolist(), 'p2': p2, 'coeffs': C2.tolist(), 'x1': x1.tolist(), 'x2': x2.tolist()}
            orc = make_tp_oracle(k, p, k2, p2, C2, x1, x2)
            G1, G2 = np.meshgrid(x1, x2, indexing='ij')
            # grid axes are given per knot vector; pointwise routines take points in xyz order (x <-> last axis)
            troutes = [('grid_eval[2d]', 0, 0, lambda: F2.grid_eval((x1, x2))),
                       ('grid_jacobian[2d,x]', 0, 1, lambda: F2.grid_jacobian((x1, x2))[..., 0]),
                       ('grid_jacobian[2d,y]', 1, 0, lambda: F2.grid_jacobian((x1, x2))[..., 1]),
                       ('grid_hessian[2d,xx]', 0, 2, lambda: F2.grid_hessian((x1, x2))[..., 0]),
                       ('grid_hessian[2d,xy]', 1, 1, lambda: F2.grid_hessian((x1, x2))[..., 1]),
                       ('grid_hessian[2d,yy]', 2, 0, lambda: F2.grid_hessian((x1, x2))[..., 2]),
                       ('pointwise_eval[2d]', 0, 0, lambda: F2.pointwise_eval((G2, G1))),
                       ('pointwise_jacobian[2d,x]', 0, 1, lambda: F2.pointwise_jacobian((G2, G1))[..., 0]),
                       ('pointwise_jacobian[2d,y]', 1, 0, lambda: F2.pointwise_jacobian((G2, G1))[..., 1]),
                       ('grid_eval[2d,int64]', 0, 0, lambda: F2v.grid_eval((x1, x2))),
                       ('grid_jacobian[2d,x,int64]', 0, 1, lambda: F2v.grid_jacobian((x1, x2))[..., 0]),
                       ('grid_hessian[coeff-dtype]', 1, 1, lambda: F2v.grid_hessian((x1, x2))[..., 1]),
                       ('pointwise_eval[2d,int64]', 0, 0, lambda: F2v.pointwise_eval((G2, G1))),
                       ('pointwise_jacobian[2d,y,int64]', 1, 0, lambda: F2v.pointwise_jacobian((G2, G1))[..., 1])]
            names, oracles, sets = [], [], []
            for nm, d1, d2, fn in troutes:
                def f(fn=fn):
                    y = np.asarray(fn(), dtype=float)
                    if y.shape != (len(x1), len(x2)):
                        raise ValueError('shape')
                    return y
                y = guarded(f)
                o = (lambda d1=d1, d2=d2, fn=fn, orc=orc: orc(d1, d2, fn()))
                if isinstance(y, str):
                    S.add('rows 0 0 0 0 0', 'impl-' + y, nm, o, info2)
                    continue
                names.append(nm); oracles.append(o)
                sets.append('%d %d %d %s' % (F_TP, d1, d2, plist(y.ravel(), frac)))
            if sets:
                S.add('tp2 %d %s %d %s %s %s %s %d %s' % (p, kvd, p2, plist(k2, frac), plist(C2.ravel(), frac), plist(x1, frac), plist(x2, frac),
                                                       len(sets), ' '.join(sets)),
                      'sets=%s' % ' '.join(['ok'] * len(sets)), verdict_kind(names, oracles, 'tensor-product'), None, info2)
            ctx.count('2-D tensor-product cases')
        if len(ctx.samples) < 3 and p >= 3:
            ctx.sample({'kv': k.tolist(), 'p': p, 'numderiv': nd, 'points': us.tolist()[:6]})
    for it in range(nkv):
        one(it)
    ctx.count('evaluation points', npts)

    # ------------------------------------------------------------------ call histories (state between calls, ownership of results)
    def dense_rows(C, KVo, pts, fa_):
        """per-row view of a (sparse) collocation-type matrix through its dense form: the p+1 values starting at the first active
        index; everything else must be exactly zero"""
        D = np.asarray(C.toarray(), dtype=float)
        pp = KVo.p
        if D.shape != (len(pts), KVo.numdofs):
            raise ValueError('shape')
        V = np.empty((len(pts), pp + 1))
        for j in range(len(pts)):
            rows = np.arange(fa_[j], fa_[j] + pp + 1)
            if np.any(np.delete(D[j], rows) != 0):
                raise ValueError('nonzero entries outside the p+1 active columns')
            V[j] = D[j, rows]
        return V

    def add_sets(KVo, karr, pts, ndmax, named, default, info):
        """named: list of (name, nd_i, thunk -> array (nd_i+1, m, p+1)); one `rows` request against the stateless model of `karr`"""
        pp = KVo.p
        fa_ = guarded(lambda: [int(KVo.first_active_at(float(u))) for u in pts])
        names, oracles, sets = [], [], []
        for nm, ndi, fn in named:
            res = guarded(fn) if not isinstance(fa_, str) else fa_
            ctx.count('history route ' + nm.split('[')[0])
            if isinstance(res, str):
                def raises(fn=fn):
                    try:
                        fn()
                    except Exception as ex:
                        return 'implementation raised %s: %s' % (type(ex).__name__, str(ex)[:200])
                    return None
                S.add('rows 0 0 0 0 0', 'impl-' + res, nm, raises, info)
                continue
            V = np.array(res, dtype=float)
            names.append(nm)
            oracles.append(rows_oracle(karr, pp, pts, ndi, lambda j, V=V, fa_=fa_: (fa_[j], V[:, j, :])))
            sets.append('%d %s %s' % (ndi, plist(fa_), plist(V.ravel(), frac)))
        if sets:
            S.add('rows %d %d %s %s %d %s' % (pp, ndmax, plist(karr, frac), plist(pts, frac), len(sets), ' '.join(sets)),
                  'idx=%s sets=%s spec=ok' % (plist(fa_), ' '.join(['ok'] * len(sets))), verdict_kind(names, oracles, default), None, info)

    def near_pair(it):
        """two different open knot vectors of the same degree and length whose knots differ by < 1e-8"""
        pp = int(rng.integers(0, 4))
        if it % 2 == 0:
            # a tiny span placed differently (interior knots t0, t0+8e-9 resp. t0+4e-9, t0+8e-9)
            t0 = float(rng.choice([0.5, 0.375, 0.6]))
            e0, e1 = (pp + 1) * [0.0], (pp + 1) * [1.0]
            kA = np.array(e0 + [0.25, t0, t0 + 8e-9, 0.75] + e1)
            kB = np.array(e0 + [0.25, t0 + 4e-9, t0 + 8e-9, 0.75] + e1)
            extra = [t0, t0 + 2e-9, t0 + 4e-9, t0 + 6e-9, t0 + 8e-9]
        else:
            kA, _, _ = gen_kv(rng, pmax=3, maxspans=5, style=str(rng.choice(['uniform', 'int8', 'dyadic'])))
            # degree = multiplicity of the first knot - 1
            pp = int(np.sum(kA == kA[0])) - 1
            kB = kA.copy()
            mesh = np.unique(kA)
            extra = []
            for x in mesh[1:-1]:
                dlt = float(rng.choice([-3e-9, -1e-9, 2e-9, 5e-9])) * max(1.0, abs(x))
                kB[kA == x] = x + dlt
                extra += [x, x + dlt, x + dlt / 2]
        mesh = np.unique(np.concatenate((kA, kB)))
        pts = np.unique(np.concatenate(([mesh[0], mesh[-1]], extra, (mesh[:-1] + mesh[1:]) / 2, rng.uniform(mesh[0], mesh[-1], size=2))))
        pts = pts[(pts >= mesh[0]) & (pts <= mesh[-1])]
        if len(pts) > 14:
            keep = np.isin(pts, extra) | np.isin(pts, [mesh[0], mesh[-1]])
            rest = pts[~keep]
            pts = np.concatenate((pts[keep], rest[np.sort(rng.permutation(len(rest))[:max(0, 14 - int(keep.sum()))])]))
        return np.ascontiguousarray(kA, dtype=float), np.ascontiguousarray(kB, dtype=float), pp, np.ascontiguousarray(pts)

    npairs = 40 if quick else 600
    for it in range(npairs):
        kA, kB, pp, pts = near_pair(it)
        if np.array_equal(kA, kB) or np.any(np.diff(kB) < 0):
            continue
        objs = {'A': bspline.KnotVector(kA.copy(), pp), 'B': bspline.KnotVector(kB.copy(), pp)}
        arrs = {'A': kA, 'B': kB}
        cpair = rng.integers(-5, 6, size=objs['A'].numdofs).astype(float)
        ndp = int(rng.integers(1, pp + 3))
        for step, which in enumerate(['A', 'B', 'A', 'B', 'B', 'A']):
            KVo, karr = objs[which], arrs[which]
            info_h = {'history': 'nearly equal knot vectors at identical nodes', 'step': '%d:%s' % (step, which), 'kvA': kA.tolist(), 'kvB': kB.tolist(),
                      'p': pp, 'nodes': pts.tolist()}
            fa_now = guarded(lambda: [int(KVo.first_active_at(float(u))) for u in pts])

            def r_coll(KVo=KVo, fa_now=fa_now):
                C = bspline.collocation(KVo, pts)
                V = dense_rows(C, KVo, pts, fa_now)
                C.data[:] = 0            # the caller may do what it likes with ITS matrix
                return V[None]

            def r_cd(KVo=KVo, fa_now=fa_now):
                Cs = bspline.collocation_derivs(KVo, pts, ndp)
                return np.stack([dense_rows(C, KVo, pts, fa_now) for C in Cs])

            add_sets(KVo, karr, pts, ndp, [('collocation[near-pair %s]' % which, 0, r_coll), ('collocation_derivs[near-pair %s]' % which, ndp, r_cd),
                                         ('active_deriv[near-pair %s]' % which, ndp, (lambda KVo=KVo: np.asarray(bspline.active_deriv(KVo, pts, ndp)).swapaxes(1, 2)))],
                     'near-pair', info_h)
            # spline evaluation routes of a function over the current knot vector
            Fp = bspline.BSplineFunc(KVo, cpair)
            names, oracles, sets = [], [], []
            for nm, kk, fn in (('grid_eval[near-pair %s]' % which, 0, lambda Fp=Fp: Fp.grid_eval((pts,))),
                               ('grid_jacobian[near-pair %s]' % which, 1, lambda Fp=Fp: Fp.grid_jacobian((pts,))),
                               ('pointwise_eval[near-pair %s]' % which, 0, lambda Fp=Fp: Fp.pointwise_eval((pts,)))):
                y = guarded(lambda fn=fn: np.asarray(fn(), dtype=float).ravel())
                orc = make_spl_oracle(karr, pp, cpair, pts, kk, fn)
                if isinstance(y, str) or y.size != len(pts):
                    S.add('rows 0 0 0 0 0', 'impl-' + str(y)[:40], nm, orc, info_h)
                    continue
                names.append(nm); oracles.append(orc); sets.append('%d %d %s' % (F_TP, kk, plist(y, frac)))
            if sets:
                S.add('spl %d %s %s %s %d %s' % (pp, plist(karr, frac), plist(cpair, frac), plist(pts, frac), len(sets), ' '.join(sets)),
                      'sets=%s' % ' '.join(['ok'] * len(sets)), verdict_kind(names, oracles, 'near-pair-eval'), None, info_h)
        ctx.count('near-pair histories')

    # ownership of the results of collocation_derivs: the caller edits ONE returned matrix in place; the others must still be right
    nown = 60 if quick else 800
    for it in range(nown):
        k, pp, style = gen_kv(rng, pmax=5, maxspans=5)
        KVo = bspline.KnotVector(k.copy(), pp)
        mesh = np.unique(k)
        pts = np.ascontiguousarray(np.concatenate((mesh, (mesh[:-1] + mesh[1:]) / 2, rng.uniform(mesh[0], mesh[-1], size=2))))   # nodes on knots: stored zeros
        ndo = int(rng.integers(1, pp + 3))
        fa_now = guarded(lambda: [int(KVo.first_active_at(float(u))) for u in pts])
        victim = int(rng.integers(0, ndo + 1))
        opname = str(rng.choice(['eliminate_zeros', 'prune', 'sort_indices', 'sum_duplicates', 'data*=2', 'data[:]=0', 'setdiag0', 'eliminate_zeros']))
        holder = {}

        def before():
            holder['Cs'] = bspline.collocation_derivs(KVo, pts, ndo)
            return np.stack([dense_rows(C, KVo, pts, fa_now) for C in holder['Cs']])

        def after():
            Cs = holder['Cs']
            C = Cs[victim]
            if opname == 'data*=2':
                C.data *= 2
            elif opname == 'data[:]=0':
                C.data[:] = 0
            elif opname == 'setdiag0':
                C.data[:] = 0; C.eliminate_zeros()
            else:
                getattr(C, opname)()
            # every matrix except the one the caller edited
            out = []
            for d_, Cd in enumerate(Cs):
                if d_ == victim:
                    out.append(holder['V0'][d_])        # not compared again: it is the caller's now
                else:
                    out.append(dense_rows(Cd, KVo, pts, fa_now))
            return np.stack(out)

        def before_keep():
            V = before(); holder['V0'] = V
            return V
        info_o = {'history': 'collocation_derivs, then the caller applies `%s` in place to returned matrix #%d' % (opname, victim),
                  'kv': k.tolist(), 'p': pp, 'nodes': pts.tolist(), 'derivs': ndo}
        add_sets(KVo, k, pts, ndo, [('collocation_derivs[fresh]', ndo, before_keep),
                                    ('collocation_derivs[after caller edited one matrix]', ndo, after)], 'ownership', info_o)
        ctx.count('ownership probes op=' + opname)

    # ---- probe: degrees beyond 12 (C `int fac` = p!/(p-k)! overflows 32 bits from p = 13, k = 11)
    hi = Stream(ctx, 'drv_c02')
    overflow = None
    for p in (13, 14, 16):
        kvh = bspline.make_knots(p, 0.0, 1.0, 2)
        u = 0.3
        safe = max(kk for kk in range(p + 1) if np.prod([float(p - i) for i in range(kk)]) < 2.0 ** 31)   # orders whose `fac` fits an int32
        for nd in (safe, p):
            try:
                V = np.asarray(bspline.active_deriv(kvh, u, nd), dtype=float)
                fah = int(kvh.first_active_at(u))
            except Exception as ex:
                hi.add('rows 0 0 0 0 0', 'impl-err-' + type(ex).__name__, 'active_deriv[p>=13]', None, {'p': p, 'numderiv': nd, 'u': u})
                continue
            s, ex = cox_oracle(kvh.kv, p, u, nd)
            ctx.count('high-degree probe evaluations')
            if V.shape != (nd + 1, p + 1) or not np.all(np.isfinite(V)):
                hi.add('rows 0 0 0 0 0', 'impl-bad-shape-or-nonfinite', 'active_deriv[p>=13]', None, {'p': p, 'numderiv': nd, 'u': u})
                continue
            relerr = [max(abs(Fraction(float(V[kk][r])) - ex[kk][r]) for r in range(p + 1)) / max(abs(x) for x in ex[kk]) for kk in range(nd + 1)]
            worst = max(relerr)
            # the overflow signature: every order whose `fac` fits is right, some higher order is wrong
            if nd > safe and worst > Fraction(1, 10 ** 9) and all(e <= Fraction(1, 10 ** 9) for e in relerr[:safe + 1]):
                if overflow is None:
                    kbad = min(kk for kk in range(nd + 1) if relerr[kk] > Fraction(1, 10 ** 9))
                    overflow = {'call': 'active_deriv(make_knots(%d, 0.0, 1.0, 2), %r, %d)' % (p, u, nd), 'first_wrong_derivative_order': kbad,
                                'relative_error': float(worst), 'p': p, 'u': u}
                continue        # reported under its own key; everything else goes through the diff below
            hi.add('rows %d %d %s %s 1 %d %s %s' % (p, nd, plist(kvh.kv, frac), plist([u], frac), nd, plist([fah]), plist(V.ravel(), frac)),
                   'idx=%s sets=ok spec=ok' % plist([fah]), 'active_deriv[p>=13]',
                   rows_oracle(kvh.kv, p, [u], nd, lambda j, fah=fah, V=V: (fah, V)), {'p': p, 'numderiv': nd, 'u': u})
    if overflow is not None:
        ctx.violation('ders-fac-int32-overflow',
                      'derivatives of order >= %d at degree %d are wrong by O(1): `cdef int fac` (p!/(p-k)!) overflows 32 bits — %s'
                      % (overflow['first_wrong_derivative_order'], overflow['p'], overflow['call']), overflow, True)
        ctx.notes.append('high-degree probe: requests showing exactly the int32-overflow signature are reported under their own key, all others are diffed')
    hi.run('bsp-high-degree', THEOREMS)

    S.run('bsp', THEOREMS)


# ----------------------------------------------------------------------------- helpers
def make_spl_oracle(k, p, c, us, kk, get):
    def f():
        y = np.asarray(get(), dtype=float).ravel()
        cF = [Fraction(float(x)) for x in c]
        for j, u in enumerate(us):
            s, ex = cox_oracle(k, p, u, kk)
            want = sum(cF[s - p + r] * ex[kk][r] for r in range(p + 1))
            scale = sum(abs(cF[s - p + r] * ex[kk][r]) for r in range(p + 1))
            if not np.isfinite(y[j]) or abs(Fraction(float(y[j])) - want) > Fraction(1, 10 ** 8) * scale:
                return 'derivative order %d of the spline at u=%r: implementation %r, exact %r' % (kk, float(u), float(y[j]), float(want))
        return None
    return f


def make_tp_oracle(k1, p1, k2, p2, C, x1, x2):
    def orc(d1, d2, Y):
        Y = np.asarray(Y, dtype=float)
        for a, u in enumerate(x1):
            s1, e1 = cox_oracle(k1, p1, u, d1)
            for b, v in enumerate(x2):
                s2, e2 = cox_oracle(k2, p2, v, d2)
                want = Fraction(0); scale = Fraction(0)
                for r1 in range(p1 + 1):
                    for r2 in range(p2 + 1):
                        term = Fraction(float(C[s1 - p1 + r1, s2 - p2 + r2])) * e1[d1][r1] * e2[d2][r2]
                        want += term; scale += abs(term)
                if not np.isfinite(Y[a, b]) or abs(Fraction(float(Y[a, b])) - want) > Fraction(1, 10 ** 8) * scale:
                    return 'tensor-product value (orders %d,%d) at (%r,%r): implementation %r, exact %r' % (d1, d2, float(u), float(v), float(Y[a, b]), float(want))
        return None
    return orc
