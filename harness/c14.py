"""
C14 — multipatch gluing is the equivalence closure of the joins, in any order (DESIGN.md §6/C14).

tie: hand-written Lean model (Pyiga.Model.Multipatch / Slice, driver drv_c14) vs
     pyiga.assemble.Multipatch on the same join histories: exact diff of the canonicalised state
     after every call, of numdofs and of every patch_to_global_idx after finalize, of the
     accumulated system of assemble_system (integer patch matrices).
     The implementation is compared with the model of the code as it is now (Cfg.repaired: /repo
     contains ddfa3af and 4c8c872; this is the model `glue_spec` is proved for).  Any disagreement
     fails the stream obligation.  For the report it is classified: if the implementation equals a
     model variant in which one of the two repairs is absent (Cfg.asCoded = the original source, kept
     in Lean for the negation witness) on a history showing that defect's signature, the violation
     carries the defect's key (`join meets two existing classes` / `patch without shared dofs`) —
     a known-finding line only while that key is listed as open in known_findings.d/C14.json.
theorems: Pyiga.Props.C14.*
search (model-free): networkx connected components of the declared identification graph
     (faces enumerated with numpy reshape/take/flip, not with pyiga), partition / gap-free
     numbering / numdofs == #components / one 1 per column / X^T X = I on the implementation.
"""
import itertools

import numpy as np

from .common import plist

THEOREMS = [
    'Pyiga.Props.C14.glue_spec',
    'Pyiga.Props.C14.glue_numbering',
    'Pyiga.Props.C14.glue_numdofs_eq_classes',
    'Pyiga.Props.C14.glue_order_independent',
    'Pyiga.Props.C14.glue_spec_calls',
    'Pyiga.Props.C14.glue_spec_boundaries',
    'Pyiga.Props.C14.glue_spec_phases',
    'Pyiga.Props.C14.glue_spec_call_phases',
    'Pyiga.Props.C14.glue_spec_partial',
    'Pyiga.Props.C14.asCoded_eq_repaired_of_noMeet',
    'Pyiga.Props.C14.glue_spec_asCoded_false',
    'Pyiga.Props.C14.flip_pairs',
    'Pyiga.Props.C14.p2g_matrix_column',
    'Pyiga.Props.C14.p2g_matrix_orthonormal',
    'Pyiga.Props.C14.assemble_accumulate',
    'Pyiga.Props.C14.assemble_accumulate_rhs',
    'Pyiga.Props.C14.split_assembly_entry',
    'Pyiga.Props.C14.split_assembly',
    'Pyiga.Props.C14.split_assembly_rhs',
    'Pyiga.Props.C14.unshared_patch_asCoded_raises',
    'Pyiga.Props.C14.p2gIdx_ok',
    'Pyiga.Props.C14.globOf_inv',
]
MODULES = ['Pyiga.Model.Index', 'Pyiga.Model.Slice', 'Pyiga.Model.Multipatch', 'Pyiga.Proofs.Multipatch', 'Pyiga.Proofs.MultipatchMat', 'Pyiga.Proofs.MultipatchSlice', 'Pyiga.Proofs.MultipatchPhases', 'Pyiga.Proofs.MultipatchSplit', 'Pyiga.Props.C14']

KEY_MERGE = 'join meets two existing classes'
KEY_UNSHARED = 'patch without shared dofs'


# ----------------------------------------------------------------------------- complexes

def grid_complex(counts, rev):
    """conforming grid of patches; counts[a] = list of dof counts of the slabs along axis a
    (axis order as in pyiga: axis 0 first).  rev[p][a] = patch p numbered in reverse along axis a.
    Returns (shapes, interfaces) with interfaces = (p1, ax1, side1, p2, ax2, side2, flip)."""
    dim = len(counts)
    dims = [len(c) for c in counts]
    cells = list(itertools.product(*[range(d) for d in dims]))
    pid = {c: k for k, c in enumerate(cells)}
    shapes = [[counts[a][c[a]] for a in range(dim)] for c in cells]
    intf = []
    for c in cells:
        for a in range(dim):
            if c[a] + 1 < dims[a]:
                d = list(c); d[a] += 1; d = tuple(d)
                p, q = pid[c], pid[d]
                s1 = 0 if rev[p][a] else 1
                s2 = 1 if rev[q][a] else 0
                flip = tuple(bool(rev[p][t] != rev[q][t]) for t in range(dim) if t != a)
                intf.append((p, a, s1, q, a, s2, flip if (dim > 1) else ()))
    return shapes, intf


def ring_complex(k, n, rev):
    """k patches (n x n dofs) around a common vertex; patch j's edge B is glued to patch j+1's edge A."""
    shapes = [[n, n] for _ in range(k)]
    intf = []
    for j in range(k):
        q = (j + 1) % k
        if q == j:
            continue
        # edge B of j: axis 1, side rev[j][1]; tangential axis 0
        # edge A of q: axis 0, side rev[q][0]; tangential axis 1
        flip = (bool(rev[j][0] != rev[q][1]),)
        intf.append((j, 1, int(rev[j][1]), q, 0, int(rev[q][0]), flip))
    return shapes, intf


def face_np(shape, ax, side, flip=None):
    """model-free enumeration of the raveled dofs of a face (numpy only)"""
    idx = np.arange(int(np.prod(shape))).reshape(shape)
    f = np.take(idx, 0 if side == 0 else shape[ax] - 1, axis=ax)
    if flip is not None:
        for t, fl in enumerate(flip):
            if fl:
                f = np.flip(f, axis=t)
    return [int(v) for v in f.ravel()]


def declared_pairs(shapes, call):
    if call[0] == 'jb':
        _, p1, ax1, s1, p2, ax2, s2, flip = call
        d1 = face_np(shapes[p1], ax1, s1)
        d2 = face_np(shapes[p2], ax2, s2, flip)
        if len(d1) != len(d2) or p1 == p2:
            return None
        return [((p1, a), (p2, b)) for a, b in zip(d1, d2)]
    _, p1, I1, p2, I2 = call
    if len(I1) != len(I2) or p1 == p2:
        return None
    return [((p1, int(a)), (p2, int(b))) for a, b in zip(I1, I2)]


def fmt_call(call):
    if call[0] == 'jb':
        _, p1, ax1, s1, p2, ax2, s2, flip = call
        return 'jb %d %d %d %d %d %d %d %s' % (p1, ax1, s1, p2, ax2, s2, 0 if flip is None else 1,
                                                plist(flip or (), lambda b: '1' if b else '0'))
    _, p1, I1, p2, I2 = call
    return 'jd %d %s %d %s' % (p1, plist(I1), p2, plist(I2))


def fmt_hist(shapes, calls):
    return '%s %s' % (plist(shapes, plist), plist(calls, fmt_call))


# ----------------------------------------------------------------------------- implementation side

_kv_cache = {}


def kv_with(n):
    from pyiga import bspline
    if n not in _kv_cache:
        _kv_cache[n] = bspline.make_knots(0, 0.0, 1.0, 1) if n == 1 else bspline.make_knots(1, 0.0, 1.0, n - 1)
        assert _kv_cache[n].numdofs == n
    return _kv_cache[n]


def errtok(ex):
    if isinstance(ex, AssertionError):
        return 'err-assertion'
    return 'err-' + type(ex).__name__


def state_str(M):
    sd = plist(M.shared_dofs, lambda c: plist(sorted((int(p), int(i)) for (p, i) in c), lambda d: '%d:%d' % d))
    spp = plist(M.shared_per_patch, lambda d: plist(sorted((int(k), int(v)) for k, v in d.items()), lambda kv: '%d:%d' % kv))
    return 'sd=%s spp=%s' % (sd, spp)


def run_impl(shapes, calls):
    """returns (answer string, Multipatch or None, list of per-call ok flags)"""
    from pyiga import assemble
    patches = [(tuple(kv_with(n) for n in sh), p) for p, sh in enumerate(shapes)]
    M = assemble.Multipatch(patches, automatch=False)
    outs, oks = [], []
    for c in calls:
        try:
            if c[0] == 'jb':
                _, p1, ax1, s1, p2, ax2, s2, flip = c
                M.join_boundaries(p1, (ax1, s1), p2, (ax2, s2), flip=flip)
            else:
                _, p1, I1, p2, I2 = c
                M.join_dofs(p1, np.array(I1, dtype=int), p2, np.array(I2, dtype=int))
            outs.append('ok ' + state_str(M)); oks.append(True)
        except Exception as ex:
            outs.append(errtok(ex)); oks.append(False)
    try:
        M.finalize()
        fin = 'fin %s nd=%d ' % (state_str(M), int(M.numdofs))
        p2g = []
        for p in range(len(shapes)):
            try:
                p2g.append(plist(int(v) for v in M.patch_to_global_idx(p)))
            except Exception as ex:
                p2g.append(errtok(ex))
        fin += ' ; '.join(p2g)
    except Exception as ex:
        fin = 'fin ' + errtok(ex)
    outs.append(fin)
    return ' | '.join(outs), M, oks


# ----------------------------------------------------------------------------- oracle (model-free)

def history_signature(shapes, calls):
    """which recorded-defect signatures does the history show?  (independent union-find replay)"""
    parent = {}

    def find(x):
        while parent[x] != x:
            parent[x] = parent[parent[x]]
            x = parent[x]
        return x
    meets = False
    touched = set()
    for c in calls:
        pairs = declared_pairs(shapes, c)
        if pairs is None:
            continue
        for a, b in pairs:
            for x in (a, b):
                parent.setdefault(x, x)
            ra, rb = find(a), find(b)
            if a in touched and b in touched and ra != rb:
                meets = True
            touched.add(a); touched.add(b)
            parent[ra] = rb
    unshared = [p for p in range(len(shapes)) if not any(x[0] == p for x in touched)]
    return meets, unshared


def oracle(shapes, calls, M=None):
    """The property itself on the implementation.  Returns None (holds) or a description."""
    import networkx as nx
    try:
        if M is None:
            _, M, _ = run_impl(shapes, calls)
        G = nx.Graph()
        for p, sh in enumerate(shapes):
            G.add_nodes_from((p, i) for i in range(int(np.prod(sh))))
        for c in calls:
            pairs = declared_pairs(shapes, c)
            if pairs is not None:
                G.add_edges_from(pairs)
        comps = list(nx.connected_components(G))
        nd = int(M.numdofs)
        glob = {}
        for p, sh in enumerate(shapes):
            try:
                idx = M.patch_to_global_idx(p)
            except Exception as ex:
                return 'patch_to_global_idx(%d) raised %s: %s' % (p, type(ex).__name__, str(ex)[:100])
            if len(idx) != int(np.prod(sh)):
                return 'patch_to_global_idx(%d) has wrong length' % p
            for i, g in enumerate(idx):
                glob[(p, i)] = int(g)
        if nd != len(comps):
            return 'numdofs == %d but the declared identifications have %d classes' % (nd, len(comps))
        seen = {}
        for comp in comps:
            gs = {glob[x] for x in comp}
            if len(gs) != 1:
                x, y = sorted(comp)[:2]
                return 'dofs %s of one class get different global indices %s' % (sorted(comp)[:4], sorted(gs)[:4])
            g = gs.pop()
            if g in seen:
                return 'two different classes (%s, %s) share global index %d' % (sorted(comp)[:2], sorted(seen[g])[:2], g)
            seen[g] = comp
        if sorted(seen) != list(range(nd)):
            return 'global numbering is not gap-free onto range(numdofs)'
        one_per_patch = all(len({x[0] for x in comp}) == len(comp) for comp in comps)
        for p, sh in enumerate(shapes):
            X = M.patch_to_global(p).toarray()
            n = int(np.prod(sh))
            if X.shape != (nd, n) or not np.array_equal(X.sum(axis=0), np.ones(n)) or set(np.unique(X)) - {0.0, 1.0}:
                return 'patch_to_global(%d) is not a 0/1 matrix with one entry per column' % p
            if not all(X[glob[(p, i)], i] == 1 for i in range(n)):
                return 'patch_to_global(%d) disagrees with patch_to_global_idx' % p
            if one_per_patch and not np.array_equal(X.T @ X, np.eye(n)):
                return 'patch_to_global(%d)^T is not a left inverse' % p
            if not np.array_equal(M.global_to_patch(p).toarray(), X.T):
                return 'global_to_patch(%d) is not the transpose of patch_to_global' % p
            Xg = M.patch_to_global(p, j_global=True).toarray()
            ofs = int(M.N_ofs[p])
            if Xg.shape != (nd, int(M.N_ofs[-1])) or not np.array_equal(Xg[:, ofs:ofs + n], X) or Xg.sum() != n:
                return 'patch_to_global(%d, j_global=True) is not patch_to_global(%d) placed at column offset N_ofs' % (p, p)
        return None
    except Exception as ex:
        return 'implementation raised %s: %s' % (type(ex).__name__, str(ex)[:160])


def classify(shapes, calls, descr):
    meets, unshared = history_signature(shapes, calls)
    if 'patch_to_global_idx' in descr and 'IndexError' in descr and unshared:
        return KEY_UNSHARED
    if meets:
        return KEY_MERGE
    return 'mp-oracle'


# ----------------------------------------------------------------------------- generators

def with_repetition(rng, order):
    """insert one repetition of an earlier call at a later position"""
    k = len(order)
    i = int(rng.integers(0, k))
    j = int(rng.integers(i + 1, k + 1))
    return order[:j] + [order[i]] + order[j:]


def rand_rev(rng, npatches, dim, prob):
    return [tuple(bool(rng.random() < prob) for _ in range(dim)) for _ in range(npatches)]


def gen_histories(ctx):
    rng = ctx.rng
    quick = ctx.tier == 'quick'
    H = []   # (name, shapes, calls)

    def add_orders(name, shapes, intf, orders, rep=True, prefixes=False):
        calls_all = [('jb',) + tuple(i) for i in intf]
        for order in orders:
            seq = [calls_all[k] for k in order]
            H.append((name, shapes, seq))
            if rep and len(seq) >= 1:
                H.append((name + '+rep', shapes, with_repetition(rng, seq)))
            if prefixes and len(seq) > 1:
                cut = int(rng.integers(0, len(seq)))
                H.append((name + '+prefix', shapes, seq[:cut]))

    def flipless(intf):
        return [i[:6] + (None,) for i in intf]

    # corpus (runs first): the Lean negation witness `witnessD10` (cross-point history on 2x2 patches of 2x2 dofs),
    # the same complex in the order detect_interfaces produces (`orderOK`), a single patch without calls
    w = [[2, 2]] * 4
    jb = {(0, 1): ('jb', 0, 1, 1, 1, 1, 0, None), (2, 3): ('jb', 2, 1, 1, 3, 1, 0, None),
          (0, 2): ('jb', 0, 0, 1, 2, 0, 0, None), (1, 3): ('jb', 1, 0, 1, 3, 0, 0, None)}
    H.append(('corpus-witnessD10', w, [jb[(0, 1)], jb[(2, 3)], jb[(0, 2)], jb[(1, 3)]]))
    H.append(('corpus-orderOK', w, [jb[(0, 1)], jb[(0, 2)], jb[(1, 3)], jb[(2, 3)]]))
    H.append(('corpus-single', [[3, 2]], []))
    # 2x1 and 1x2, all sizes 2..3, with and without reversal
    for n0, n1, n2 in itertools.product((2, 3), repeat=3):
        for rev in itertools.product(itertools.product((False, True), repeat=2), repeat=2):
            shapes, intf = grid_complex([[n0], [n1, n2]], list(rev))
            add_orders('2x1', shapes, intf, [[0]])
    # 2x2: all 24 orders, unflipped with flip=None and explicit flips, several reversal patterns
    perms4 = list(itertools.permutations(range(4)))
    for variant in range(6 if quick else 40):
        rev = rand_rev(rng, 4, 2, 0.0 if variant == 0 else 0.4)
        c = [[int(rng.integers(2, 4)) for _ in range(2)] for _ in range(2)]
        shapes, intf = grid_complex(c, rev)
        if variant == 0:
            intf = flipless(intf)
        add_orders('2x2', shapes, intf, perms4, prefixes=True)
    # rings k = 3..6: all orders
    for k in range(3, 7):
        perms = list(itertools.permutations(range(k)))
        if quick and k == 6:
            sel = [perms[i] for i in rng.permutation(len(perms))[:240]]
        else:
            sel = perms
        for variant in range(2 if quick else 6):
            rev = rand_rev(rng, k, 2, 0.0 if variant == 0 else 0.5)
            shapes, intf = ring_complex(k, int(rng.integers(2, 4)), rev)
            if variant == 0:
                intf = flipless(intf)
            add_orders('ring%d' % k, shapes, intf, sel if variant == 0 or not quick else sel[: max(24, len(sel) // 4)], prefixes=(k <= 4))
    # 3x2: all orders of the interfaces meeting a cross point x sampled rest
    for variant in range(2 if quick else 10):
        rev = rand_rev(rng, 6, 2, 0.0 if variant == 0 else 0.3)
        shapes, intf = grid_complex([[2, int(rng.integers(2, 4))], [2, 3, 2]], rev)
        n = len(intf)
        for _ in range(150 if quick else 2000):
            add_orders('3x2', shapes, intf, [[int(v) for v in rng.permutation(n)]], rep=False)
    # 2x2x2 sampled, with 3-D flips
    for variant in range(2 if quick else 8):
        rev = rand_rev(rng, 8, 3, 0.0 if variant == 0 else 0.3)
        shapes, intf = grid_complex([[2, 2], [2, 3], [2, 2]], rev)
        n = len(intf)
        for _ in range(40 if quick else 600):
            add_orders('2x2x2', shapes, intf, [[int(v) for v in rng.permutation(n)]], rep=False)
    # random join_dofs histories on small 1-D patches (arbitrary identifications; error calls)
    for _ in range(1200 if quick else 20000):
        P = int(rng.integers(2, 6))
        shapes = [[int(rng.integers(1, 5))] for _ in range(P)]
        calls = []
        for _ in range(int(rng.integers(1, 7))):
            p1, p2 = [int(v) for v in rng.choice(P, size=2, replace=False)]
            m = int(rng.integers(1, 4))
            I1 = [int(rng.integers(0, shapes[p1][0])) for _ in range(m)]
            I2 = [int(rng.integers(0, shapes[p2][0])) for _ in range(m)]
            r = rng.random()
            if r < 0.04:
                I2 = I2 + [0]
            elif r < 0.08:
                p2 = p1; I2 = I1
            calls.append(('jd', p1, I1, p2, I2))
        H.append(('rand-jd', shapes, calls))
    return H


# ----------------------------------------------------------------------------- multi-phase stream

def phases_stream(ctx):
    """ONE Multipatch object through 2-3 phases: joins -> finalize() -> queries (state, numdofs, every
    patch_to_global_idx, patch_to_global, compute_dirichlet_bcs on several patches/faces, assemble_system)
    -> more joins (incl. 'periodic' identifications that merge classes) -> finalize() -> the same queries
    again.  The model recomputes everything from the current tables; the oracle is the networkx closure of
    all identifications declared so far, and Dirichlet dofs = global indices of the face dofs.
    Anything cached on the object across finalize() shows up as a disagreement in a later phase."""
    from pyiga import assemble, geometry
    import scipy.sparse
    rng = ctx.rng
    n_hist = 260 if ctx.tier == 'quick' else 4000
    geo_of = {1: lambda: geometry.line_segment(0.0, 1.0), 2: geometry.unit_square, 3: geometry.unit_cube}
    req, impl, meta = [], [], []
    orig_assemble = assemble.assemble
    for h in range(n_hist):
        kind = int(rng.integers(0, 4))
        if kind == 0:
            c = [[int(rng.integers(2, 4))], [int(rng.integers(2, 4)) for _ in range(int(rng.integers(2, 4)))]]
            rev = rand_rev(rng, len(c[1]), 2, 0.3)
            shapes, intf = grid_complex(c, rev)                      # strip 1 x k
            # periodic closure: last patch's far face ~ first patch's near face (not detectable geometrically)
            k = len(c[1])
            if c[1][0] == c[1][-1] or True:
                s_last = 0 if rev[k - 1][1] else 1
                s_first = 1 if rev[0][1] else 0
                intf = intf + [(k - 1, 1, s_last, 0, 1, s_first, (bool(rev[k - 1][0] != rev[0][0]),))]
        elif kind == 1:
            rev = rand_rev(rng, 4, 2, 0.3)
            shapes, intf = grid_complex([[int(rng.integers(2, 4)) for _ in range(2)] for _ in range(2)], rev)
        elif kind == 2:
            k = int(rng.integers(3, 6))
            shapes, intf = ring_complex(k, int(rng.integers(2, 4)), rand_rev(rng, k, 2, 0.3))
        else:
            rev = rand_rev(rng, 4, 3, 0.3)
            shapes, intf = grid_complex([[2, 2], [2], [2, int(rng.integers(2, 4))]], rev)
        dim = len(shapes[0])
        calls = [('jb',) + tuple(intf[int(i)]) for i in rng.permutation(len(intf))]
        if rng.random() < 0.3:
            calls = with_repetition(rng, calls)
        nph = int(rng.integers(2, 4))
        cuts = sorted(int(v) for v in rng.integers(0, len(calls) + 1, size=nph - 1))
        phases = [calls[a:b] for a, b in zip([0] + cuts, cuts + [len(calls)])]
        Q = [(int(rng.integers(0, len(shapes))), int(rng.integers(0, dim)), int(rng.integers(0, 2)), int(rng.integers(1, 10)))
             for _ in range(int(rng.integers(1, 5)))]
        ctx.case(('phases', tuple(map(tuple, shapes)), tuple(map(tuple, phases)), tuple(Q)), nontrivial=len(calls) >= 2)
        ctx.count('multi-phase histories'); ctx.count('multi-phase: phases', nph)
        Ns = [int(np.prod(sh)) for sh in shapes]
        Ap = [rng.integers(-3, 4, size=(n, n)) for n in Ns]
        bp = [rng.integers(-3, 4, size=n) for n in Ns]
        outs = []
        found = None
        try:
            geos = [geo_of[dim]() for _ in shapes]
            patches = [(tuple(kv_with(n) for n in sh), g) for sh, g in zip(shapes, geos)]
            M = assemble.Multipatch(patches, automatch=False)
            sofar = []
            for ph_no, ph in enumerate(phases):
                for c in ph:
                    _, p1, ax1, s1, p2, ax2, s2, flip = c
                    M.join_boundaries(p1, (ax1, s1), p2, (ax2, s2), flip=flip)
                sofar = sofar + ph
                M.finalize()
                fin = 'fin %s nd=%d ' % (state_str(M), int(M.numdofs))
                idx = [np.asarray(M.patch_to_global_idx(p)) for p in range(len(shapes))]
                fin += ' ; '.join(plist(int(v) for v in ix) for ix in idx)
                try:
                    bi, bv = M.compute_dirichlet_bcs([(p, (ax, sd), float(val)) for (p, ax, sd, val) in Q])
                    bi = [int(v) for v in bi]; bv = [float(v) for v in bv]
                    if any(abs(v - round(v)) > 1e-9 for v in bv):
                        found = found or 'phase %d: compute_dirichlet_bcs values are not the constant data' % ph_no
                    bc = plist(zip(bi, bv), lambda iv: '%d:%d' % (iv[0], int(round(iv[1]))))
                    # model-free: Dirichlet dofs = global indices (fresh numbering) of the face dofs, first occurrence wins
                    want = {}
                    for (p, ax, sd, val) in Q:
                        for i in face_np(shapes[p], ax, sd):
                            want.setdefault(int(idx[p][i]), val)
                    if sorted(want) != bi or [want[i] for i in bi] != [int(round(v)) for v in bv]:
                        found = found or ('phase %d: compute_dirichlet_bcs does not address the glued dofs of the faces: got indices %s, '
                                          'global indices of the face dofs are %s (numdofs %d)' % (ph_no, bi[:12], sorted(want)[:12], int(M.numdofs)))
                except Exception as ex:
                    bc = errtok(ex)
                    found = found or 'phase %d: compute_dirichlet_bcs raised %s' % (ph_no, type(ex).__name__)
                outs.append(fin + ' bc=' + bc)
                d = oracle(shapes, sofar, M)
                if d is not None:
                    found = found or 'phase %d: %s' % (ph_no, d)
                # assemble_system on the same object (integer patch matrices through a table lookup)
                def fake(problem, kvs, args=None, bfuns=None, symmetric=False, format='csr', layout='blocked', **kw):
                    p = next(k for k, g in enumerate(geos) if g is args['geo'])
                    return scipy.sparse.csr_matrix(Ap[p].astype(float)) if problem == 'A' else bp[p].astype(float)
                assemble.assemble = fake
                try:
                    A, b = M.assemble_system('A', 'b')
                finally:
                    assemble.assemble = orig_assemble
                A = np.asarray(A.toarray()); nd = int(M.numdofs)
                wantA = np.zeros((nd, nd)); wantb = np.zeros(nd)
                for p in range(len(shapes)):
                    np.add.at(wantA, (idx[p][:, None], idx[p][None, :]), Ap[p])
                    np.add.at(wantb, idx[p], bp[p])
                if A.shape != wantA.shape or not np.array_equal(A, wantA) or not np.array_equal(np.asarray(b), wantb):
                    found = found or 'phase %d: assemble_system differs from sum_p X_p A_p X_p^T for the current numbering' % ph_no
        except Exception as ex:
            outs.append(errtok(ex))
            found = found or 'implementation raised %s: %s' % (type(ex).__name__, str(ex)[:120])
        finally:
            assemble.assemble = orig_assemble
        req.append('phases 1 1 %s %s %s' % (plist(shapes, plist), plist(Q, lambda q: '%d %d %d %d' % q), plist(phases, lambda ph: plist(ph, fmt_call))))
        impl.append(' || '.join(outs)); meta.append((shapes, phases, Q, found))
    got = ctx.model('drv_c14', req)
    nd_ = 0
    for r, e, g, m in zip(req, impl, got, meta):
        shapes, phases, Q, found = m
        if e != g or found is not None:
            nd_ += 1
            if nd_ <= 3:
                if e != g:
                    pe, pg = e.split(' || '), g.split(' || ')
                    first = next((k for k in range(min(len(pe), len(pg))) if pe[k] != pg[k]), min(len(pe), len(pg)))
                else:
                    first = None
                ctx.violation('mp-phases' if found is not None else 'mp-corr:phases',
                              ('property fails on the implementation (one object, several finalize() phases): ' + found) if found
                              else 'model and implementation disagree in phase %s of a multi-phase history' % first,
                              {'shapes': shapes, 'phases': [[list(c) for c in ph] for ph in phases],
                               'dirichlet_queries (patch, axis, side, constant value)': Q, 'first_differing_phase': first,
                               'implementation': e[:3000], 'model': g[:3000], 'oracle': found,
                               'replay': 'M = Multipatch([(kvs_p, unit_square()/unit_cube())…]); per phase: join_boundaries(...) per call; M.finalize(); '
                                         'M.patch_to_global_idx(p); M.compute_dirichlet_bcs([(p,(ax,side),float(val))…]); M.assemble_system'},
                              found is not None)
    ctx.obligation('correspondence stream mp/phases: %d multi-phase histories on one object, model == implementation and oracle holds' % len(req),
                   nd_ == 0, '%d failing histories' % nd_)
    ctx.extra['requests'] = ctx.extra.get('requests', 0) + len(req)


# ----------------------------------------------------------------------------- conforming split stream

def _make_axis(rng, p, nseg):
    """open knot vector of degree p on [0,1]: `nseg` segments separated by knots of multiplicity p (C^0 there, so the
    space splits conformingly), inside the segments further knots of multiplicity 1..p.  All knots dyadic."""
    from pyiga import bspline
    per = int(rng.integers(1, 4))
    nb = nseg * per
    cuts = [k * per for k in range(1, nseg)]
    kv = [0.0] * (p + 1)
    for j in range(1, nb):
        if j in cuts:
            kv += [j / nb] * p
        elif rng.random() < 0.7:
            kv += [j / nb] * int(rng.integers(1, p + 1))
    kv += [1.0] * (p + 1)
    return bspline.KnotVector(np.array(kv), p), [j / nb for j in cuts]


def _split_axis(kv, cuts):
    """[(sub knot vector, index of its first dof in the undivided space)]"""
    from pyiga import bspline
    p, k = kv.p, kv.kv
    first = [int(np.searchsorted(k, t, side='left')) for t in cuts]     # first position of each cut knot
    out = []
    for s, e in zip([None] + first, first + [None]):
        lo = 0 if s is None else s
        seg = k[lo:] if e is None else np.concatenate((k[lo:e + p], [k[e]]))
        if s is not None:
            seg = np.concatenate(([k[s]], seg))
        out.append((bspline.KnotVector(np.array(seg), p), 0 if s is None else s - 1))
    return out


def split_stream(ctx):
    """'Assembling over a conforming decomposition gives, up to the renumbering, the system of the undivided domain'
    (model-free, float-level evidence; the algebraic statement is Lean's `split_assembly`).
    A single-patch tensor-product B-spline space (2-D / 3-D, degrees 1-3, isoparametric affine or curved geometry) is
    split along interior knots of multiplicity p into 2-4 patches (strips, 2x2 grids): sub knot vectors and coefficient
    sub-blocks, an exact restriction.  The patches are glued by automatch and by manual joins in random order; mass /
    stiffness + load vector come from Multipatch.assemble_system with the shipped assemblers, and are compared with the
    single-patch system under the renumbering obtained by matching Greville points.  Tolerance (DESIGN 1): every
    entry is a quadrature sum, bounded termwise by the mass / stiffness diagonals (Cauchy-Schwarz), so
    |diff[g,h]| <= c * nops * 2^-53 * kappa(J)^2 * (D[g] + D[h]) / 2 with D the diagonal of the single-patch matrix."""
    from pyiga import assemble, assemblers, bspline
    import scipy.sparse
    rng = ctx.rng
    ncase = 16 if ctx.tier == 'quick' else 150
    nfail = 0
    worst = 0.0          # largest observed |diff| / tolerance (evidence that the bound is neither tight nor vacuous)
    for case in range(ncase):
        dim = 2 if rng.random() < 0.65 else 3
        ps = [int(rng.integers(1, 4)) for _ in range(dim)]
        nsegs = [1] * dim
        if rng.random() < 0.5:
            nsegs[int(rng.integers(0, dim))] = int(rng.integers(2, 5))          # strip of 2-4 patches
        else:
            a, b = [int(v) for v in rng.permutation(dim)[:2]]
            nsegs[a] = nsegs[b] = 2                                           # 2 x 2 grid
        axes = [_make_axis(rng, ps[a], nsegs[a]) for a in range(dim)]
        kvs = tuple(ax[0] for ax in axes)
        N = tuple(int(kv.numdofs) for kv in kvs)
        grev = np.stack(np.meshgrid(*[kv.greville() for kv in kvs], indexing='ij'), axis=-1)
        coeffs = grev[..., ::-1].copy()                                       # identity map (last axis = x)
        gkind = ['identity', 'affine', 'curved'][int(rng.integers(0, 3))]
        if gkind != 'identity':
            T = np.eye(dim) + 0.3 * rng.uniform(-1, 1, size=(dim, dim))
            coeffs = coeffs @ T.T + rng.uniform(-1, 1, size=dim)
        if gkind == 'curved':
            h = min(1.0 / n for n in N)
            coeffs = coeffs + 0.2 * h * rng.uniform(-1, 1, size=coeffs.shape)
        geo = bspline.BSplineFunc(kvs, np.ascontiguousarray(coeffs))
        pieces = [_split_axis(kv, cuts) for (kv, cuts) in axes]
        patches, cells = [], []
        for combo in itertools.product(*[range(len(pc)) for pc in pieces]):
            kvp = tuple(pieces[a][c][0] for a, c in enumerate(combo))
            ofs = tuple(pieces[a][c][1] for a, c in enumerate(combo))
            sl = tuple(slice(o, o + int(kv.numdofs)) for o, kv in zip(ofs, kvp))
            patches.append((kvp, bspline.BSplineFunc(kvp, np.ascontiguousarray(coeffs[sl])))); cells.append((combo, ofs))
        # manual joins: grid adjacency, random order
        cid = {c[0]: k for k, c in enumerate(cells)}
        joins = []
        for combo, _ in cells:
            for a in range(dim):
                nb_ = list(combo); nb_[a] += 1
                if tuple(nb_) in cid:
                    joins.append((cid[combo], (a, 1), cid[tuple(nb_)], (a, 0)))
        joins = [joins[int(i)] for i in rng.permutation(len(joins))]
        fc = rng.integers(-2, 3, size=dim + 1).astype(float)
        f = lambda *X, fc=fc: fc[0] + sum(c * x for c, x in zip(fc[1:], X))    # parametric coordinates
        gd = rng.integers(-2, 3, size=dim + 1).astype(float)
        gfun = lambda *X, gd=gd: gd[0] + sum(c * x for c, x in zip(gd[1:], X))  # physical coordinates (Dirichlet data)
        suffix = '%dD' % dim
        Mass, Stiff, Load = [getattr(assemblers, nm + suffix) for nm in ('MassAssembler', 'StiffnessAssembler', 'L2FunctionalAssembler')]
        key = ('split', dim, tuple(ps), tuple(nsegs), gkind, tuple(kv.kv.tolist() for kv in kvs))
        ctx.case(key, nontrivial=True)
        ctx.count('split dim=%d %s' % (dim, gkind)); ctx.count('split patches', len(patches))
        replay = {'dim': dim, 'degrees': ps, 'knots': [kv.kv.tolist() for kv in kvs], 'segments_per_axis': nsegs, 'geometry': gkind,
                  'geometry_coeffs': np.asarray(coeffs).tolist(), 'f(parametric) coefficients': fc.tolist(), 'dirichlet g(physical) coefficients': gd.tolist(),
                  'manual_join_order': [list(map(list, (j[1], j[3]))) + [j[0], j[2]] for j in joins],
                  'how': 'patch = sub knot vectors (cut knots repeated p+1 times) + coefficient sub-block of the isoparametric geometry; '
                         'Multipatch(patches, automatch=True) and manual join_boundaries in the given order; assemble_system(MassAssembler/StiffnessAssembler, '
                         'L2FunctionalAssembler, args={f}); compare with assemble(...) on the undivided space after renumbering by Greville points'}
        bad = None
        try:
            ntot = int(np.prod(N))
            A1 = {nm: assemble.assemble(cls, kvs, args={'geo': geo}).toarray() for nm, cls in (('mass', Mass), ('stiffness', Stiff))}
            b1 = np.asarray(assemble.assemble(Load, kvs, args={'geo': geo, 'f': f})).ravel()
            # condition of the Jacobian (enters the stiffness terms twice)
            gridj = [np.linspace(kv.support()[0], kv.support()[1], 5) for kv in kvs]
            J = geo.grid_jacobian(gridj).reshape(-1, dim, dim)
            kappa = float(max(np.linalg.cond(Jm) for Jm in J))
            nops = 64 * int(np.prod([(p_ + 1) ** 2 for p_ in ps]))
            u_ = 2.0 ** -53
            full_grev = {tuple(np.round(g_, 12)): i for i, g_ in enumerate(grev.reshape(-1, dim))}
            bc1 = assemble.compute_dirichlet_bcs(kvs, geo, ('all', gfun))
            for mode in ('automatch', 'manual'):
                if mode == 'automatch':
                    M = assemble.Multipatch(patches, automatch=True)
                else:
                    M = assemble.Multipatch(patches, automatch=False)
                    for j in joins:
                        M.join_boundaries(*j)
                    M.finalize()
                nd = int(M.numdofs)
                if nd != ntot:
                    bad = '%s: numdofs == %d, the undivided space has %d dofs' % (mode, nd, ntot); break
                # renumbering by Greville points (parametric; the split keeps the parameter intervals)
                g_of = np.full(ntot, -1)
                for q, (kvp, _) in enumerate(patches):
                    idx = np.asarray(M.patch_to_global_idx(q))
                    gp = np.stack(np.meshgrid(*[kv.greville() for kv in kvp], indexing='ij'), axis=-1).reshape(-1, dim)
                    for i, g_ in enumerate(gp):
                        I = full_grev.get(tuple(np.round(g_, 12)))
                        if I is None:
                            raise AssertionError('harness: Greville point of a patch dof not found in the undivided space')
                        if g_of[I] not in (-1, idx[i]):
                            bad = '%s: the pieces of undivided basis function %d get different global indices %d, %d' % (mode, I, g_of[I], idx[i])
                        g_of[I] = idx[i]
                if bad:
                    break
                if sorted(g_of.tolist()) != list(range(nd)):
                    bad = '%s: Greville matching is not a bijection onto range(numdofs)' % mode; break
                P = scipy.sparse.coo_matrix((np.ones(ntot), (g_of, np.arange(ntot))), shape=(nd, ntot)).tocsr()
                massdiag = None
                for nm, cls in (('mass', Mass), ('stiffness', Stiff)):
                    A, b = M.assemble_system(cls, Load, args={'f': f})
                    A = np.asarray(A.toarray())
                    want = (P @ scipy.sparse.csr_matrix(A1[nm]) @ P.T).toarray()
                    D = np.abs(np.diag(want))
                    fac = kappa ** 2 if nm == 'stiffness' else kappa
                    tol = 8 * nops * u_ * fac * 0.5 * (D[:, None] + D[None, :])
                    err = np.abs(A - want)
                    worst = max(worst, float(np.max(err / np.maximum(tol, 1e-300))))
                    if np.any(err > tol):
                        g, h = np.unravel_index(np.argmax(err - tol), err.shape)
                        bad = ('%s: %s matrix of the split differs from the undivided one at glued entry (%d,%d): %r vs %r (tolerance %.2e from the '
                               'termwise bound)' % (mode, nm, g, h, float(A[g, h]), float(want[g, h]), float(tol[g, h])))
                        break
                    if nm == 'mass':
                        rows = np.abs(want).sum(axis=1)            # = integral of N_g |det J| (partition of unity)
                        wantb = P @ b1
                        tolb = 8 * nops * u_ * kappa * float(np.abs(fc).sum()) * rows
                        if np.any(np.abs(np.asarray(b) - wantb) > tolb):
                            g = int(np.argmax(np.abs(np.asarray(b) - wantb) - tolb))
                            bad = '%s: load vector differs at glued dof %d: %r vs %r' % (mode, g, float(b[g]), float(wantb[g])); break
                if bad:
                    break
                # Dirichlet data on the outer boundary: multipatch vs single patch (indices exactly, values to interpolation accuracy)
                outer = []
                for q, (combo, _) in enumerate(cells):
                    for a in range(dim):
                        if combo[a] == 0:
                            outer.append((q, (a, 0), gfun))
                        if combo[a] == len(pieces[a]) - 1:
                            outer.append((q, (a, 1), gfun))
                bi, bv = M.compute_dirichlet_bcs(outer)
                want_i = np.sort(g_of[np.asarray(bc1[0])])
                if [int(v) for v in bi] != [int(v) for v in want_i]:
                    bad = '%s: compute_dirichlet_bcs on the outer faces addresses dofs %s, the undivided boundary dofs are %s' % (
                        mode, [int(v) for v in bi][:12], [int(v) for v in want_i][:12]); break
                v1 = dict(zip((int(g_of[i]) for i in bc1[0]), (float(v) for v in bc1[1])))
                scale = 1.0 + float(np.abs(gd).sum()) * (1.0 + float(np.abs(coeffs).max()))
                if any(abs(float(v) - v1[int(i)]) > 1e-9 * scale for i, v in zip(bi, bv)):
                    bad = '%s: Dirichlet values differ from the single-patch values by more than 1e-9 * scale' % mode; break
        except AssertionError:
            raise
        except Exception as ex:
            bad = 'implementation raised %s: %s' % (type(ex).__name__, str(ex)[:160])
        if bad is not None:
            nfail += 1
            if nfail <= 2:
                ctx.violation('mp-split', 'conforming split != undivided domain: ' + bad, dict(replay, oracle=bad), True)
    ctx.extra['split_max_err_over_tol'] = worst
    ctx.obligation('split stream: %d conforming decompositions (automatch and manual joins) reproduce the undivided mass/stiffness/load/Dirichlet data' % ncase,
                   nfail == 0, '%d failing decompositions' % nfail)


# ----------------------------------------------------------------------------- geometric stream

def detect_stream(ctx):
    """detect_interfaces / automatch on real geometries (correspondence only): grids of translated
    unit squares / cubes, each patch re-parametrised by reversing axes, patch list permuted.
    Oracle: two dofs are glued iff their Greville points coincide physically."""
    from pyiga import assemble, bspline, geometry
    rng = ctx.rng
    n_cases = 10 if ctx.tier == 'quick' else 80
    cases = []
    for case in range(n_cases):
        dim = 2 if rng.random() < 0.75 else 3
        grid = [int(rng.integers(1, 3)) for _ in range(dim)]
        if dim == 2 and rng.random() < 0.4:
            grid = [int(rng.integers(1, 4)), int(rng.integers(1, 3))]
        p = int(rng.integers(1, 3))
        nspans = int(rng.integers(1, 3))
        patches, origin, revs = [], [], []
        for cell in itertools.product(*[range(g) for g in grid]):
            geo = (geometry.unit_square() if dim == 2 else geometry.unit_cube()).translate(tuple(float(c) for c in cell))
            coeffs = geo.coeffs
            rev = [bool(rng.random() < 0.35) for _ in range(dim)]
            for a, r in enumerate(rev):
                if r:
                    coeffs = np.flip(coeffs, axis=a)
            geo = bspline.BSplineFunc(geo.kvs, np.ascontiguousarray(coeffs))
            kvs = tuple(bspline.make_knots(p, 0.0, 1.0, nspans) for _ in range(dim))
            patches.append((kvs, geo)); origin.append(cell); revs.append(rev)
        perm = [int(v) for v in rng.permutation(len(patches))]
        patches = [patches[k] for k in perm]
        cases.append((patches, ('detect', dim, tuple(grid), p, nspans, tuple(perm)),
                      {'dim': dim, 'grid': grid, 'degree': p, 'nspans': nspans, 'perm': perm, 'reversed_axes_per_cell': revs,
                       'how': 'grid of translated unit squares/cubes with randomly reversed axes; detect_interfaces(patches); Multipatch(patches, automatch=True)'}))

    # closed rings of k sectors (2-D) and their extrusions (3-D).  For k = 2 the two half rings share TWO faces (a periodic
    # strip of two patches), so `_find_matching_boundaries` has to return both interfaces of the pair.
    def sector(k, j, dim3):
        th = 2 * np.pi / k
        c1 = np.array([0.0, 2.0]) if k == 2 else np.array([np.cos(th / 2), np.sin(th / 2)]) / np.cos(th / 2)
        c = np.array([(1.0, 0.0), tuple(c1), (np.cos(th), np.sin(th))])
        if k == 2:
            c[2] = (-1.0, 0.0)
            R = np.eye(2) if j == 0 else -np.eye(2)          # exact rotation by 180 degrees
        else:
            R = np.array([[np.cos(j * th), -np.sin(j * th)], [np.sin(j * th), np.cos(j * th)]])
        c = c @ R.T
        r = np.array([1.0, 2.0])
        co = r[None, :, None] * c[:, None, :]                # (3, 2, 2): angular x radial x (x, y)
        kvg = [bspline.make_knots(2, 0.0, 1.0, 1), bspline.make_knots(1, 0.0, 1.0, 1)]
        if dim3:
            z = np.array([0.0, 1.0])
            co3 = np.zeros((3, 2, 2, 3))
            co3[..., :2] = co[:, :, None, :]
            co3[..., 2] = z[None, None, :]
            co = co3
            kvg.append(bspline.make_knots(1, 0.0, 1.0, 1))
        return kvg, co

    n_rings = 8 if ctx.tier == 'quick' else 60
    for case in range(n_rings):
        k = 2 if case % 2 == 0 else int(rng.integers(3, 6))
        dim3 = bool(rng.random() < 0.3)
        dim = 3 if dim3 else 2
        degs = [int(rng.integers(1, 3)) for _ in range(dim)]
        spans = [int(rng.integers(1, 4)) for _ in range(dim)]
        patches, desc = [], []
        # 3-D: one axis order for all sectors (join_boundaries can express flips of the face axes, not their exchange)
        axes3 = [int(a) for a in rng.permutation(dim)]
        for j in range(k):
            kvg, co = sector(k, j, dim3)
            axes = axes3 if dim3 else ([int(a) for a in rng.permutation(dim)] if rng.random() < 0.5 else list(range(dim)))
            rev = [bool(rng.random() < 0.35) for _ in range(dim)]
            co = np.transpose(co, axes + [dim])
            kvg = [kvg[a] for a in axes]
            for a, r_ in enumerate(rev):
                if r_:
                    co = np.flip(co, axis=a)
            geo = bspline.BSplineFunc(tuple(kvg), np.ascontiguousarray(co))
            kvs = tuple(bspline.make_knots(degs[a], 0.0, 1.0, spans[a]) for a in axes)
            patches.append((kvs, geo)); desc.append({'sector': j, 'axis_order': axes, 'reversed': rev})
        perm = [int(v) for v in rng.permutation(k)]
        patches = [patches[q] for q in perm]
        cases.append((patches, ('ring-detect', k, dim, tuple(degs), tuple(spans), tuple(perm), repr(desc)),
                      {'complex': 'closed ring of %d sectors%s (k = 2: the two half rings share two faces)' % (k, ', extruded in z' if dim3 else ''),
                       'k': k, 'dim': dim, 'degrees': degs, 'nspans': spans, 'perm': perm, 'sectors': desc,
                       'how': 'sector j = rotation by 2*pi*j/k of a quadratic-arc x linear-radius B-spline patch, axes permuted/reversed; '
                              'detect_interfaces(patches); Multipatch(patches, automatch=True)'}))
        ctx.count('detect ring k=%d' % k)

    for (patches, key, replay) in cases:
        dim = patches[0][1].sdim
        ctx.case(key, nontrivial=len(patches) > 1)
        ctx.count('detect dim=%d' % dim)
        bad = None
        key_bad = 'mp-detect'
        try:
            import networkx as nx
            connected, interfaces = assemble.detect_interfaces(patches)
            shapes = [[int(kv.numdofs) for kv in kvs] for (kvs, _) in patches]
            calls = [('jb', int(p1), int(b1[0]), int(b1[1]), int(p2), int(b2[0]), int(b2[1]), tuple(bool(f) for f in flip))
                     for (p1, b1, p2, b2, flip) in interfaces]
            replay['detected'] = [list(c) for c in calls]
            # (a) detection: the closure of the detected face pairings == physical coincidence of Greville points
            G = nx.Graph()
            phys = {}
            for q, (kvs, geo) in enumerate(patches):
                pts = geo.grid_eval([kv.greville() for kv in kvs]).reshape(-1, dim)
                for i in range(len(pts)):
                    G.add_node((q, i))
                    phys.setdefault(tuple(np.round(pts[i], 9) + 0.0), set()).add((q, i))
            for c in calls:
                pairs = declared_pairs(shapes, c)
                if pairs is not None:
                    G.add_edges_from(pairs)
            if not connected and len(patches) > 1:
                bad = 'detect_interfaces reports a disconnected patch graph for a connected grid'
            elif {frozenset(c) for c in nx.connected_components(G)} != {frozenset(c) for c in phys.values()}:
                bad = ('closure of the detected interfaces differs from the physical coincidence of Greville points: detected %d interfaces; '
                       '%d geometric classes' % (len(calls), len(phys)))
                try:
                    bad += '; Multipatch(patches, automatch=True).numdofs == %d' % int(assemble.Multipatch(patches, automatch=True).numdofs)
                except Exception as ex:
                    bad += '; automatch raised ' + type(ex).__name__
            else:
                # (b) the automatch object glues exactly that closure (same model-free oracle as the abstract histories)
                M = assemble.Multipatch(patches, automatch=True)
                bad = oracle(shapes, calls, M)
                if bad is not None:
                    key_bad = classify(shapes, calls, bad)
                    if key_bad == 'mp-oracle':
                        key_bad = 'mp-detect'
        except Exception as ex:
            bad = 'automatch raised %s: %s' % (type(ex).__name__, str(ex)[:160])
        if bad is not None:
            replay['oracle'] = bad
            ctx.violation(key_bad, 'automatch: ' + bad, replay, True)


# ----------------------------------------------------------------------------- run

def run(ctx):
    ctx.build_repo()
    from pyiga import assemble
    import scipy.sparse
    ctx.require_lean(['Pyiga.Props.C14', 'drv_c14'])
    ctx.audit(['Pyiga.Props.C14'], THEOREMS, MODULES)
    if ctx.tier == 'thorough':
        ctx.leanchecker(MODULES)
    ctx.trusted += ['model of Python dict / set / list as partial map / duplicate-free list / (length, lookup): documented behaviour',
                    'model of itertools.product, np.ravel_multi_index, np.setdiff1d(assume_unique), COO duplicate summation by their documented behaviour',
                    'networkx.connected_components and numpy reshape/take/flip (model-free oracle)']
    ctx.assumptions += ['joined dofs exist (i < N[p]); an out-of-range dof makes patch_to_global_idx raise IndexError and is outside the property',
                        'detect_interfaces: geometric allclose decisions are exercised on axis-parallel grids only (correspondence, no theorem)']
    ctx.rule = ('join histories: every face pairing of 2x1 (sizes 2-3, all reversals); all 24 orders (+1 repetition, +prefix) of the 4 interfaces of 2x2 '
                'for several reversal patterns (flips) and sizes; all orders of the k interfaces of rings of k=3..6 patches around a vertex (k=6 sampled in quick); '
                'sampled orders of the 7 interfaces of 3x2 and the 12 of 2x2x2 (3-D flips); random join_dofs histories on 2-5 small patches incl. assertion errors. '
                'non-trivial = history with >= 2 successful joins; distinct by (shapes, calls)')
    rng = ctx.rng
    H = gen_histories(ctx)
    req, impl, keep = [], [], []
    for name, shapes, calls in H:
        ans, M, oks = run_impl(shapes, calls)
        req.append('hist 1 1 ' + fmt_hist(shapes, calls)); impl.append(ans); keep.append(M)
        ctx.case((tuple(map(tuple, shapes)), tuple(calls)), nontrivial=sum(oks) >= 2)
        ctx.count('complex=' + name.split('+')[0]); ctx.count('calls', len(calls))
        if '+' in name:
            ctx.count('variant=' + name.split('+')[1])
        if len(ctx.samples) < 3 and name.startswith('ring5'):
            ctx.sample({'complex': name, 'shapes': shapes, 'calls': [fmt_call(c) for c in calls], 'implementation': ans[-160:]})
    got = ctx.model('drv_c14', req)
    dis = [k for k in range(len(H)) if got[k] != impl[k]]
    ctx.count('histories equal to the repaired model', len(H) - len(dis))
    # where the implementation differs from the repaired model it must equal a model variant in which one or both
    # repairs are absent (Cfg merge/unshared = 0), on a history that shows the signature of that recorded defect
    variants = [(0, 0), (1, 0), (0, 1)]
    got_var = {v: ctx.model('drv_c14', ['hist %d %d ' % v + fmt_hist(H[k][1], H[k][2]) for k in dis]) for v in variants}
    unexplained = 0
    reported = {}
    open_keys = set(ctx.known_keys())
    for pos, k in enumerate(dis):
        name, shapes, calls = H[k]
        gc = got_var[(0, 0)][pos]
        descr = oracle(shapes, calls, keep[k])
        matching = [v for v in variants if got_var[v][pos] == impl[k]]
        for v in matching[:1]:
            ctx.count('histories equal to model variant merge=%d unshared=%d only' % v)
        key = classify(shapes, calls, descr) if descr is not None else 'mp-corr'
        recognised = ((key == KEY_MERGE and any(v[0] == 0 for v in matching)) or
                      (key == KEY_UNSHARED and any(v[1] == 0 for v in matching)))
        if not recognised:
            key = 'mp-corr' if descr is None else 'mp-oracle'
        if key not in open_keys:
            # (a recognised defect that is listed as open is reported as KNOWN-FINDING and does not fail the stream)
            unexplained += 1
        reported[key] = reported.get(key, 0) + 1
        if reported[key] <= 3:
            ctx.violation(key, ('property fails on the implementation: ' + descr) if descr else 'model and implementation disagree (property holds on the implementation for this history)',
                          {'complex': name, 'shapes': shapes, 'calls': [list(c) for c in calls], 'request': req[k][:3000],
                           'implementation': impl[k][:3000], 'model_repaired': got[k][:3000], 'model_as_coded': gc[:3000],
                           'oracle': descr, 'stream': 'mp (drv_c14)',
                           'replay': 'Multipatch([(kvs_p, None)…]); join_boundaries(p1,(ax1,s1),p2,(ax2,s2),flip) per call; finalize(); numdofs / patch_to_global_idx'},
                          descr is not None)
    ctx.obligation('correspondence stream mp: %d histories; implementation == model of the current code (repairs ddfa3af, 4c8c872 included)' % len(H),
                   unexplained == 0, '%d unexplained disagreements; disagreements by key: %s' % (unexplained, reported))
    ctx.extra['requests'] = len(req) + len(dis)

    # direct oracle on the implementation for every history that agreed with the repaired model (sample)
    agree = [k for k in range(len(H)) if got[k] == impl[k]]
    nor = 400 if ctx.tier == 'quick' else 6000
    orng = np.random.default_rng(ctx.seed + 11)
    nbad = 0
    for k in orng.permutation(len(agree))[:nor]:
        name, shapes, calls = H[agree[int(k)]]
        d = oracle(shapes, calls, keep[agree[int(k)]])
        if d is not None:
            nbad += 1
            ctx.violation('mp-oracle', 'property fails on the implementation: ' + d,
                          {'complex': name, 'shapes': shapes, 'calls': [list(c) for c in calls], 'oracle': d}, True)
    ctx.extra['oracle_cross_checks'] = int(min(nor, len(agree)))

    # assemble_system accumulation with integer patch matrices (assemble() replaced by a table lookup)
    nasm = 120 if ctx.tier == 'quick' else 1500
    areq, aimpl, ameta = [], [], []
    # (the model's matrices are entry functions: keep the dense X A X^T evaluation small)
    cand = [k for k in agree if 'fin err' not in impl[k] and 'err-IndexError' not in impl[k].split('| fin')[-1]
            and sum(int(np.prod(sh)) for sh in H[k][1]) <= 60]
    orig = assemble.assemble
    try:
        for k in orng.permutation(len(cand))[:nasm]:
            name, shapes, calls = H[cand[int(k)]]
            Ns = [int(np.prod(sh)) for sh in shapes]
            Ap = [orng.integers(-3, 4, size=(n, n)) for n in Ns]
            bp = [orng.integers(-3, 4, size=n) for n in Ns]

            def fake(problem, kvs, args=None, bfuns=None, symmetric=False, format='csr', layout='blocked', **kw):
                p = args['geo']
                return scipy.sparse.csr_matrix(Ap[p].astype(float)) if problem == 'A' else bp[p].astype(float)
            assemble.assemble = fake
            try:
                _, M, _ = run_impl(shapes, calls)
                A, b = M.assemble_system('A', 'b')
                A = np.asarray(A.toarray())
                ans = 'A=%s b=%s' % (plist(A.astype(int).tolist(), plist), plist(np.asarray(b).astype(int).tolist()))
                # model-free: A[g,h] = sum_p sum_{glob(p,i)=g, glob(p,j)=h} A_p[i,j]
                want = np.zeros_like(A); wb = np.zeros(len(b))
                for p in range(len(shapes)):
                    idx = M.patch_to_global_idx(p)
                    for i in range(Ns[p]):
                        wb[idx[i]] += bp[p][i]
                        for j in range(Ns[p]):
                            want[idx[i], idx[j]] += Ap[p][i, j]
                if not (np.array_equal(want, A) and np.array_equal(wb, b)):
                    ctx.violation('mp-assemble-oracle', 'assemble_system differs from sum_p X_p A_p X_p^T',
                                  {'shapes': shapes, 'calls': [list(c) for c in calls]}, True)
            except Exception as ex:
                ans = errtok(ex)
            finally:
                assemble.assemble = orig
            areq.append('asm 1 1 %s %s' % (fmt_hist(shapes, calls), ' '.join(plist(a.tolist(), plist) + ' ' + plist(v.tolist()) for a, v in zip(Ap, bp))))
            aimpl.append(ans); ameta.append((shapes, calls))
            ctx.count('assemble_system accumulations')
    finally:
        assemble.assemble = orig
    agot = ctx.model('drv_c14', areq)
    nad = 0
    for r, e, g, m in zip(areq, aimpl, agot, ameta):
        if e != g:
            nad += 1
            if nad <= 3:
                ctx.violation('mp-corr:asm', 'model and implementation disagree on assemble_system accumulation',
                              {'request': r[:3000], 'implementation': e[:2000], 'model': g[:2000], 'shapes': m[0], 'calls': [list(c) for c in m[1]]}, False)
    ctx.obligation('correspondence stream mp/asm: %d accumulations, model == implementation' % len(areq), nad == 0, '%d disagreements' % nad)

    # slice_indices as used by join_boundaries: all faces / flips of small shapes
    sreq, simpl = [], []
    for dim in (1, 2, 3):
        for shape in itertools.product((1, 2, 3), repeat=dim):
            for ax in range(dim):
                for idx in (0, -1):
                    for flip in [None] + list(itertools.product((False, True), repeat=dim - 1)):
                        try:
                            e = plist(int(v) for v in assemble.slice_indices(ax, idx, shape, ravel=True, flip=flip))
                        except Exception as ex:
                            e = errtok(ex)
                        sreq.append('slice %d %d %s %d %s' % (ax, idx, plist(shape), 0 if flip is None else 1, plist(flip or (), lambda b: '1' if b else '0')))
                        simpl.append(e)
                        want = face_np(list(shape), ax, 0 if idx == 0 else 1, flip)
                        if e != plist(want):
                            ctx.violation('mp-slice-oracle', 'slice_indices differs from numpy take/flip of the index array',
                                          {'ax': ax, 'idx': idx, 'shape': shape, 'flip': flip, 'got': e, 'want': want}, True)
    sgot = ctx.model('drv_c14', sreq)
    nsd = sum(1 for a, b in zip(simpl, sgot) if a != b)
    for r, e, g in zip(sreq, simpl, sgot):
        if e != g:
            ctx.violation('mp-corr:slice', 'model and implementation disagree on slice_indices', {'request': r, 'implementation': e, 'model': g}, False)
            break
    ctx.obligation('correspondence stream mp/slice: %d face enumerations, model == implementation' % len(sreq), nsd == 0, '%d disagreements' % nsd)
    ctx.count('slice requests', len(sreq))

    phases_stream(ctx)
    split_stream(ctx)
    detect_stream(ctx)
