"""
C13, clause "identical generated source always maps to the same on-disk module" (and its converse, which the cache
protocol needs: different sources never share a module) — compile.compile_cython_module's module name.

No C compilation: the real `compile_cython_module(src)` is called with `importlib` and `_compile_cython_module_nocache`
stubbed, so the name the code would import / build is captured.

 (a) on the whole generated-source corpus of the run plus adversarial sources: the name is a function of the source
     (two evaluations, and subprocesses under different PYTHONHASHSEED) and injective (two different sources with the same
     name = VIOLATION, the pair is the failing input);
 (b) adversarial pairs: forms whose sources are block-swap anagrams of each other (an antisymmetric form and its negative,
     c1*A + c2*B vs c2*A + c1*B with digit-anagram constants, swapped equal-length input names) and textual mutants of real
     sources (block swaps of equal-byte-sum blocks, one character changed in the middle / only after position 1000 /
     near the end, appended character);
 (c) the translator obligation `Pyiga.Gen.HashKeys.modname_digest_ok` (ast: cryptographic digest, >= 64 bits, of the whole
     source) is re-decided by Lean on every run (translator/c13_keys.py).
"""
import hashlib
import json
import os
import subprocess
import sys

from .common import PY, VERIF


def module_names(sources, moddir):
    """names compile_cython_module would use, one per source ('err-…' if it raises / is inconsistent)"""
    from pyiga import compile as C
    cap = {'build': None, 'imp': None}

    def fake_nocache(src, modname, verbose=False):
        cap['build'] = modname
        return None

    class FakeImportlib:
        @staticmethod
        def import_module(name):
            cap['imp'] = name
            raise ImportError(name)

        @staticmethod
        def invalidate_caches():
            return None
    old = (C._compile_cython_module_nocache, C.importlib, C.MODDIR)
    path0 = list(sys.path)
    C._compile_cython_module_nocache, C.importlib, C.MODDIR = fake_nocache, FakeImportlib, moddir
    out = []
    try:
        for s in sources:
            cap['build'] = cap['imp'] = None
            try:
                C.compile_cython_module(s)
                if cap['build'] is None:
                    out.append('err-no-build-call')
                elif cap['imp'] is not None and cap['imp'] != cap['build']:
                    out.append('err-import-name-differs-from-build-name')
                else:
                    out.append(str(cap['build']))
            except AssertionError:
                out.append('err-assertion')
            except Exception as ex:
                out.append('err-' + type(ex).__name__)
    finally:
        C._compile_cython_module_nocache, C.importlib, C.MODDIR = old
        sys.path[:] = path0
    return out


def names_in_subprocess(sources, hashseed, moddir):
    env = dict(os.environ, PYTHONHASHSEED=str(hashseed))
    code = ("import sys, json; sys.path.insert(0, %r); from harness import c13_modname as M; "
            "d = json.load(sys.stdin); print('@@' + json.dumps(M.module_names(d['sources'], d['moddir'])))" % VERIF)
    p = subprocess.run([PY, '-B', '-c', code], input=json.dumps({'sources': sources, 'moddir': moddir}), env=env,
                       stdout=subprocess.PIPE, stderr=subprocess.PIPE, text=True, timeout=600)
    for line in p.stdout.split('\n'):
        if line.startswith('@@'):
            return json.loads(line[2:])
    raise RuntimeError('subprocess gave no answer: ' + p.stderr[-400:])


# ----------------------------------------------------------------------------- adversarial forms
def adversarial_form_pairs():
    """[(label, thunk_a, thunk_b)] — pairs of different forms whose generated sources are (nearly) anagrams of each other"""
    from pyiga import vform as V
    out = []

    def antisym(dim, k, par, flip):
        def mk():
            vf = V.VForm(dim); u, v = vf.basisfuns()
            a = V.Dx(u, k, parametric=par) * v
            b = u * V.Dx(v, k, parametric=par)
            vf.add(((b - a) if flip else (a - b)) * V.dx)
            return vf
        return mk
    for dim in (1, 2, 3):
        for k in range(dim):
            for par in (True, False):
                out.append(('antisymmetric form vs its negative: (u.dx(%d)*v - u*v.dx(%d))*dx, dim %d, parametric=%s' % (k, k, dim, par),
                            antisym(dim, k, par, False), antisym(dim, k, par, True)))

    def cross2(flip):
        def mk():
            vf = V.VForm(2); u, v = vf.basisfuns()
            a = V.Dx(u, 0, parametric=True) * V.Dx(v, 1, parametric=True)
            b = V.Dx(u, 1, parametric=True) * V.Dx(v, 0, parametric=True)
            vf.add(((b - a) if flip else (a - b)) * V.dx)
            return vf
        return mk
    out.append(('(u_x v_y - u_y v_x)*dx vs its negative', cross2(False), cross2(True)))

    def lincomb(dim, c1, c2, kind):
        def mk():
            vf = V.VForm(dim); u, v = vf.basisfuns()
            if kind == 'fields':
                f = vf.input('f'); g = vf.input('g')
                A, B = f * u * v, g * u * v
            else:
                A, B = u * v, V.Dx(u, 0, parametric=True) * V.Dx(v, 0, parametric=True)
            vf.add((c1 * A + c2 * B) * V.dx)
            return vf
        return mk
    for (c1, c2) in ((12.0, 21.0), (13.0, 31.0), (123.0, 321.0), (1.5, 5.1), (0.25, 0.52), (-12.0, -21.0)):
        for kind in ('fields', 'derivs'):
            for dim in (1, 2):
                out.append(('%r*A + %r*B vs %r*A + %r*B (%s, dim %d)' % (c1, c2, c2, c1, kind, dim),
                            lincomb(dim, c1, c2, kind), lincomb(dim, c2, c1, kind)))

    def names(n1, n2):
        def mk():
            vf = V.VForm(2); u, v = vf.basisfuns()
            a = vf.input(n1); b = vf.input(n2)
            vf.add((a * u * v + b * V.Dx(u, 0, parametric=True) * v) * V.dx)
            return vf
        return mk
    out.append(('input names fa/fb swapped', names('fa', 'fb'), names('fb', 'fa')))
    out.append(('input names ab/ba swapped', names('ab', 'ba'), names('ba', 'ab')))
    return out


def textual_mutants(src, rng):
    """[(label, mutant)] of a real generated source (all different from src)"""
    out = []
    n = len(src)
    # block swap of two different 2-character blocks that are reverses of each other (equal length, equal byte sum)
    first = {}
    for i in range(n - 1):
        a = src[i:i + 2]
        if a[0] != a[1] and '\n' not in a:
            first.setdefault(a, i)
    cands = [(first[a], first[a[::-1]]) for a in first if a[::-1] in first and first[a] + 2 <= first[a[::-1]]]
    if cands:
        for t in range(min(3, len(cands))):
            i, j = cands[int(rng.integers(0, len(cands)))]
            m = src[:i] + src[j:j + 2] + src[i + 2:j] + src[i:i + 2] + src[j + 2:]
            out.append(('2-character blocks at %d and %d swapped (%r <-> %r)' % (i, j, src[i:i + 2], src[j:j + 2]), m))
    # swap two different lines of equal length and equal byte sum, if any
    lines = src.split('\n')
    sig = {}
    for k, l in enumerate(lines):
        if l.strip():
            sig.setdefault((len(l), sum(l.encode())), []).append(k)
    for ks in sig.values():
        ks = [k for k in ks if lines[k] != lines[ks[0]]]
        if ks:
            a = [k for k in sig[(len(lines[ks[0]]), sum(lines[ks[0]].encode()))] if lines[k] != lines[ks[0]]]
            break
    # digit anagram inside one number-like token
    def flip(pos, label):
        c = src[pos]
        r = 'x' if c != 'x' else 'y'
        out.append((label % pos, src[:pos] + r + src[pos + 1:]))
    if n > 40:
        flip(n // 2, 'one character changed at position %d (middle)')
        flip(n - 20, 'one character changed at position %d (near the end)')
        flip(10, 'one character changed at position %d (near the start)')
    if n > 1200:
        flip(1000 + int(rng.integers(0, n - 1100)), 'one character changed at position %d (> 1000)')
    out.append(('one character appended', src + ' '))
    out.append(('two adjacent different characters transposed in the middle',
                (lambda i: src[:i] + src[i + 1] + src[i] + src[i + 2:])(next(i for i in range(n // 2, n - 1) if src[i] != src[i + 1]))))
    return [(l, m) for (l, m) in out if m != src]


def check_modnames(ctx, corpus_sources):
    """corpus_sources: iterable of generated source texts of this run"""
    from pyiga import compile as C
    rng = ctx.rng
    moddir = os.path.join(ctx.xdg_cache(), 'modname-probe')
    os.makedirs(moddir, exist_ok=True)
    items = []            # (label, source)
    for s in sorted(set(corpus_sources)):
        items.append(('corpus', s))
    ncorpus = len(items)
    # adversarial form pairs: real generate() output
    pair_idx = []
    for (label, mka, mkb) in adversarial_form_pairs():
        try:
            sa, sb = C.generate(mka()), C.generate(mkb())
        except Exception as ex:
            ctx.count('modname:adversarial-form-invalid:' + type(ex).__name__)
            continue
        if sa == sb:
            ctx.count('modname:adversarial-pair-with-identical-source')
            continue
        pair_idx.append((label, len(items), len(items) + 1))
        items.append(('form:' + label + ' [a]', sa)); items.append(('form:' + label + ' [b]', sb))
        ctx.count('modname:adversarial-form-pairs')
    # textual mutants of a sample of real sources
    base = [s for (_, s) in items]
    sample = [base[int(i)] for i in rng.permutation(len(base))[:(40 if ctx.tier == 'quick' else 400)]]
    for s in sample:
        d = hashlib.sha1(s.encode()).hexdigest()[:10]
        for (label, m) in textual_mutants(s, rng):
            items.append(('mutant of source sha1:%s: %s' % (d, label), m, s))
            ctx.count('modname:textual-mutants')
    srcs = [it[1] for it in items]
    n1 = module_names(srcs, moddir)
    n2 = module_names(srcs, moddir)
    bad_fun = [i for i in range(len(srcs)) if n1[i] != n2[i]]
    errs = sorted(set(n for n in n1 if n.startswith('err-')))
    ctx.obligation('module name computable for every source (compile_cython_module with build/import stubbed)', not errs, ', '.join(errs))
    # across hash seeds (subsample: corpus sample + all adversarial)
    sub = list(range(ncorpus, len(srcs))) + [int(i) for i in rng.permutation(ncorpus)[:200]]
    seed_ok = True
    for hs in (0, 1):
        try:
            ns = names_in_subprocess([srcs[i] for i in sub], hs, moddir)
            diff = [i for i, nm in zip(sub, ns) if nm != n1[i]]
            if diff:
                seed_ok = False
                bad_fun += diff
        except Exception as ex:
            seed_ok = False
            ctx.obligation('module names under PYTHONHASHSEED=%d' % hs, False, str(ex)[:300])
    ctx.obligation('module name is a function of the source: two evaluations and PYTHONHASHSEED 0,1 agree on %d sources' % len(srcs),
                   not bad_fun and seed_ok, '%d sources with varying name' % len(set(bad_fun)))
    for i in sorted(set(bad_fun))[:3]:
        ctx.violation('modname-not-deterministic', 'the on-disk module name of one and the same source varies between evaluations / hash seeds',
                      {'what': items[i][0], 'names': [n1[i], n2[i]], 'source_sha1': hashlib.sha1(srcs[i].encode()).hexdigest()}, True)
    # injectivity
    byname = {}
    for i, nm in enumerate(n1):
        if not nm.startswith('err-'):
            byname.setdefault(nm, []).append(i)
    ncol = 0
    nrep = {}
    # report collisions between two real forms first (the most useful failing input), then the others
    def prio(kv):
        labs = [items[i][0] for i in kv[1]]
        return 0 if sum(1 for l in labs if l.startswith('form:')) >= 2 else 1
    for nm, idx in sorted(byname.items(), key=prio):
        texts = {}
        for i in idx:
            texts.setdefault(srcs[i], i)
        if len(texts) > 1:
            ncol += 1
            ii = sorted(texts.values(), key=lambda i: (not items[i][0].startswith('form:'), i))[:2]
            kind = 'forms' if all(items[i][0].startswith('form:') for i in ii) else 'textual-mutant'
            nrep[kind] = nrep.get(kind, 0) + 1
            if nrep[kind] <= 2:
                a, b = srcs[ii[0]], srcs[ii[1]]
                la, lb = a.split('\n'), b.split('\n')
                diff = [(k, x, y) for k, (x, y) in enumerate(zip(la, lb)) if x != y][:4]
                ctx.violation('modname-collision:' + kind, 'two different generated sources get the same on-disk module name: the second request '
                              'loads the first one\'s extension module',
                              {'module_name': nm, 'a': items[ii[0]][0], 'b': items[ii[1]][0],
                               'source_a_sha1': hashlib.sha1(a.encode()).hexdigest(), 'source_b_sha1': hashlib.sha1(b.encode()).hexdigest(),
                               'first_differing_lines': diff, 'replay': 'harness.c13_modname.adversarial_form_pairs() / textual_mutants(); '
                               'names via harness.c13_modname.module_names([src_a, src_b], moddir)'}, True)
    ctx.obligation('module names injective on %d distinct sources (%d corpus, %d adversarial form pairs, %d textual mutants)'
                   % (len(set(srcs)), ncorpus, len(pair_idx), ctx.counters.get('modname:textual-mutants', 0)), ncol == 0, '%d colliding names' % ncol)
    ctx.count('modname:sources', len(set(srcs)))
    ctx.extra['modname_sources'] = len(set(srcs))
