"""
C12 — time integrators realise consistent RK/Rosenbrock schemes (DESIGN.md §6/C12).

ties:  T-tab  translator/c12_tableaux.py regenerates lean/Pyiga/Gen/Tableaux.lean from the running
              pyiga.solvers (closure arrays of the twelve exported methods) and Props/C12.lean is
              re-proved against it on every run;
       K ode  hand-written Lean model (Pyiga.Model.ODE, driver drv_c12) vs solvers.dirk_step /
              rosenbrock_step / newton / _constant_step_method / _adaptive_step_method.
theorems: Pyiga.Props.C12.*
search (model-free): order conditions in exact Fractions; textbook DIRK/Rosenbrock stage
       equations solved in Fractions; y'=c over one step; driver invariants recomputed from the
       recorded stepper calls.
"""
import contextlib
import io
import math
import os
import struct
import sys
import warnings
from fractions import Fraction as Fr

import numpy as np

from .common import VERIF, LEAN, plist, frac

sys.path.insert(0, os.path.join(VERIF, 'translator'))
sys.set_int_max_str_digits(0)

TAB_THEOREMS = [
    'crank_nicolson_order2', 'sdirk3_order3', 'sdirk3_b_order4', 'sdirk21_order2', 'sdirk21_embedded_order1',
    'esdirk23_order2', 'esdirk23_embedded_order3', 'esdirk34_order3', 'esdirk34_embedded_order4',
    'ros3p_order3', 'ros3p_embedded_order2', 'ros3pw_order3', 'ros3pw_embedded_order2',
    'rowdaind2_order3', 'rowdaind2_embedded_order2', 'rodasp_order4', 'rodasp_embedded_order3',
    'rosi2p1_order3', 'rosi2p1_embedded_order2', 'shipped_const_diag', 'shipped_sa_exact',
    'dirk34_sum_b_ne_one', 'dirk34_not_order1', 'dirk34_order2_3_residuals', 'dirk34_embedded_order1_only',
]
GENERIC_THEOREMS = [
    'newton_contract', 'newton_raises_after_maxiter', 'newton_linear_one_update',
    'dirk_stage_equations', 'dirk_stage_equations_linear', 'dirk_update_equation',
    'stiffly_accurate_shortcut', 'dirk_embedded_equation', 'const_rhs_exact',
    'rosenbrock_stage_equations', 'rosenbrock_update', 'rosenbrock_consistency',
    'constant_driver', 'constant_driver_prefix', 'adaptive_driver', 'adaptive_driver_nontermination_witness',
]
THEOREMS = ['Pyiga.Props.C12.' + t for t in TAB_THEOREMS + GENERIC_THEOREMS]
MODULES = ['Pyiga.Model.ODE', 'Pyiga.Model.RatVec', 'Pyiga.Gen.Tableaux', 'Pyiga.Proofs.ODE', 'Pyiga.Props.C12']
GEN = os.path.join(LEAN, 'Pyiga', 'Gen', 'Tableaux.lean')


# ----------------------------------------------------------------------------- exact helpers
def fvec(v):
    return plist([float(a) for a in np.asarray(v, dtype=float).ravel()], frac)


def parse_vec(toks, pos):
    n = int(toks[pos]); pos += 1
    return [Fr(t) for t in toks[pos:pos + n]], pos + n


def fsolve(A, b):
    """Gauss-Jordan in Fractions (oracle; independent of the Lean model). None if singular."""
    n = len(A)
    M = [list(map(Fr, r)) + [Fr(x)] for r, x in zip(A, b)]
    for k in range(n):
        p = next((i for i in range(k, n) if M[i][k] != 0), None)
        if p is None:
            return None
        M[k], M[p] = M[p], M[k]
        pv = M[k][k]
        M[k] = [a / pv for a in M[k]]
        for i in range(n):
            if i != k and M[i][k] != 0:
                f = M[i][k]
                M[i] = [a - f * c for a, c in zip(M[i], M[k])]
    return [M[i][n] for i in range(n)]


def fmv(A, x):
    return [sum((a * b for a, b in zip(r, x)), Fr(0)) for r in A]


def fexact(a):
    a = np.asarray(a, dtype=float)
    if a.ndim == 1:
        return [Fr(float(x)) for x in a]
    return [[Fr(float(x)) for x in r] for r in a]


def dirk_oracle(Afull, M, L, g, x, tau, Fx):
    """textbook DIRK step for F y = L y + g with exact stage solves.  Returns (ys, Fs, xnew, xest)."""
    Afull = fexact(Afull); s = len(Afull[0]); n = len(x)
    M = fexact(M); L = fexact(L); g = fexact(g); x = fexact(x); tau = Fr(float(tau))
    F = lambda y: [a + b for a, b in zip(fmv(L, y), g)]
    Mx = fmv(M, x)
    ys, Fs = [], []
    for i in range(s):
        aii = Afull[i][i]
        rhs = [Mx[k] + tau * sum((Afull[i][j] * Fs[j][k] for j in range(i)), Fr(0)) + tau * aii * g[k] for k in range(n)]
        C = [[M[r][c] - tau * aii * L[r][c] for c in range(n)] for r in range(n)]
        y = fsolve(C, rhs)
        if y is None:
            return None
        ys.append(y)
        Fs.append(F(y) if not (i == 0 and aii == 0 and Fx is not None) else fexact(Fx))
    def comb(w):
        return fsolve(M, [Mx[k] + tau * sum((w[i] * Fs[i][k] for i in range(s)), Fr(0)) for k in range(n)])
    xnew = comb(Afull[s])
    xest = comb(Afull[s + 1]) if len(Afull) == s + 2 else None
    return ys, Fs, xnew, xest


def ros_oracle(A, G, b, bhat, M, L, g, x, tau):
    """textbook Rosenbrock-Wanner step (Hairer-Wanner IV.7 (7.4)) for M y' = L y + g."""
    A = fexact(A); G = fexact(G); b = fexact(b); bhat = fexact(bhat) if bhat is not None else None
    M = fexact(M); L = fexact(L); g = fexact(g); x = fexact(x); tau = Fr(float(tau))
    s = len(b); n = len(x)
    gam = G[0][0]
    C = [[M[r][c] - tau * gam * L[r][c] for c in range(n)] for r in range(n)]
    ks = []
    for i in range(s):
        y = [x[k] + tau * sum((A[i][j] * ks[j][k] for j in range(i)), Fr(0)) for k in range(n)]
        w = [sum((G[i][j] * ks[j][k] for j in range(i)), Fr(0)) for k in range(n)]
        rhs = [a + c + tau * d for a, c, d in zip(fmv(L, y), g, fmv(L, w))]
        k_i = fsolve(C, rhs)
        if k_i is None:
            return None
        ks.append(k_i)
    comb = lambda w: [x[k] + tau * sum((w[i] * ks[i][k] for i in range(s)), Fr(0)) for k in range(n)]
    return ks, comb(b), (comb(bhat) if bhat is not None else None)


def close(impl, exact, tol):
    impl = np.asarray(impl, dtype=float).ravel()
    if len(impl) != len(exact):
        return False
    return all(math.isfinite(a) and abs(Fr(float(a)) - e) <= tol for a, e in zip(impl, exact))


def bits(x):
    return struct.unpack('<Q', struct.pack('<d', float(x)))[0]


# ----------------------------------------------------------------------------- T-tab
def check_tableaux(ctx, tabs):
    """model-free oracle for part (a): exact Fractions on the arrays the methods use."""
    import c12_tableaux as T
    ok_all = True
    for t in tabs:
        q, qh = T.ORDERS[t['name']]
        names = T.COND_NAMES_RK if t['kind'] == 'rk' else T.COND_NAMES_ROS
        fails = []
        for which, qq in (('b', q), ('bhat', qh)):
            if qq is None:
                if t[which] is not None and which == 'bhat':
                    fails.append(('embedded weights present but no documented order', None, None))
                continue
            if t[which] is None:
                fails.append((which + ' missing', None, None)); continue
            res, eps = t['res_' + which], t['eps_' + which]
            for k in range(qq):
                for c, (r, e) in enumerate(zip(res[k], eps[k])):
                    ctx.count('order-condition instances')
                    if abs(r) > e:
                        fails.append(('%s weights, order %d: %s' % ('main' if which == 'b' else 'embedded', k + 1, names[k][c]), r, e))
        if t['kind'] == 'ros':
            s = t['s']; G = t['G']; A = t['A']
            if any(G[i][i] != G[0][0] for i in range(s)) or any(G[i][j] != 0 for i in range(s) for j in range(i + 1, s)) \
                    or any(A[i][j] != 0 for i in range(s) for j in range(i, s)):
                fails.append(('Gamma diagonal not constant / alpha, Gamma not lower triangular', None, None))
        if t['kind'] == 'rk' and qh is not None and t['err_order'] != qh:
            fails.append(('err_order %r differs from the documented embedded order %r' % (t['err_order'], qh), None, None))
        if t['kind'] == 'ros' and t['err_order'] != qh:
            fails.append(('err_order %r differs from the documented embedded order %r' % (t['err_order'], qh), None, None))
        for note in t['notes']:
            fails.append((note, None, None))
        ctx.case(('tableau', t['name']), True)
        if fails:
            ok_all = ok_all and t['name'] == 'dirk34'
            what = 'tableau %s violates its documented order %s: ' % (t['name'], (q, qh)) + '; '.join(
                '%s residual %.6e (tolerance %.2e)' % (c, float(r), float(e)) if r is not None else c for (c, r, e) in fails[:6])
            ctx.violation('tableau:%s:order-conditions' % t['name'], what,
                          {'tableau': t['name'], 'documented_order': [q, qh],
                           'failing_conditions': [{'condition': c, 'exact_residual': str(r), 'approx': float(r) if r is not None else None,
                                                   'tolerance': str(e)} for (c, r, e) in fails],
                           'arrays': {k: [[str(x) for x in r] for r in t[k]] if k in ('A', 'G') else ([str(x) for x in t[k]] if t[k] is not None else None)
                                      for k in ('A', 'G', 'b', 'bhat') if k in t},
                           'consequence': "y'=1, y(0)=0 over one step of size 1 returns sum(b) = %s" % float(sum(t['b']))},
                          True)
    return ok_all


MEMLAYOUTS = ['C', 'F', 'T']      # C-ordered, Fortran-ordered copy, transposed view of a C-ordered array


def in_layout(a, style):
    """an array equal to `a` stored in the given memory layout (a *stored* matrix a callback hands out)"""
    a = np.array(a, dtype=float, order='C', copy=True)
    if a.ndim != 2 or style == 'C':
        return a
    if style == 'F':
        return np.asfortranarray(a)
    return np.ascontiguousarray(a.T).T


class Owned:
    """bitwise monitoring of caller-owned arrays: everything passed into the library or handed out by a
    callback must be unchanged afterwards (buffers refilled by a callback are re-registered by the callback)"""
    def __init__(self):
        self.items = {}

    def reg(self, name, arr):
        if arr is not None and hasattr(arr, 'tobytes'):
            self.items[name] = (arr, np.array(arr, copy=True))
        elif arr is not None and hasattr(arr, 'data') and hasattr(arr, 'indices'):      # scipy CSR/CSC
            self.items[name] = (arr, (arr.data.copy(), arr.indices.copy(), arr.indptr.copy()))
        return arr

    def changed(self):
        bad = []
        for name, (arr, snap) in self.items.items():
            if isinstance(snap, tuple):
                ok = (arr.data.tobytes() == snap[0].tobytes() and arr.indices.tobytes() == snap[1].tobytes()
                      and arr.indptr.tobytes() == snap[2].tobytes())
            else:
                ok = arr.shape == snap.shape and np.asarray(arr).tobytes(order='A') == snap.tobytes(order='A') and \
                    np.array_equal(arr, snap, equal_nan=True)
            if not ok:
                bad.append(name)
        return bad


# ----------------------------------------------------------------------------- generators
def spd_int(rng, n):
    B = rng.integers(-2, 3, size=(n, n)).astype(float)
    return B @ B.T + np.diag(rng.integers(1, 4, size=n).astype(float))


def rand_problem(rng, n, stiff):
    kind = int(rng.integers(0, 3))       # 0: M None, 1: dense, 2: sparse
    M = np.eye(n) if kind == 0 else spd_int(rng, n)
    mode = int(rng.integers(0, 3))
    if mode == 0:      # dissipative
        S = rng.integers(-2, 3, size=(n, n)).astype(float)
        K = rng.integers(-2, 3, size=(n, n)).astype(float)
        L = -(S @ S.T + np.eye(n)) + (K - K.T)
    elif mode == 1:    # general small
        L = rng.integers(-3, 4, size=(n, n)).astype(float)
    else:              # scaled dyadic
        L = rng.integers(-4, 5, size=(n, n)).astype(float) / 4
    if stiff:
        L = L * float(2 ** int(rng.integers(2, 7)))
    g = rng.integers(-3, 4, size=n).astype(float)
    x = rng.integers(-3, 4, size=n).astype(float) / float(rng.choice([1, 2, 4]))
    tau = float(rng.choice([2.0, 1.0, 0.5, 0.25, 0.125, 2.0 ** -5, 2.0 ** -7, 2.0 ** -9, 0.1, 0.37, 0.003]))
    return kind, M, L, g, x, tau


def user_rk_tableau(rng):
    s = int(rng.integers(1, 5))
    A = np.zeros((s, s))
    explicit_first = rng.integers(0, 3) == 0
    sdirk = rng.integers(0, 2) == 0
    gam = float(rng.choice([0.25, 0.5, 1.0, 0.75, 0.3]))
    for i in range(s):
        for j in range(i):
            A[i, j] = float(rng.integers(-4, 9)) / 8
        A[i, i] = gam if sdirk else float(rng.integers(1, 8)) / 8
    if explicit_first:
        A[0, 0] = 0.0
    malformed = rng.integers(0, 12) == 0 and s >= 2
    if malformed:
        A[int(rng.integers(1, s)), :] *= 0     # zero diagonal at a later stage -> `assert i == 0`
    mode = int(rng.integers(0, 3))
    if mode == 0:
        b = A[s - 1].copy()                   # stiffly accurate
    elif mode == 1:
        b = A[s - 1] + rng.choice([0.0, 1e-9, 1e-7, 3e-6, 1e-4], size=s)      # around the allclose window
    else:
        b = rng.integers(-2, 7, size=s).astype(float) / 4
    rows = [A, b[None, :]]
    if rng.integers(0, 2) == 0:
        rows.append((rng.integers(-2, 7, size=s).astype(float) / 4)[None, :])
    return np.vstack(rows)


def user_ros_tableau(rng):
    s = int(rng.integers(1, 5))
    A = np.tril(rng.integers(-4, 9, size=(s, s)).astype(float) / 8, -1)
    G = np.tril(rng.integers(-4, 9, size=(s, s)).astype(float) / 8, -1) + float(rng.choice([0.25, 0.5, 0.3, 1.0])) * np.eye(s)
    b = rng.integers(-2, 7, size=s).astype(float) / 4
    bh = rng.integers(-2, 7, size=s).astype(float) / 4 if rng.integers(0, 2) == 0 else None
    return A, G, b, bh


def conds(mats):
    return max(np.linalg.cond(m) for m in mats)


# ----------------------------------------------------------------------------- run
def run(ctx):
    ctx.build_repo()
    import scipy.sparse
    from pyiga import solvers
    import c12_tableaux as T

    ctx.trusted += ['translator/c12_tableaux.py (reads the closure arrays and prints each double as its exact rational; derives the tolerances)',
                    'modelled, not verified: IEEE double rounding inside the steps (model is exact Rat; tolerance 1e-9*scale on systems with condition number <= 1e4)',
                    'make_solver (LAPACK/SuperLU) is a parameter of the model with contract A*solve(b)=b (exact Gauss-Jordan in the driver)',
                    'adaptive controller stream: Lean `Float` (C double, libm pow/sqrt) instantiation of the same generic model, bit-exact diff']
    ctx.assumptions += ['order conditions: tolerance eps = 4*u_T*L (u_T unit in the last place of the least precise >=8-digit literal or double rounding; L = sum of |partial derivatives|)',
                        'linear right-hand sides F y = L y + g for the exact stage oracle; nonlinear F only through the Newton stream',
                        'rosenbrock_step is not called with M=None (undocumented for Rosenbrock methods)']
    ctx.require_lean(['drv_c12'])

    # ---- T-tab: regenerate, oracle, re-prove ----
    bad_tabs = set()
    try:
        tabs, changed = T.generate(GEN)
    except Exception as ex:
        tabs = None
        ctx.obligation('translator T-tab ran', False, '%s: %s' % (type(ex).__name__, ex))
        ctx.violation('tableau:translator', 'the twelve exported methods / coeffs_* functions can no longer be read: %s: %s' % (type(ex).__name__, ex),
                      {'exception': repr(ex)}, False)
    if tabs is not None:
        ctx.obligation('translator T-tab regenerated Gen/Tableaux.lean from the running library (%d tableaux)' % len(tabs), len(tabs) == 12)
        ctx.extra['tableau_tolerances'] = {t['name']: {'u_T': float(t['u_T']), 'from': t['u_from'],
                                                       'max_eps': float(max(e for grp in t['eps_b'] for e in grp))} for t in tabs}
        others_ok = check_tableaux(ctx, tabs)
        bad_tabs = set(v['key'].split(':')[1] for v in ctx.violations if v['key'].startswith('tableau:'))
        ok, log = ctx.lake_build(['Pyiga.Props.C12'])
        ctx.obligation('regenerated obligations: lake build Pyiga.Props.C12 (order conditions of 11 tableaux, negation for dirk34, ConstDiag, SA-exact)', ok,
                       '' if ok else log[-1500:])
        if ok:
            ctx.audit(['Pyiga.Props.C12'], THEOREMS, MODULES)
            if ctx.tier == 'thorough':
                ctx.leanchecker(MODULES)
        else:
            if others_ok:
                # Lean refuses the regenerated file but the Fraction oracle accepts every tableau
                d34 = next(t for t in tabs if t['name'] == 'dirk34')
                q = T.ORDERS['dirk34'][0]
                d34_ok = all(abs(r) <= e for k in range(q) for r, e in zip(d34['res_b'][k], d34['eps_b'][k]))
                ctx.violation('tableau:lean-obligation',
                              'Props/C12.lean no longer proves against the regenerated tableaux' +
                              (' (dirk34 now satisfies its order conditions: the negation theorems of known finding D4 are stale)' if d34_ok else ''),
                              {'log': log[-3000:]}, False)

    # ---- K ode ----
    rng = ctx.rng
    quick = ctx.tier == 'quick'
    req, meta = [], []

    def add(r, m):
        req.append(r); meta.append(m)

    import contextlib, io
    def guarded(f):
        try:
            with contextlib.redirect_stdout(io.StringIO()), warnings.catch_warnings(), np.errstate(all='ignore'):
                warnings.simplefilter('ignore')
                return ('ok', f())
        except AssertionError:
            return ('err-AssertionError', None)
        except solvers.NoConvergenceError as ex:
            return ('err-NoConvergence', ex)
        except Exception as ex:
            return ('err-' + type(ex).__name__, str(ex)[:200])

    # order-condition evaluators of the model vs the translator's Fractions (ties the Lean definitions)
    if tabs is not None:
        for t in tabs:
            for which in ('b', 'bhat'):
                if t[which] is None:
                    continue
                s = t['s']
                flat = lambda m: plist([x for r in m for x in r], frac)
                if t['kind'] == 'rk':
                    add('rkres %d %s %s' % (s, flat(t['A']), plist(t[which], frac)), ('res', t['name'], which))
                else:
                    add('rosres %d %s %s %s' % (s, flat(t['A']), flat(t['G']), plist(t[which], frac)), ('res', t['name'], which))
            if t['kind'] == 'rk':
                add('allclose %s %s' % (plist(t['b'], frac), plist(t['A'][t['s'] - 1], frac)), ('allclose', t['name']))

    # DIRK steps
    shipped = {n: np.asarray(T.closure(T.closure(getattr(solvers, n))['stepper'])['A'], dtype=float) for n in T.DIRK}
    ndirk = 450 if quick else 8000
    for it in range(ndirk):
        if it % 3 != 2:
            name = T.DIRK[int(rng.integers(0, len(T.DIRK)))]
            Afull = shipped[name]
        else:
            name = 'user'
            Afull = user_rk_tableau(rng)
        s = Afull.shape[1]
        n = int(rng.integers(1, 5))
        kind, M, L, g, x, tau = rand_problem(rng, n, stiff=(rng.integers(0, 3) == 0))
        fxmode = int(rng.integers(0, 3))
        Fx = None if fxmode == 0 else (L @ x + g if fxmode == 1 else rng.integers(-3, 4, size=n).astype(float))
        mats = [M] + [M - tau * Afull[i, i] * L for i in range(s) if Afull[i, i] != 0]
        if conds(mats) > 1e4:
            ctx.count('dirk: skipped (condition number > 1e4)'); continue
        calls = []
        own = Owned()
        lay = MEMLAYOUTS[int(rng.integers(0, 3))]
        Lst = own.reg('L (stored matrix returned by J and read by F)', in_layout(L, lay))     # independent of the reference copy `L`
        def F(y, Lst=Lst, g=g, calls=calls):
            calls.append(np.array(y, dtype=float)); return Lst @ y + g
        if kind == 1:
            Mobj = own.reg('M', in_layout(M, MEMLAYOUTS[int(rng.integers(0, 3))])); J = lambda y, Lst=Lst: Lst
        elif kind == 2:
            Mobj = own.reg('M (csr)', scipy.sparse.csr_matrix(M)); Ls = own.reg('J (csr)', scipy.sparse.csr_matrix(L)); J = lambda y, Ls=Ls: Ls
        else:
            Mobj = None; Ls = own.reg('J (csr)', scipy.sparse.csr_matrix(L)); J = lambda y, Ls=Ls: Ls
        xarg = own.reg('x', x.copy()); Fxarg = own.reg('Fx', None if Fx is None else Fx.copy()); Aarg = own.reg('A (tableau)', Afull.copy())
        tag, out = guarded(lambda: solvers.dirk_step(Aarg, Mobj, F, J, xarg, tau, None, Fx=Fxarg))
        report_owned(ctx, own, 'dirk_step', {'tableau': name, 'layout_of_L': lay, 'M': ['None', 'dense', 'sparse'][kind]})
        r = 'dirk %d %d %s %d %d %s %s %s %s %s %d%s' % (
            s, Afull.shape[0], fvec(Afull), n, 0 if kind == 0 else 1, fvec(M), fvec(L), fvec(g), fvec(x), frac(tau),
            0 if Fx is None else 1, '' if Fx is None else ' ' + fvec(Fx))
        add(r, ('dirk', name, Afull, kind, M, L, g, x, tau, Fx, tag, out, len(calls)))
        ctx.case(('dirk', name, n, kind, tau, it), nontrivial=(s >= 2 and n >= 2))
        ctx.count('dirk:' + name); ctx.count('mass:' + ['None', 'dense', 'sparse'][kind])

    # Rosenbrock steps
    shipped_ros = {n: T.closure(T.closure(getattr(solvers, n))['stepper']) for n in T.ROS}
    nros = 350 if quick else 6000
    for it in range(nros):
        if it % 3 != 2:
            name = T.ROS[int(rng.integers(0, len(T.ROS)))]
            c = shipped_ros[name]
            A, G, b = (np.asarray(c[k], dtype=float) for k in ('A', 'Gamma', 'b'))
            bh = np.asarray(c['b_hat'], dtype=float) if rng.integers(0, 2) == 0 else None
        else:
            name = 'user'
            A, G, b, bh = user_ros_tableau(rng)
        s = len(b)
        n = int(rng.integers(1, 5))
        kind, M, L, g, x, tau = rand_problem(rng, n, stiff=(rng.integers(0, 3) == 0))
        if kind == 0:
            kind = 1; M = spd_int(rng, n)
        if conds([M - tau * G[0, 0] * L]) > 1e4:
            ctx.count('ros: skipped (condition number > 1e4)'); continue
        own = Owned()
        lay = MEMLAYOUTS[int(rng.integers(0, 3))]
        Lst = own.reg('L (stored matrix returned by J and read by F)', in_layout(L, lay))
        if kind == 1:
            Mobj = own.reg('M', in_layout(M, MEMLAYOUTS[int(rng.integers(0, 3))])); J = lambda y, Lst=Lst: Lst
        else:
            Mobj = own.reg('M (csr)', scipy.sparse.csr_matrix(M)); Ls = own.reg('J (csr)', scipy.sparse.csr_matrix(L)); J = lambda y, Ls=Ls: Ls
        F = lambda y, Lst=Lst, g=g: Lst @ y + g
        xarg = own.reg('x', x.copy())
        Aarg, Garg, barg = own.reg('A', A.copy()), own.reg('Gamma', G.copy()), own.reg('b', b.copy())
        tag, out = guarded(lambda: solvers.rosenbrock_step(Aarg, Garg, barg, bh, Mobj, F, J, xarg, tau, dict()))
        report_owned(ctx, own, 'rosenbrock_step', {'tableau': name, 'layout_of_L': lay})
        r = 'ros %d %s %s %s %d%s %d %s %s %s %s %s' % (
            s, fvec(A), fvec(G), fvec(b), 0 if bh is None else 1, '' if bh is None else ' ' + fvec(bh),
            n, fvec(M), fvec(L), fvec(g), fvec(x), frac(tau))
        add(r, ('ros', name, A, G, b, bh, M, L, g, x, tau, tag, out))
        ctx.case(('ros', name, n, kind, tau, it), nontrivial=(s >= 2 and n >= 2))
        ctx.count('ros:' + name)

    # Newton
    nnewt = 300 if quick else 5000
    for it in range(nnewt):
        n = int(rng.integers(1, 5))
        Q = rng.integers(-2, 3, size=(n, n)).astype(float) + float(rng.integers(3, 7)) * np.eye(n)
        dq = rng.integers(-1, 2, size=n).astype(float) * float(rng.choice([0.0, 0.5, 1.0]))
        jmode = ['fresh', 'stored', 'buffer'][int(rng.integers(0, 3))]
        if jmode == 'stored':
            dq = np.zeros(n)          # a stored (constant) Jacobian is the Jacobian of a linear problem
        c = rng.integers(-4, 5, size=n).astype(float)
        x0 = rng.integers(-2, 3, size=n).astype(float)
        atol = float(rng.choice([1e-3, 1e-6, 1e-9])); rtol = float(rng.choice([1e-6, 1e-3, 1e-9]))
        maxiter = int(rng.choice([0, 1, 2, 3, 6, 6, 6])); freeze = int(rng.choice([1, 1, 2, 3]))
        calls = []
        own = Owned()
        lay = MEMLAYOUTS[int(rng.integers(0, 3))]
        Qst = own.reg('Q (stored matrix read by F%s)' % (' and returned by J' if jmode == 'stored' else ''), in_layout(Q, lay))   # `Q` stays the reference copy
        def F(x_, Qst=Qst, dq=dq, c=c, calls=calls):
            calls.append(np.array(x_)); return Qst @ x_ + dq * x_ * x_ - c
        jcalls = []
        if jmode == 'fresh':
            def J(x_, Q=Q, dq=dq, jcalls=jcalls, lay=lay):
                jcalls.append(np.array(x_)); return in_layout(Q + 2 * np.diag(dq * x_), lay)
        elif jmode == 'stored':
            def J(x_, Qst=Qst, jcalls=jcalls):
                jcalls.append(np.array(x_)); return Qst
        else:
            jbuf = in_layout(np.zeros((n, n)), lay)
            def J(x_, Q=Q, dq=dq, jcalls=jcalls, jbuf=jbuf):
                jcalls.append(np.array(x_)); jbuf[...] = Q + 2 * np.diag(dq * x_); return jbuf
        x0arg = own.reg('x0', x0.copy())
        tag, out = guarded(lambda: solvers.newton(F, J, x0arg, atol=atol, rtol=rtol, maxiter=maxiter, freeze_jac=freeze))
        report_owned(ctx, own, 'newton', {'J_callback': jmode, 'memory_layout': lay, 'Q': Q.tolist(), 'dq': dq.tolist(), 'c': c.tolist(), 'x0': x0.tolist()})
        ctx.count('newton J=%s layout=%s' % (jmode, lay))
        r = 'newton %d %s %s %s %s %s %s %d %d' % (n, fvec(Q), fvec(dq), fvec(c), fvec(x0), frac(atol), frac(rtol), maxiter, freeze)
        add(r, ('newton', Q, dq, c, x0, atol, rtol, maxiter, freeze, tag, out, len(calls), len(jcalls), jmode, lay))
        ctx.case(('newton', it), nontrivial=(maxiter >= 2))
        ctx.count('newton:' + tag)

    # constant-step driver with a scripted stepper (dyadic data: exact)
    nconst = 300 if quick else 4000
    for it in range(nconst):
        t0 = float(rng.integers(-4, 5)) / 4
        tau = float(rng.choice([0.125, 0.25, 0.375, 0.5, 0.75, 1.0, 1.5]))
        tend = t0 + float(rng.integers(-2, 33)) / 8
        nmax = max(0, int(math.ceil((tend - t0) / tau)))
        script = []
        for k in range(nmax + 1):
            if rng.integers(0, 25) == 0:
                script.append(None)
            else:
                script.append((float(rng.choice([1.0, 2.0, -1.0, 0.5])), float(rng.integers(-3, 4)), float(rng.choice([0.0, 0.5, 1.0])), bool(rng.integers(0, 2))))
        script = script[: int(rng.integers(max(0, nmax - 1), nmax + 2))]
        cnt = [0]; seen = []
        def stepper(M, F, J, x, tau_, data, Fx=None, script=script, cnt=cnt, seen=seen):
            i = cnt[0]; cnt[0] += 1
            seen.append((x, tau_, Fx))
            if i >= len(script) or script[i] is None:
                raise solvers.NoConvergenceError('newton', 0, x)
            a, d, e, fx = script[i]
            x2 = a * x + d + e * (Fx if Fx is not None else 7.0)
            return x2, (2 * x2 if fx else None)
        meth = solvers._constant_step_method(stepper)
        tag, out = guarded(lambda: meth(None, None, None, 0.0, tau, tend, t0=t0))
        sc = plist(script, lambda e: '0' if e is None else '1 %s %s %s %d' % (frac(e[0]), frac(e[1]), frac(e[2]), e[3]))
        add('const %s %s %s %s' % (frac(t0), frac(tau), frac(tend), sc), ('const', t0, tau, tend, script, tag, out))
        ctx.case(('const', it), nontrivial=(nmax >= 2))
        ctx.count('const:' + ('partial' if tag == 'ok' and len(out[0]) < nmax + 1 else tag))

    # adaptive driver with a scripted stepper (bit-exact, Lean Float)
    nad = 300 if quick else 4000
    for it in range(nad):
        q = int(rng.integers(1, 5))
        tol = float(rng.choice([1e-2, 1e-3, 1e-4, 0.5 ** 7]))
        sf = float(rng.choice([0.9, 0.8, 0.875, 1.0]))
        tau0 = float(rng.choice([0.5, 0.1, 0.01, 1.0, 3.0]))
        t0 = float(rng.choice([0.0, 0.0, 1.0, -0.5]))
        tend = t0 + float(rng.choice([0.0, 0.3, 1.0, 2.5, -1.0]))
        x0 = float(rng.integers(-3, 4)) * float(rng.choice([1.0, 0.3]))
        script = []
        for k in range(int(rng.integers(0, 14))):
            cc = float(rng.normal())
            mag = float(rng.choice([0.0, 1e-6, 1e-3, 1e-2, 0.1, 1.0, 30.0]))     # spans r==0, accept, reject, both clamps
            e = mag * tol * float(rng.uniform(0.5, 2.0)) * float(rng.choice([1.0, -1.0]))
            thr = float(rng.choice([math.inf, math.inf, math.inf, 0.3, 0.05]))
            script.append((cc, e, thr))
        st = {'idx': 0, 'pending': None}
        rec = []
        def stepper(M, F, J, x, tau, data, Fx=None, script=script, st=st, rec=rec):
            if st['pending'] is not None and x is st['pending']:
                st['idx'] += 1
            st['pending'] = None
            cc, e, thr = script[st['idx']] if st['idx'] < len(script) else (1.0, 0.0, math.inf)
            if tau > thr:
                rec.append((float(x[0]), float(tau), None, None, None if Fx is None else float(Fx[0]), None))
                raise solvers.NoConvergenceError('newton', 0, x)
            fxv = 0.5 if Fx is None else Fx
            xnew = (x + tau * cc) + (fxv * tau) * 0.125
            xhat = xnew + e * tau
            fnew = xnew * 0.5 + tau
            st['pending'] = xnew
            rec.append((float(x[0]), float(tau), float(xnew[0]), float(xhat[0]), None if Fx is None else float(Fx[0]), float(fnew[0])))
            if len(rec) > 4000:
                raise RuntimeError('scripted run does not terminate')
            return xnew, xhat, fnew
        meth = solvers._adaptive_step_method(stepper, q, None)
        tag, out = guarded(lambda: meth(None, None, None, np.array([x0]), tau0, tend, tol, t0=t0, step_factor=sf))
        sc = plist(script, lambda e: '%d %d %d' % (bits(e[0]), bits(e[1]), bits(e[2])))
        add('adapt %d %d %d %d %d %d %d %d %s' % (q, bits(tol), bits(sf), bits(tau0), bits(tend), bits(t0), bits(x0), 5000, sc),
            ('adapt', q, tol, sf, tau0, tend, t0, x0, script, tag, out, rec))
        ctx.case(('adapt', it), nontrivial=(len(rec) >= 3))
        ctx.count('adapt: stepper calls', len(rec)); ctx.count('adapt: newton failures', sum(1 for r_ in rec if r_[2] is None))

    real_runs(ctx, solvers, T, add, guarded)

    got = ctx.model('drv_c12', req)
    ndis = 0
    perkey = {}
    nreq = {}
    for r, g, m in zip(req, got, meta):
        nreq[m[0]] = nreq.get(m[0], 0) + 1
        bad = compare(ctx, solvers, r, g, m, tabs)
        if bad:
            ndis += 1
            perkey[bad[0]] = perkey.get(bad[0], 0) + 1
            if perkey[bad[0]] <= 2:
                key, what, replay, found = bad
                replay.update({'request': r[:3000], 'model': g[:3000], 'stream': 'ode (drv_c12)'})
                ctx.violation(key, what, replay, found)
    ctx.obligation('correspondence stream ode: %d requests, model == implementation' % len(req), ndis == 0, '%d disagreements' % ndis)
    ctx.extra['requests'] = len(req); ctx.extra['requests_by_op'] = nreq

    # ---- direct property probes on the shipped methods (model-free; support the search) ----
    probes(ctx, solvers, T, bad_tabs)
    ctx.rule = ('12 shipped tableaux (all conditions up to the documented order, main+embedded, exact Fractions and Lean kernel); '
                'dirk/ros steps: shipped + random user tableaux (s<=4, explicit first stage, allclose window, malformed zero diagonal) x '
                'mass None/dense/sparse SPD integer x dissipative/general/dyadic/stiff L (n<=4) x tau in 2^1..2^-9,0.1,0.37,0.003 x Fx none/F(x)/arbitrary; '
                'newton: quadratic systems, maxiter 0..8, freeze 1..3; drivers: scripted steppers (failures, rejections, clamps, r==0). '
                'non-trivial = s>=2 and n>=2 (steps), maxiter>=2, >=2 iterations / >=3 stepper calls (drivers); distinct by generated case')


# ----------------------------------------------------------------------------- real (unscripted) runs
class Recorder:
    """records every dirk_step / rosenbrock_step call the exported drivers make (module-level lookup)"""
    def __init__(self, solvers, fcount):
        self.solvers = solvers; self.calls = []; self.fcount = fcount

    def __enter__(self):
        sv = self.solvers
        self.od, self.orr = sv.dirk_step, sv.rosenbrock_step
        def wd(A, M, F, J, x, tau, data=None, Fx=None):
            rec = {'kind': 'dirk', 'A': np.array(A, dtype=float), 'x': np.array(x, dtype=float, copy=True), 'tau': float(tau),
                   'Fx': None if Fx is None else np.array(Fx, dtype=float, copy=True), 'f0': self.fcount[0], 'data': data}
            self.calls.append(rec)
            try:
                out = self.od(A, M, F, J, x, tau, data, Fx=Fx)
            except sv.NoConvergenceError:
                rec['out'] = None; rec['f1'] = self.fcount[0]; raise
            rec['out'] = out; rec['f1'] = self.fcount[0]
            return out
        def wr(A, G, b, bh, M, F, J, x, tau, data, Fx=None):
            rec = {'kind': 'ros', 'A': np.array(A, dtype=float), 'G': np.array(G, dtype=float), 'b': np.array(b, dtype=float),
                   'bh': None if bh is None else np.array(bh, dtype=float), 'x': np.array(x, dtype=float, copy=True), 'tau': float(tau),
                   'Fx': None if Fx is None else np.array(Fx, dtype=float, copy=True), 'f0': self.fcount[0], 'data': data}
            self.calls.append(rec)
            out = self.orr(A, G, b, bh, M, F, J, x, tau, data, Fx=Fx)
            rec['out'] = out; rec['f1'] = self.fcount[0]
            return out
        sv.dirk_step, sv.rosenbrock_step = wd, wr
        return self

    def __exit__(self, *a):
        self.solvers.dirk_step, self.solvers.rosenbrock_step = self.od, self.orr


def fbl(v):
    return plist([float(a) for a in np.asarray(v, dtype=float).ravel()], lambda z: str(bits(z)))


def parse_bits(s_):
    t = s_.split(); n = int(t[0])
    return [struct.unpack('<d', struct.pack('<Q', int(z)))[0] for z in t[1:1 + n]]


def ros_float_oracle(A, G, b, M, F, J, x, tau):
    """Rosenbrock-Wanner step by definition in doubles with a fresh factorisation"""
    s = len(b); gam = G[0, 0]; jac = J(x); C = M - tau * gam * jac
    ks = []
    for i in range(s):
        y = x + tau * sum((A[i, j] * ks[j] for j in range(i)), np.zeros_like(x))
        rhs = F(y) + tau * (jac @ sum((G[i, j] * ks[j] for j in range(i)), np.zeros_like(x)))
        ks.append(np.linalg.solve(C, rhs))
    return x + tau * sum((b[i] * ks[i] for i in range(s)), np.zeros_like(x))


def dirk_tight_oracle(Afull, M, F, J, x, tau):
    """DIRK step with the stage equations solved to 1e-13 (Newton in doubles)"""
    s = Afull.shape[1]; Fs = []; Mx = M @ x
    for i in range(s):
        aii = Afull[i, i]
        rhs = Mx + tau * sum((Afull[i, j] * Fs[j] for j in range(i)), np.zeros_like(x))
        y = x.copy()
        if aii != 0:
            for _ in range(60):
                r = M @ y - tau * aii * F(y) - rhs
                if np.linalg.norm(r) < 1e-13 * (1 + np.linalg.norm(rhs)):
                    break
                y = y - np.linalg.solve(M - tau * aii * J(y), r)
        Fs.append(F(y))
    return np.linalg.solve(M, Mx + tau * sum((Afull[s, i] * Fs[i] for i in range(s)), np.zeros_like(x)))


def real_runs(ctx, solvers, T, add, guarded):
    """adaptive runs with a too-large initial step (rejections) and multi-step constant runs (shared `data`
    dict) of the exported methods on linear and nonlinear systems; every recorded step call is replayed by
    the model from the state and the Fx the driver *should* pass."""
    import scipy.sparse
    rng = ctx.rng
    quick = ctx.tier == 'quick'
    adaptive_names = ['sdirk21', 'dirk34', 'esdirk23', 'esdirk34'] + T.ROS
    plan = []
    JSTYLES = ['fresh', 'buffer', 'csr-inplace']     # how the J callback hands out its matrix
    for name in adaptive_names:
        for nonlinear in (False, True):
            for rep in range(1 if quick else 4):
                plan.append((name, 'adaptive', nonlinear, JSTYLES[int(rng.integers(0, 3))]))
    for name in T.DIRK + T.ROS:
        plan.append((name, 'constant', False, 'fresh'))
        for js in JSTYLES:
            plan.append((name, 'constant', True, js))
    for (name, mode, nonlinear, jstyle) in plan:
        n = int(rng.integers(1, 4))
        M = spd_int(rng, n) if (name in T.ROS or rng.integers(0, 3) > 0) else np.eye(n)
        S = rng.integers(-2, 3, size=(n, n)).astype(float); Kk = rng.integers(-1, 2, size=(n, n)).astype(float)
        K = S @ S.T + np.eye(n) + (Kk - Kk.T)
        g = rng.integers(-3, 4, size=n).astype(float)
        d = (rng.integers(1, 3, size=n).astype(float) / 2) if nonlinear else np.zeros(n)
        x0 = rng.integers(-2, 3, size=n).astype(float)
        fcount = [0]
        def F(y, K=K, d=d, g=g, fcount=fcount):
            fcount[0] += 1
            return -(K @ y) - d * y * y * y + g
        sparse_ = (not nonlinear) and rng.integers(0, 2) == 0
        if sparse_:
            Js = scipy.sparse.csr_matrix(-K); J = lambda y, Js=Js: Js
            Mobj = scipy.sparse.csr_matrix(M)
        elif not nonlinear or jstyle == 'fresh':
            J = lambda y, K=K, d=d: -K - 3 * np.diag(d * y * y)          # a new array on every call
            Mobj = M
        elif jstyle == 'buffer':
            buf = np.empty((n, n))
            def J(y, K=K, d=d, buf=buf):                                   # ONE preallocated dense buffer, refilled
                buf[:] = -K - 3 * np.diag(d * y * y)
                return buf
            Mobj = M
        else:
            mask = (K != 0) | np.eye(n, dtype=bool)
            Jc = scipy.sparse.csr_matrix(np.where(mask, 1.0, 0.0))
            Jc.sort_indices()
            ridx = np.repeat(np.arange(n), np.diff(Jc.indptr))
            def J(y, K=K, d=d, Jc=Jc, ridx=ridx):                          # ONE CSR matrix, .data rewritten in place
                Jc.data[:] = (-K - 3 * np.diag(d * y * y))[ridx, Jc.indices]
                return Jc
            Mobj = scipy.sparse.csr_matrix(M)
        Jd = lambda y, K=K, d=d: -K - 3 * np.diag(d * y * y)
        Fd = lambda y, K=K, d=d, g=g: -(K @ y) - d * y * y * y + g
        meth = getattr(solvers, name)
        # start time: zero, positive, negative, non-dyadic; always passed through the public entry point
        t0 = float(rng.choice([0.0, 0.5, -1.0, 0.3, -1.7, 2.5, 1.0e-3]))
        t0kw = {} if (t0 == 0.0 and rng.integers(0, 2) == 0) else {'t0': t0}
        if mode == 'adaptive':
            tau0 = float(rng.choice([2.0, 4.0, 1.0])); t_end = t0 + float(rng.choice([0.5, 1.0])); tol = float(rng.choice([1e-3, 1e-4]))
            call = lambda: meth(Mobj, F, J, x0.copy(), tau0, t_end, tol, **t0kw)
        else:
            tau0 = float(rng.choice([0.125, 0.25, 0.0625, 0.1]))
            t_end = t0 + tau0 * (int(rng.integers(3, 6)) - float(rng.choice([0.0, 0.4])))     # on and off the grid
            if rng.integers(0, 12) == 0:
                t_end = t0 - 0.5                                                              # empty range
            tol = None
            if name in ('crank_nicolson', 'sdirk3', 'sdirk3_b'):
                call = lambda: meth(Mobj, F, J, x0.copy(), tau0, t_end, **t0kw)
            else:
                call = lambda: meth(Mobj, F, J, x0.copy(), tau0, t_end, None, **t0kw)      # documented constant-step form tol=None
        with Recorder(solvers, fcount) as R:
            tag, out = guarded(call)
        desc = {'method': name, 'mode': mode, 'nonlinear': nonlinear, 'J_callback': jstyle if nonlinear else ('csr constant' if sparse_ else 'fresh'), 'M': M.tolist(), 'sparse': bool(sparse_), 'K': K.tolist(), 'd': d.tolist(),
                'g': g.tolist(), 'x0': x0.tolist(), 'tau0': tau0, 't0': t0, 't0_passed_as_keyword': bool(t0kw), 't_end': t_end, 'tol': tol, 'F': 'F(y) = -K@y - d*y**3 + g, J(y) = -K - 3*diag(d*y**2)'}
        ctx.case(('run', name, mode, nonlinear, str(desc)), nontrivial=True)
        ctx.count('run:%s:%s' % (mode, ('nonlinear J=' + jstyle) if nonlinear else 'linear'))
        if tag != 'ok':
            ctx.violation('ode-run:' + name, '%s (%s run) raised %s' % (name, mode, tag), desc, True); continue
        times, sols = out
        calls = R.calls
        if len(calls) > (60 if quick else 400):
            calls = calls[:60 if quick else 400]
        nrej = 0
        curF = None
        datas = set(id(c['data']) for c in R.calls)
        if len(datas) > 1:
            ctx.violation('ode-run:data-dict', '%s: the per-run `data` dict is not shared between the step calls' % name, desc, False)
        for k, c in enumerate(calls):
            o = c['out']
            # accepted?  constant: always; adaptive: the next call starts from this x_new (or it is the last reported state)
            if o is None:
                accepted = False
            elif mode == 'constant':
                accepted = True
            else:
                nxt = R.calls[k + 1]['x'] if k + 1 < len(R.calls) else np.asarray(sols[-1], dtype=float)
                accepted = np.array_equal(np.ravel(o[0]), np.ravel(nxt)) and not np.array_equal(np.ravel(o[0]), c['x'])
            if o is not None and not accepted:
                nrej += 1
            # Fx the driver must pass: F_x_new of the last accepted step
            fx_ok = (c['Fx'] is None and curF is None) or (c['Fx'] is not None and curF is not None and np.array_equal(c['Fx'], curF))
            cdesc = dict(desc, call_index=k, x=c['x'].tolist(), tau=c['tau'], Fx_received=None if c['Fx'] is None else c['Fx'].tolist(),
                         Fx_expected=None if curF is None else np.asarray(curF).tolist())
            if not fx_ok:
                # consequence on the stage equations (exact oracle for linear problems)
                dev = None
                if o is not None and c['kind'] == 'dirk':
                    ref = dirk_tight_oracle(c['A'], M, Fd, Jd, c['x'], c['tau'])
                    dev = float(np.max(np.abs(np.ravel(o[0]) - ref)))
                ctx.violation('ode-run:Fx-threading:' + name,
                              '%s (%s run): step call %d received an Fx that is not F at the current state (value of a rejected trial step)%s' % (
                                  name, mode, k, '' if dev is None else '; x_new deviates from the solution of the stage equations by %.3e' % dev),
                              cdesc, dev is not None and dev > 1e-8 * (1 + float(np.max(np.abs(c['x'])))))
            if o is not None:
                nf = c['f1'] - c['f0']
                if not nonlinear:
                    Ld = -K
                    if c['kind'] == 'dirk':
                        Afull = c['A']; s_ = Afull.shape[1]
                        r = 'dirk %d %d %s %d %d %s %s %s %s %s %d%s' % (
                            s_, Afull.shape[0], fvec(Afull), n, 1, fvec(M), fvec(Ld), fvec(g), fvec(c['x']), frac(c['tau']),
                            0 if curF is None else 1, '' if curF is None else ' ' + fvec(curF))
                        add(r, ('dirk', '%s [%s run, call %d]' % (name, mode, k), Afull, 1, M, Ld, g, c['x'], c['tau'],
                                None if curF is None else np.asarray(curF, dtype=float), 'ok', o, nf))
                    else:
                        r = 'ros %d %s %s %s %d%s %d %s %s %s %s %s' % (
                            len(c['b']), fvec(c['A']), fvec(c['G']), fvec(c['b']), 0 if c['bh'] is None else 1,
                            '' if c['bh'] is None else ' ' + fvec(c['bh']), n, fvec(M), fvec(Ld), fvec(g), fvec(c['x']), frac(c['tau']))
                        add(r, ('ros', '%s [%s run, call %d]' % (name, mode, k), c['A'], c['G'], c['b'], c['bh'], M, Ld, g, c['x'], c['tau'], 'ok', o))
                else:
                    if c['kind'] == 'dirk':
                        Afull = c['A']; s_ = Afull.shape[1]
                        r = 'dirkf %d %d %s %d %s %s %s %s %s %d %d%s' % (
                            s_, Afull.shape[0], fbl(Afull), n, fbl(M), fbl(K), fbl(d), fbl(g), fbl(c['x']), bits(c['tau']),
                            0 if curF is None else 1, '' if curF is None else ' ' + fbl(curF))
                        add(r, ('dirkf', cdesc, Afull, M, Fd, Jd, c['x'], c['tau'], o, nf))
                    else:
                        r = 'rosf %d %s %s %s %d%s %d %s %s %s %s %s %d' % (
                            len(c['b']), fbl(c['A']), fbl(c['G']), fbl(c['b']), 0 if c['bh'] is None else 1,
                            '' if c['bh'] is None else ' ' + fbl(c['bh']), n, fbl(M), fbl(K), fbl(d), fbl(g), fbl(c['x']), bits(c['tau']))
                        add(r, ('rosf', cdesc, c['A'], c['G'], c['b'], c['bh'], M, Fd, Jd, c['x'], c['tau'], o))
                ctx.count('run step calls replayed by the model')
            if accepted:
                curF = o[-1]
        ctx.count('run: rejected steps', nrej)
        if mode == 'adaptive':
            ctx.count('adaptive runs with >=1 rejection', 1 if nrej else 0)
            if not all(b_ > a_ for a_, b_ in zip(times, times[1:])) or not times[-1] >= t_end or len(times) != len(sols) or times[0] != t0:
                ctx.violation('ode-run:' + name, '%s adaptive run: times do not start at t0 / are not strictly increasing up to t_end' % name, dict(desc, times=list(times)[:40]), True)
            # the controller of the model (adaptLoop, Float) driven by the recorded stepper calls: bit-exact times
            q_ = T.closure(meth).get('err_order')
            script = []
            acc = 0
            for k, c in enumerate(R.calls):
                o = c['out']
                if o is None:
                    script.append((acc, c['tau'], 0, 0.0)); continue
                dd = tol + tol * abs(c['x'])
                r_ = float(np.linalg.norm((np.ravel(o[1]) - np.ravel(o[0])) / dd) / np.sqrt(len(c['x'])))
                script.append((acc, c['tau'], 1, r_))
                nxt = R.calls[k + 1]['x'] if k + 1 < len(R.calls) else np.asarray(sols[-1], dtype=float)
                if np.array_equal(np.ravel(o[0]), np.ravel(nxt)) and not np.array_equal(np.ravel(o[0]), c['x']):
                    acc += 1
            if q_ and len(script) <= 400:
                add('adaptr %d %d %d %d %d %d %s' % (q_, bits(0.9), bits(tau0), bits(t_end), bits(t0), len(script) + 5,
                                                     plist(script, lambda e: '%d %d %d %d' % (e[0], bits(e[1]), e[2], bits(e[3])))),
                    ('adaptr', desc, [float(t) for t in times], len(sols), script))
        else:
            nst = max(0, int(math.ceil((t_end - t0) / tau0)))
            if list(times) != [t0 + k * tau0 for k in range(nst + 1)] or len(sols) != nst + 1:
                ctx.violation('ode-run:' + name, '%s constant run (t0=%r, tau=%r, t_end=%r%s): %d times %s..%s, %d states; expected %d times t0+k*tau' % (
                    name, t0, tau0, t_end, ', tol=None' if name not in ('crank_nicolson', 'sdirk3', 'sdirk3_b') else '', len(times),
                    list(times)[:3], list(times)[-1:], len(sols), nst + 1), dict(desc, times=list(times)[:40]), True)
            # the model's constant driver (Float instantiation: same double arithmetic) on the same (t0, tau, t_end)
            add('constf %d %d %d' % (bits(t0), bits(tau0), bits(t_end)), ('constr', desc, [float(t) for t in times], len(sols)))


def report_owned(ctx, own, what, info):
    """caller-owned arrays (arguments, arrays handed out by callbacks) must be bitwise unchanged after the call"""
    bad = own.changed()
    ctx.count('owned arrays monitored', len(own.items))
    if bad:
        ctx.violation('ode-owned:' + what, '%s modified caller-owned data in place: %s' % (what, ', '.join(bad)), dict(info, modified=bad), False)


def compare(ctx, solvers, r, g, m, tabs):
    """returns None or (key, what, replay, found_input)"""
    import c12_tableaux as T
    op = m[0]
    if g == 'bad-request':
        return ('ode-corr:' + op, 'driver rejected the request', {}, False)
    if op == 'res':
        t = next(t for t in tabs if t['name'] == m[1])
        want = ' | '.join(plist(grp, frac) for grp in t['res_' + m[2]])
        if want != g:
            return ('ode-corr:order-residuals', 'Lean order-condition residuals differ from the Fraction oracle for %s/%s' % (m[1], m[2]), {'oracle': want}, False)
        return None
    if op == 'allclose':
        t = next(t for t in tabs if t['name'] == m[1])
        A = np.array([[float(x) for x in r_] for r_ in t['A']]); b = np.array([float(x) for x in t['b']])
        want = '1' if np.allclose(b, A[t['s'] - 1]) else '0'
        return None if want == g else ('ode-corr:allclose', 'allclose model differs from numpy for ' + m[1], {}, False)
    if op == 'dirk':
        _, name, Afull, kind, M, L, gg, x, tau, Fx, tag, out, ncalls = m
        s = Afull.shape[1]
        if g == 'err-singular':
            ctx.count('dirk: skipped (singular in exact arithmetic)'); return None
        orc = dirk_oracle(Afull, M, L, gg, x, tau, Fx if Afull[0, 0] == 0 else None) if tag == 'ok' else None
        scale = None
        def oracle_verdict():
            """does the *property* fail on the implementation?  (stage equations / update of the tableau)"""
            if tag != 'ok':
                if tag == 'err-AssertionError' and any(Afull[i, i] == 0 for i in range(1, s)):
                    return None
                return 'dirk_step raised %s on a well-posed linear problem' % tag
            if orc is None:
                return None
            ys, Fs, xn, xe = orc
            sc = Fr(1) + max(abs(v) for v in xn + fexact(x)) + abs(Fr(tau)) * max([abs(v) for f in Fs for v in f] + [Fr(0)])
            is_sa = np.allclose(Afull[s], Afull[s - 1])
            tol = sc * Fr(1, 10 ** 9) + (Fr(1, 10 ** 3) * sc if is_sa and not np.array_equal(Afull[s], Afull[s - 1]) else 0)
            if not close(out[0], xn, tol):
                return 'x_new differs from the exact solution of the stage/update equations by %.3e (tol %.1e)' % (
                    max(abs(float(a) - float(e)) for a, e in zip(np.ravel(out[0]), xn)), float(tol))
            if xe is not None and (len(out) != 3 or not close(out[1], xe, tol)):
                return 'x_est differs from the exact embedded update'
            return None
        toks = g.split()
        if toks[0] != 'ok' or tag != 'ok':
            if toks[0] == tag:
                return None
            v = oracle_verdict()
            return ('ode-corr:dirk', 'dirk_step: implementation %s, model %s%s' % (tag, toks[0], '; ' + v if v else ''),
                    replay_dirk(m), v is not None)
        parts = g[3:].split(' | ')
        xn_m, _ = parse_vec(parts[0].split(), 0)
        xe_m = None if parts[1].strip() == '-' else parse_vec(parts[1].split(), 0)[0]
        fx_m = None if parts[2].strip() == '-' else parse_vec(parts[2].split(), 0)[0]
        fcalls_m = int(parts[3]); sa_m = parts[4].strip() == '1'
        sc = Fr(1) + max(abs(v) for v in xn_m + fexact(x)) + abs(Fr(tau)) * (sum(abs(Fr(float(v))) for v in np.ravel(L)) * max([abs(v) for v in xn_m + fexact(x)]) + max(abs(Fr(float(v))) for v in gg))
        tol = sc * Fr(1, 10 ** 9)
        problems = []
        has_est = Afull.shape[0] == s + 2
        if (len(out) == 3) != has_est:
            problems.append('return arity')
        x_new = out[0]; x_est = out[1] if len(out) == 3 else None; F_new = out[-1]
        if not close(x_new, xn_m, tol):
            problems.append('x_new')
        if has_est and len(out) == 3 and not close(x_est, xe_m, tol):
            problems.append('x_est')
        if (F_new is None) != (fx_m is None):
            problems.append('F_x_new presence (stiffly accurate shortcut taken: impl %s, model %s)' % (F_new is not None, sa_m))
        elif F_new is not None and not close(F_new, fx_m, tol * (1 + sum(abs(Fr(float(v))) for v in np.ravel(L)))):
            problems.append('F_x_new')
        if ncalls != fcalls_m:
            problems.append('number of F evaluations (impl %d, model %d)' % (ncalls, fcalls_m))
        if not problems:
            return None
        v = oracle_verdict()
        return ('ode-corr:dirk', 'dirk_step disagrees with the model on: ' + ', '.join(problems) + ('; ' + v if v else ''), replay_dirk(m), v is not None)
    if op == 'ros':
        _, name, A, G, b, bh, M, L, gg, x, tau, tag, out = m
        if g == 'err-singular':
            ctx.count('ros: skipped (singular in exact arithmetic)'); return None
        def oracle_verdict():
            if tag != 'ok':
                return 'rosenbrock_step raised %s' % tag
            orc = ros_oracle(A, G, b, bh, M, L, gg, x, tau)
            if orc is None:
                return None
            ks, xn, xe = orc
            sc = Fr(1) + max(abs(v) for v in xn + fexact(x)) + abs(Fr(tau)) * max(abs(v) for k in ks for v in k)
            tol = sc * Fr(1, 10 ** 9)
            if not close(out[0], xn, tol):
                return 'x_new differs from the exact Rosenbrock-Wanner step by %.3e' % max(abs(float(a) - float(e)) for a, e in zip(np.ravel(out[0]), xn))
            if xe is not None and (len(out) != 3 or not close(out[1], xe, tol)):
                return 'x_est differs from the exact embedded update'
            return None
        toks = g.split()
        if tag != 'ok' or toks[0] != 'ok':
            v = oracle_verdict()
            return ('ode-corr:ros', 'rosenbrock_step: implementation %s, model %s' % (tag, toks[0]), replay_ros(m), v is not None)
        parts = g[3:].split(' | ')
        xn_m, _ = parse_vec(parts[0].split(), 0)
        xe_m = None if parts[1].strip() == '-' else parse_vec(parts[1].split(), 0)[0]
        ks_m = []
        tk = parts[2].split(); pos = 0
        while pos < len(tk):
            v_, pos = parse_vec(tk, pos); ks_m.append(v_)
        sc = Fr(1) + max(abs(v) for v in xn_m + fexact(x)) + abs(Fr(tau)) * max(abs(v) for k in ks_m for v in k)
        tol = sc * Fr(1, 10 ** 9)
        problems = []
        if (len(out) == 3) != (bh is not None):
            problems.append('return arity')
        if not close(out[0], xn_m, tol):
            problems.append('x_new')
        if bh is not None and len(out) == 3 and not close(out[1], xe_m, tol):
            problems.append('x_est')
        if out[-1] is not None:
            problems.append('F_x_new not None')
        if not problems:
            return None
        v = oracle_verdict()
        return ('ode-corr:ros', 'rosenbrock_step disagrees with the model on: ' + ', '.join(problems) + ('; ' + v if v else ''), replay_ros(m), v is not None)
    if op == 'constr':
        _, cdesc, times, nsols = m
        mt = parse_bits(g.split(' | ')[0])
        mstates = int(g.split(' | ')[1])
        problems = []
        if len(mt) != len(times) or nsols != mstates:
            problems.append('%d times / %d states, model %d / %d' % (len(times), nsols, len(mt), mstates))
        else:
            for k, (a, e) in enumerate(zip(times, mt)):
                if a != e:
                    problems.append('time %d is %r, model %r' % (k, a, e)); break
        if not problems:
            return None
        return ('ode-corr:const-run', '%s constant-step run (public entry point, t0=%r) disagrees with the model driver: %s' % (
            cdesc['method'], cdesc['t0'], '; '.join(problems)), dict(cdesc, implementation_times=times[:40], model_times=[float(e) for e in mt][:40]), True)
    if op == 'adaptr':
        _, cdesc, times, nsols, script = m
        if g.startswith('err'):
            return ('ode-corr:adapt-run', '%s adaptive run: the model controller asks for a step the implementation never made (%s)' % (cdesc['method'], g),
                    dict(cdesc, implementation_times=times[:40], recorded_calls=script[:40]), False)
        parts = g.split(' | ')
        want = plist(times, lambda v: str(bits(v)))
        if parts[0] == want and nsols == len(times) and parts[2].strip() == '0':
            return None
        mt = parse_bits(parts[0])
        return ('ode-corr:adapt-run', '%s adaptive run (t0=%r): times differ from the model controller driven by the recorded steps (%d vs %d entries, first %s vs %s)' % (
            cdesc['method'], cdesc['t0'], len(times), len(mt), times[:3], mt[:3]),
            dict(cdesc, implementation_times=times[:40], model_times=mt[:40], recorded_calls=script[:40]),
            len(times) != nsols or times[0] != cdesc['t0'])
    if op == 'rosf':
        _, cdesc, A, G, b, bh, M, Fd, Jd, x, tau, out = m
        parts = g[3:].split(' | ')
        xm = np.array(parse_bits(parts[0]))
        scale = 1 + np.max(np.abs(x)) + np.max(np.abs(xm))
        xi = np.ravel(out[0])
        problems = []
        if not (np.all(np.isfinite(xi)) and np.max(np.abs(xi - xm)) <= 1e-8 * scale):
            problems.append('x_new (max difference %.3e)' % float(np.max(np.abs(xi - xm))))
        if bh is not None and parts[1].strip() != '-':
            xe = np.array(parse_bits(parts[1]))
            if len(out) != 3 or not np.max(np.abs(np.ravel(out[1]) - xe)) <= 1e-8 * scale:
                problems.append('x_est')
        if not problems:
            return None
        ref = ros_float_oracle(A, G, b, M, Fd, Jd, x, tau)
        dev = float(np.max(np.abs(xi - ref)))
        v = 'x_new differs from the Rosenbrock-Wanner step with the matrix M - tau*gamma*J(x) of *this* step by %.3e (rel. %.2e)' % (dev, dev / scale) if dev > 1e-8 * scale else None
        return ('ode-corr:rosf', 'rosenbrock_step inside %s disagrees with the model on: %s' % (cdesc['method'], ', '.join(problems)) + ('; ' + v if v else ''),
                dict(cdesc, implementation_x_new=xi.tolist(), model_x_new=xm.tolist()), v is not None)
    if op == 'dirkf':
        _, cdesc, Afull, M, Fd, Jd, x, tau, out, nf = m
        if not g.startswith('ok'):
            return ('ode-corr:dirkf', 'dirk_step inside %s returned, the model says %s' % (cdesc['method'], g), cdesc, False)
        parts = g[3:].split(' | ')
        xm = np.array(parse_bits(parts[0]))
        scale = 1 + np.max(np.abs(x)) + np.max(np.abs(xm))
        xi = np.ravel(out[0])
        problems = []
        if not (np.all(np.isfinite(xi)) and np.max(np.abs(xi - xm)) <= 1e-8 * scale):
            problems.append('x_new (max difference %.3e)' % float(np.max(np.abs(xi - xm))))
        if len(out) == 3 and parts[1].strip() != '-':
            xe = np.array(parse_bits(parts[1]))
            if not np.max(np.abs(np.ravel(out[1]) - xe)) <= 1e-8 * scale:
                problems.append('x_est')
        if (out[-1] is None) != (parts[2].strip() == '-'):
            problems.append('F_x_new presence')
        if int(parts[3]) != nf:
            problems.append('number of F evaluations (impl %d, model %d)' % (nf, int(parts[3])))
        if not problems:
            return None
        ref = dirk_tight_oracle(Afull, M, Fd, Jd, x, tau)
        dev = float(np.max(np.abs(xi - ref)))
        s_ = Afull.shape[1]
        bound = 100 * s_ * 1e-4 * max(1.0, float(np.linalg.norm(np.linalg.inv(M), 2)))      # Newton's absolute tolerance, amplified
        v = 'x_new differs from the tightly solved stage equations by %.3e, more than Newton\'s tolerance allows (%.1e)' % (dev, bound) if dev > bound else None
        return ('ode-corr:dirkf', 'dirk_step inside %s disagrees with the model on: %s' % (cdesc['method'], ', '.join(problems)) + ('; ' + v if v else ''),
                dict(cdesc, implementation_x_new=xi.tolist(), model_x_new=xm.tolist()), v is not None)
    if op == 'newton':
        _, Q, dq, c, x0, atol, rtol, maxiter, freeze, tag, out, ncalls, njac, jmode, lay = m
        if g == 'err-singular':
            ctx.count('newton: skipped (singular Jacobian)'); return None
        head, kpart, norms, targ = g.split(' | ')
        mtag = head.split()[0]
        xm, _ = parse_vec(head.split(), 1)
        k_m = int(kpart); nl, _ = parse_vec(norms.split(), 0); t2 = Fr(targ)
        # borderline: a tested residual within 1e-6 (relative) of the target, or below double resolution effects
        if any(t2 > 0 and abs(v / t2 - 1) < Fr(1, 10 ** 5) for v in nl):
            ctx.count('newton: skipped (borderline convergence test)'); return None
        Ff = lambda x_: Q @ x_ + dq * x_ * x_ - c
        def oracle_verdict():
            res0 = np.linalg.norm(Ff(x0)); target = max(atol, rtol * res0)
            if tag == 'ok':
                if not np.linalg.norm(Ff(out)) < target * (1 + 1e-9):
                    return 'newton returned a point whose residual %.3e is not below the target %.3e' % (np.linalg.norm(Ff(out)), target)
                return None
            if tag == 'err-NoConvergence':
                if ncalls != maxiter + 1:
                    return 'newton raised after %d updates, maxiter=%d' % (ncalls - 1, maxiter)
                if out.num_iter != maxiter:
                    return 'NoConvergenceError.num_iter=%r, maxiter=%d' % (out.num_iter, maxiter)
                return None
            return 'newton raised ' + tag
        problems = []
        if mtag != tag:
            problems.append('outcome (impl %s, model %s)' % (tag, mtag))
        else:
            if ncalls != k_m + 1:
                problems.append('number of updates (impl %d, model %d)' % (ncalls - 1, k_m))
            exp_j = len([k for k in range(k_m) if k % freeze == 0])
            if njac != exp_j:
                problems.append('number of Jacobian evaluations (impl %d, model %d)' % (njac, exp_j))
            xi = out if tag == 'ok' else out.last_iterate
            sc = Fr(1) + max(abs(v) for v in xm)
            if (tag == 'ok' or maxiter <= 3) and not close(xi, xm, sc * Fr(1, 10 ** 7)):
                problems.append('iterate')
        v = oracle_verdict()
        if not problems and v is None:
            return None
        return ('ode-corr:newton' if v is None else 'ode:newton-contract',
                'newton disagrees with the model on: ' + ', '.join(problems) + ('; ' + v if v else ''),
                {'Q': Q.tolist(), 'dq': dq.tolist(), 'c': c.tolist(), 'x0': x0.tolist(), 'atol': atol, 'rtol': rtol, 'maxiter': maxiter,
                 'freeze_jac': freeze, 'implementation': tag, 'F': 'Q@x + dq*x*x - c', 'J_callback': jmode, 'memory_layout_of_stored_matrices': lay}, v is not None)
    if op == 'const':
        _, t0, tau, tend, script, tag, out = m
        if tag != 'ok':
            return ('ode-corr:const', 'constant-step driver raised ' + tag, {'t0': t0, 'tau': tau, 't_end': tend}, True)
        want = '%s | %s' % (plist(out[0], frac), plist(out[1], frac))
        if want == g:
            return None
        # oracle: the property itself
        times, sols = out
        nmax = max(0, int(math.ceil((tend - t0) / tau)))
        v = None
        if len(times) != len(sols):
            v = 'len(times) != len(solutions)'
        elif any(t != t0 + k * tau for k, t in enumerate(times)):
            v = 'times are not t0 + k*tau: %s' % times[:6]
        elif len(times) != nmax + 1 and not any(e is None for e in script[:len(times)]) and len(script) >= nmax:
            v = '%d states returned, num_iter+1 = %d' % (len(times), nmax + 1)
        return ('ode-corr:const', 'constant-step driver disagrees with the model' + ('; ' + v if v else ''),
                {'t0': t0, 'tau': tau, 't_end': tend, 'script(a,d,e,Fx) None=NoConvergence': script, 'implementation': want}, v is not None)
    if op == 'adapt':
        _, q, tol, sf, tau0, tend, t0, x0, script, tag, out, rec = m
        parts = g.split(' | ')
        if tag == 'err-RuntimeError' and 'does not terminate' in str(out) and len(parts) > 3 and parts[3].strip() == '1':
            # e.g. step_factor = 1: r -> 1 from above, the controller never accepts; both sides agree that the loop goes on
            ctx.count('adapt: skipped (script never terminates; model out of fuel too)'); return None
        if tag != 'ok':
            return ('ode-corr:adapt', 'adaptive driver raised %s (%s)' % (tag, out), {'script': script}, False)
        if parts[3].strip() == '1':
            ctx.count('adapt: skipped (model out of fuel)'); return None
        want_t = plist(out[0], lambda v: str(bits(v))); want_x = plist(out[1], lambda v: str(bits(np.ravel(v)[0])))
        if parts[0] == want_t and parts[1] == want_x:
            return None
        # oracle: invariants recomputed from the recorded stepper calls
        times = out[0]
        v = None
        if any(b_ <= a_ for a_, b_ in zip(times, times[1:])):
            v = 'times not strictly increasing'
        elif tend > t0 and not times[-1] >= tend:
            v = 'last time %r < t_end %r' % (times[-1], tend)
        else:
            acc = 0
            curF = None         # F_x_new of the last accepted step: what the stepper must receive as Fx
            for i, (xv, tv, xn, xh, fin, fout) in enumerate(rec):
                if fin != curF:
                    v = 'stepper call %d received Fx=%r although the F value belonging to the current state is %r (Fx of a rejected trial step passed on)' % (i, fin, curF); break
                if xn is not None and ((i + 1 < len(rec) and rec[i + 1][0] == xn) or (i + 1 == len(rec) and float(np.ravel(out[1][-1])[0]) == xn)):
                    curF = fout
                if tv <= 0:
                    v = 'non-positive step size %r' % tv; break
                if i + 1 < len(rec):
                    f = rec[i + 1][1] / tv
                    if xn is None:
                        if f != 0.5:
                            v = 'step factor %r after a Newton failure' % f; break
                    elif not (0.2 * (1 - 1e-12) <= f <= 5.0 * (1 + 1e-12)):
                        v = 'step factor %r outside [0.2, 5]' % f; break
                if xn is not None:
                    rr = abs((xh - xn) / (tol + tol * abs(xv)))
                    accepted = (i + 1 < len(rec) and rec[i + 1][0] == xn and xn != xv) or (i + 1 == len(rec))
                    if abs(rr - 1) > 1e-9 and (rr <= 1) != accepted and xn != xv:
                        v = 'step with scaled error %r was %s' % (rr, 'accepted' if accepted else 'rejected'); break
        return ('ode-corr:adapt', 'adaptive driver disagrees with the model (times/solutions bit patterns)' + ('; ' + v if v else ''),
                {'err_order': q, 'tol': tol, 'step_factor': sf, 'tau0': tau0, 't_end': tend, 't0': t0, 'x0': x0,
                 'script(c,e,thr)': script, 'implementation_times': [float(t) for t in out[0]][:50],
                 'stepper_calls(x,tau,xnew,xhat,Fx_received,Fxnew)': rec[:50]}, v is not None)
    return None


def replay_dirk(m):
    _, name, Afull, kind, M, L, gg, x, tau, Fx, tag, out, ncalls = m
    return {'call': 'solvers.dirk_step(A, M, F, J, x, tau, None, Fx=Fx) with F(y)=L@y+g, J(y)=L', 'tableau': name, 'A': Afull.tolist(),
            'M': ['None', 'dense', 'sparse'][kind], 'M_matrix': M.tolist(), 'L': L.tolist(), 'g': gg.tolist(), 'x': x.tolist(), 'tau': tau,
            'Fx': None if Fx is None else Fx.tolist(), 'implementation': tag,
            'implementation_x_new': np.ravel(out[0]).tolist() if tag == 'ok' else None, 'F_calls': ncalls}


def replay_ros(m):
    _, name, A, G, b, bh, M, L, gg, x, tau, tag, out = m
    return {'call': 'solvers.rosenbrock_step(A, Gamma, b, b_hat, M, F, J, x, tau, {}) with F(y)=L@y+g, J(y)=L', 'tableau': name,
            'A': A.tolist(), 'Gamma': G.tolist(), 'b': b.tolist(), 'b_hat': None if bh is None else bh.tolist(),
            'M': M.tolist(), 'L': L.tolist(), 'g': gg.tolist(), 'x': x.tolist(), 'tau': tau, 'implementation': tag,
            'implementation_x_new': np.ravel(out[0]).tolist() if tag == 'ok' else None}


def probes(ctx, solvers, T, bad_tabs=()):
    """end-to-end, model-free: every exported method integrates y' = c over [0,1] (tau=1/4) to c within
    n_steps*|sum(b)-1| + rounding; constant drivers return t0+k*tau; adaptive drivers reach t_end."""
    c = np.array([1.0, -2.0])
    M = np.array([[2.0, 1.0], [1.0, 3.0]])
    F = lambda y: M @ c          # M y' = M c  =>  y' = c
    J = lambda y: np.zeros((2, 2))
    for name in T.DIRK + T.ROS:
        meth = getattr(solvers, name)
        adaptive = name not in ('crank_nicolson', 'sdirk3', 'sdirk3_b')
        try:
            with contextlib.redirect_stdout(io.StringIO()):
                if adaptive:
                    times, sols = meth(M, F, J, np.zeros(2), 0.25, 1.0, None)
                else:
                    times, sols = meth(M, F, J, np.zeros(2), 0.25, 1.0)
        except Exception as ex:
            ctx.violation('probe:' + name, '%s raised %s on y\'=c' % (name, type(ex).__name__), {'exception': repr(ex)}, True)
            continue
        ctx.count('probe runs')
        err = float(np.max(np.abs(sols[-1] - c * (0.25 * (len(sols) - 1)))))
        okt = list(times) == [0.25 * k for k in range(5)] and len(sols) == 5
        if not okt:
            ctx.violation('probe:%s:times' % name, '%s(tau=0.25, t_end=1) returned times %s' % (name, list(times)), {'times': list(times)}, True)
        if err > 1e-12:
            key = ('tableau:%s:order-conditions' if name in bad_tabs else 'probe:%s:const-rhs') % name
            ctx.violation(key, "%s integrates y'=c (c=(1,-2), M=[[2,1],[1,3]], tau=1/4, 4 steps) with error %.3e" % (name, err),
                          {'method': name, 'y_end': np.asarray(sols[-1]).tolist(), 'expected': c.tolist(), 'error': err}, True)
        if adaptive:
            try:
                with contextlib.redirect_stdout(io.StringIO()):
                    times, sols = meth(M, F, J, np.zeros(2), 0.25, 1.0, 1e-3)
                inc = all(b > a for a, b in zip(times, times[1:]))
                if not inc or not times[-1] >= 1.0 or len(times) != len(sols):
                    ctx.violation('probe:%s:adaptive' % name, '%s adaptive run: times %s' % (name, list(times)[:10]), {'times': list(times)}, True)
                ctx.count('probe runs')
            except Exception as ex:
                ctx.violation('probe:%s:adaptive' % name, '%s adaptive raised %s' % (name, type(ex).__name__), {'exception': repr(ex)}, True)
