"""
C13 — request histories against the in-process assembler cache, without C compilation.

`compile.compile_cython_module` is replaced by a source-recording stand-in (as in the seeded demos); everything else is the real
code (`compile_vform`, `compile_vforms`, `generate`, the pre-seeded `__vform_asm_cache`, `VForm.hash/add/input/parameter/let`).
Runs in a subprocess (`worker`) so that the process-global cache and the stub never leak into the check itself.

 (a) histories mixing compile_vform / compile_vforms (known forms before / after / between new ones, repeats, predefined forms,
     on_demand both ways).  ORACLE (model-free): every returned class must be the one generated from ITS form — a recorded class
     must have the class text an independent `AsmGenerator` run produces for a fresh copy of the form (class name and CSE temporary
     numbering normalised); a shipped class must be the one `scripts/generate-assemblers.py` pairs with that form.
     MODEL: the labels of the returned classes (`P<k>` pre-seeded, `i.j` generated for position j of request i) are diffed against
     `Pyiga.VForm.compileHistoryIdx` (driver `hist`), which contains compile_vforms exactly as coded.
 (b) object histories on ONE VForm: hash()/compile before further add()/input()/parameter()/let(), then compile again.  Either the
     library refuses (error kind compared with the model, driver `obj`) or the class returned afterwards must be the one generated
     from the form as it is now (oracle: a fresh twin built by replaying the accepted steps).
"""
import json
import os
import re
import subprocess
import sys

from .common import PY, VERIF, REPO, plist

_TMP = re.compile(r'_tmp\d+')


def _norm(text):
    # (column-0 comment lines are the constants-layout comments AsmGenerator prints *before* the next class)
    return sorted(_TMP.sub('_tmp', l) for l in text.split('\n') if l.strip() and not l.startswith('#'))


def class_text(src, name):
    starts = [(m.start(), m.group(1)) for m in re.finditer(r'^cdef class (\w+)\(', src, flags=re.M)]
    for n, (pos, nm) in enumerate(starts):
        if nm == name:
            end = starts[n + 1][0] if n + 1 < len(starts) else len(src)
            return re.sub(r'\b%s\b' % re.escape(name), 'CLS', src[pos:end].strip())
    return None


# ----------------------------------------------------------------------------- worker (subprocess)
def worker():
    spec = json.load(sys.stdin)
    import numpy as np
    from pyiga import vform as V, compile as C, assemblers
    from pyiga.codegen import cython as codegen
    from harness import c06_lib as L
    from harness import c13 as K
    rng = np.random.default_rng(spec['seed'])
    out = {'hist': [], 'obj': [], 'violations': [], 'counts': {}, 'obligations': []}

    def cnt(k, n=1):
        out['counts'][k] = out['counts'].get(k, 0) + n

    # ---- stand-in for the Cython/C build
    class StubAsm:
        def __init__(self, name, src):
            self.name, self.src = name, src

    class FakeModule:
        def __init__(self, src):
            self.src = src
            self._objs = {}

        def __getattr__(self, name):
            if name.startswith('CustomAssembler'):
                if name not in self._objs:
                    self._objs[name] = StubAsm(name, self.src)
                return self._objs[name]
            raise AttributeError(name)
    C.compile_cython_module = lambda src, verbose=False: FakeModule(src)
    cache = C.__dict__['__vform_asm_cache']
    initial = dict(cache)

    # ---- predefined forms as paired by scripts/generate-assemblers.py (independent of compile.py's seeding)
    script = open(os.path.join(REPO, 'scripts', 'generate-assemblers.py')).read()
    pairs = re.findall(r"gen\(vform\.(\w+)\(dim(.*?)\),\s*'(\w+)'\s*\+\s*nD\)", script)
    recipes = {}          # name -> (thunk, od_ok, predefined class or None)
    pre_order = []
    for dim in (2, 3):
        for (fname, extra, cname) in pairs:
            kw = {}
            for m in re.finditer(r'(\w+)=(True|False)', extra):
                kw[m.group(1)] = (m.group(2) == 'True')
            nm = '%s%dD' % (cname, dim)
            recipes[nm] = ((lambda fname=fname, dim=dim, kw=kw: getattr(V, fname)(dim, **kw)), False, getattr(assemblers, nm, None))
            pre_order.append(nm)
    # the pre-seeded cache must pair every predefined form with that class
    bad = []
    for nm in pre_order:
        thunk, _, cls = recipes[nm]
        got = initial.get((thunk().hash(), (False,)))
        if cls is None or got is not cls:
            bad.append(nm)
    out['obligations'].append(('pre-seeded cache pairs each of the %d predefined forms with its shipped class' % len(pre_order), not bad, ', '.join(bad)))
    pre_label = {}
    for k, nm in enumerate(pre_order):
        pre_label.setdefault(id(recipes[nm][2]), 'P%d' % k)

    def simple(kind, dim):
        def mk():
            vf = V.VForm(dim); u, v = vf.basisfuns()
            if kind == 'X':
                vf.add(V.inner(V.grad(u), V.grad(v)) * V.dx)
            elif kind == 'Y':
                f = vf.input('f'); vf.add(f * u * v * V.dx)
            elif kind == 'Z':
                vf.add((u * v + V.inner(V.grad(u), V.grad(v))) * V.dx)
            elif kind == 'Q':
                c = vf.parameter('c'); vf.add(c * V.Dx(u, 0) * v * V.dx)
            else:
                vf.add(2.0 * u * v * V.dx)
            return vf
        return mk
    for kind in 'XYZQM':
        for dim in (1, 2):
            recipes['%s%d' % (kind, dim)] = (simple(kind, dim), True, None)
    nspec = 0
    while nspec < 6:
        s = K.random_spec(rng)
        try:
            C.generate(K.mk(s), on_demand=False)
        except Exception:
            continue
        recipes['S%d' % nspec] = ((lambda s=s: K.mk(s)), False, None)
        nspec += 1
    names = list(recipes)
    exp_cache = {}

    def expected_text(nm, od, thunk=None):
        key = (nm, od)
        if key not in exp_cache:
            code = codegen.CodeGen()
            codegen.AsmGenerator((thunk or recipes[nm][0])(), 'CLS', code, on_demand=od).generate()
            exp_cache[key] = _norm(class_text(code.result(), 'CLS'))
        return exp_cache[key]

    def judge(cls, nm, od, where, thunk=None):
        """model-free verdict on one returned class; returns a violation dict or None"""
        if isinstance(cls, StubAsm):
            txt = class_text(cls.src, cls.name)
            if txt is None or _norm(txt) != expected_text(nm, od, thunk):
                return {'where': where, 'form': nm, 'on_demand': od, 'what': 'the returned (recorded) class was generated from a different form',
                        'returned_class': cls.name, 'returned_head': (txt or '')[:300]}
            return None
        lab = pre_label.get(id(cls))
        if lab is None:
            return {'where': where, 'form': nm, 'what': 'unknown object returned: %r' % (cls,)}
        want = recipes[nm][2] if (thunk is None and nm in recipes) else None
        if od or want is not cls:
            # a shipped class is right only for its own form with on_demand=False; for object histories compare sources
            if thunk is not None and not od:
                k = int(lab[1:])
                if expected_text('twin', od, thunk) == expected_text(pre_order[k], False):
                    return None
            return {'where': where, 'form': nm, 'on_demand': od,
                    'what': 'the shipped class %s was returned for a form it does not implement' % getattr(cls, '__name__', lab)}
        return None

    # ---- (a) mixed histories
    for h in range(spec['nhist']):
        cache.clear(); cache.update(initial)
        nops = int(rng.integers(2, 8))
        ops = []
        pool = [names[int(i)] for i in rng.integers(0, len(names), size=4)] + [pre_order[int(rng.integers(0, 7))]]
        for _ in range(nops):
            if rng.integers(0, 5) < 3:
                nm = pool[int(rng.integers(0, len(pool)))]
                od = bool(rng.integers(0, 2)) and recipes[nm][1]
                ops.append(('1', nm, od))
            else:
                k = int(rng.integers(1, 5))
                ops.append(('n', [pool[int(i)] for i in rng.integers(0, len(pool), size=k)]))
        labels = {}
        keep = []          # keep every returned object alive: id() is only unique among live objects
        impl = []
        toks = []
        for i, op in enumerate(ops):
            try:
                if op[0] == '1':
                    res = [C.compile_vform(recipes[op[1]][0](), on_demand=op[2])]
                    forms = [(op[1], op[2])]
                    toks.append('1 %s %d' % (L.ser_form(recipes[op[1]][0]()), 1 if op[2] else 0))
                else:
                    res = list(C.compile_vforms([recipes[nm][0]() for nm in op[1]]))
                    forms = [(nm, False) for nm in op[1]]
                    toks.append('n %s' % plist(op[1], lambda nm: L.ser_form(recipes[nm][0]())))
                row = []
                keep.extend(res)
                for j, (cls, (nm, od)) in enumerate(zip(res, forms)):
                    lab = pre_label.get(id(cls)) or labels.setdefault(id(cls), '%d.%d' % (i, j))
                    row.append(lab)
                    v = judge(cls, nm, od, 'history %d request %d position %d' % (h, i, j))
                    if v is not None:
                        v['history'] = [list(o) for o in ops]
                        out['violations'].append(('history:wrong-class', v))
                if len(res) != len(forms):
                    row.append('err-length')
                impl.append(row)
                cnt('hist-requests'); cnt('hist-classes', len(res)); cnt('hist:' + ('compile_vform' if op[0] == '1' else 'compile_vforms'))
            except AssertionError:
                impl.append(['err-assertion'])
            except Exception as ex:
                impl.append(['err-' + type(ex).__name__])
        out['hist'].append({'ops': [list(o) for o in ops], 'req': plist(toks), 'impl': plist(impl, lambda r: plist(r))})
    out['preseed'] = plist(pre_order, lambda nm: L.ser_form(recipes[nm][0]()))

    # ---- (b) object histories
    for h in range(spec['nobj']):
        cache.clear(); cache.update(initial)
        dim = 2
        base = ['mass', 'Y', 'mass3'][int(rng.integers(0, 3))]
        if base == 'mass3':
            dim = 3

        def start():
            vf = V.VForm(dim); u, v = vf.basisfuns()
            if base == 'Y':
                f = vf.input('f'); vf.add(f * u * v * V.dx)
            else:
                vf.add(u * v * V.dx)
            return vf, u, v
        vf, u, v = start()
        accepted = []          # construction steps replayed on the twin
        steps, impl, toks = [], [], []
        hashed = False
        last_ser = L.ser_form(vf)
        nsteps = int(rng.integers(3, 8))
        kinds = ['hash', 'compile', 'add', 'input', 'parameter', 'let', 'compile', 'add']
        seq = [kinds[int(i)] for i in rng.integers(0, len(kinds), size=nsteps)] + ['compile']
        if h % 3 == 0:
            seq = ['hash', ['add', 'input', 'parameter'][h // 3 % 3], 'compile']      # the minimal scenarios, every run
        finalized = False
        post_hash = []
        for si, kind in enumerate(seq):
            try:
                if kind == 'hash':
                    if not finalized:
                        last_ser = L.ser_form(vf)
                    toks.append('H ' + last_ser)
                    vf.hash(); hashed = True
                    impl.append('ok')
                elif kind == 'compile':
                    if not finalized:
                        last_ser = L.ser_form(vf)
                    toks.append('C %s 0' % last_ser)
                    cls = C.compile_vform(vf)
                    hashed = True
                    if pre_label.get(id(cls)) is None:
                        finalized = True           # a cache miss ran generate() -> finalize()
                    impl.append(pre_label.get(id(cls)) or 'new')

                    def twin(accepted=list(accepted)):
                        t, tu, tv = start()
                        for fn in accepted:
                            fn(t, tu, tv)
                        return t
                    try:
                        v_ = judge(cls, 'object', False, 'object history %d step %d' % (h, si), thunk=twin)
                    except Exception as ex:
                        # the replayed twin cannot be generated (e.g. an unused let-variable makes a fresh hash() raise KeyError)
                        v_ = None
                        cnt('obj-oracle-skip:' + type(ex).__name__)
                    exp_cache.pop(('object', False), None); exp_cache.pop(('twin', False), None)
                    if v_ is not None:
                        v_['steps'] = seq[:si + 1]; v_['base'] = base
                        v_['accepted_after_hash'] = list(post_hash)
                        key = ('object-history:add-after-hash' if 'add' in post_hash else
                               'object-history:declaration-after-hash' if post_hash else 'object-history:wrong-class')
                        out['violations'].append((key, v_))
                elif kind == 'add':
                    toks.append('A')
                    fn = lambda t, tu, tv: t.add(V.inner(V.grad(tu), V.grad(tv)) * V.dx)
                    fn(vf, u, v)
                    accepted.append(fn)
                    if hashed:
                        post_hash.append('add')
                    impl.append('ok')
                else:
                    toks.append('D %d' % (1 if (kind == 'let' and hashed) else 0))
                    tag = 'n%d' % si
                    if kind == 'input':
                        fn = lambda t, tu, tv, tag=tag: t.input('g' + tag)
                    elif kind == 'parameter':
                        fn = lambda t, tu, tv, tag=tag: t.parameter('c' + tag)
                    else:
                        if not hashed:
                            # an unused let-variable makes hash() raise KeyError (separate observation): use it
                            fn = lambda t, tu, tv, tag=tag: t.add(t.let('B' + tag, t.Geo[0] * 2.0) * tu * tv * V.dx)
                        else:
                            fn = lambda t, tu, tv, tag=tag: t.let('B' + tag, t.Geo[0] * 2.0)
                    fn(vf, u, v)
                    accepted.append(fn)
                    if hashed:
                        post_hash.append(kind)
                    impl.append('ok')
            except AssertionError:
                impl.append('err-assertion')
            except Exception as ex:
                impl.append('err-' + type(ex).__name__)
            cnt('obj-steps')
        out['obj'].append({'steps': seq, 'req': plist(toks), 'impl': plist(impl)})
    print('@@' + json.dumps(out))



# ----------------------------------------------------------------------------- parent
def check_histories(ctx, ktok, ftok, objsem=None):
    objsem = objsem or {}
    nh, no = (60, 45) if ctx.tier == 'quick' else (600, 300)
    spec = {'seed': int(ctx.rng.integers(0, 2 ** 31)), 'nhist': nh, 'nobj': no}
    code = "import sys; sys.path.insert(0, %r); from harness import c13_history as M; M.worker()" % VERIF
    env = dict(os.environ, XDG_CACHE_HOME=ctx.xdg_cache())
    p = subprocess.run([PY, '-B', '-c', code], input=json.dumps(spec), env=env, stdout=subprocess.PIPE, stderr=subprocess.PIPE, text=True, timeout=1500)
    res = None
    for line in p.stdout.split('\n'):
        if line.startswith('@@'):
            res = json.loads(line[2:])
    if res is None:
        ctx.obligation('request-history worker ran', False, p.stderr[-600:])
        return
    for k, v in res['counts'].items():
        ctx.count(k, v)
    for (name, ok, detail) in res['obligations']:
        ctx.obligation(name, ok, detail)
        if not ok:
            ctx.violation('preseed-pairing', 'the pre-seeded cache maps a predefined form to a class other than the one the generator script pairs it with',
                          {'forms': detail}, True)
    seen = {}
    for (key, v) in res['violations']:
        seen[key] = seen.get(key, 0) + 1
        if seen[key] <= 2:
            ctx.violation(key, v.get('what', key), v, True)
    nbad = sum(1 for (key, _) in res['violations'] if key not in ctx.known_keys())
    ctx.obligation('request histories (model-free): every class returned by %d mixed compile_vform/compile_vforms requests and %d object-history '
                   'compiles is the one generated from its own form' % (ctx.counters.get('hist-requests', 0), len(res['obj'])), nbad == 0,
                   '%d wrong classes' % len(res['violations']))
    lines = ['hist %s %s %s %s' % (ktok, ftok, res['preseed'], h['req']) for h in res['hist']]
    sem = '%d %d' % (1 if objsem.get('recompute') else 0, 1 if objsem.get('refuse_final') else 0)
    lines += ['obj %s %s %s %s %s' % (ktok, ftok, sem, res['preseed'], o['req']) for o in res['obj']]
    got = ctx.model('drv_c13', lines)
    ndis = 0
    for h, g in zip(res['hist'], got[:len(res['hist'])]):
        ctx.case(('hist', h['req'][:200], len(h['req'])), nontrivial=True)
        if g != h['impl']:
            ndis += 1
            if ndis <= 3:
                ctx.violation('hist-corr', 'the classes returned along a request history differ from the model of the cache (compile_vform / compile_vforms as coded)',
                              {'ops': h['ops'], 'implementation': h['impl'], 'model': g}, False)
    for o, g in zip(res['obj'], got[len(res['hist']):]):
        ctx.case(('obj', tuple(o['steps'])), nontrivial=True)
        if g != o['impl']:
            ndis += 1
            if ndis <= 3:
                ctx.violation('obj-corr', 'answers along an object history (hash/compile/add/declare on one VForm) differ from the model of the memoised hash',
                              {'steps': o['steps'], 'implementation': o['impl'], 'model': g}, False)
    ctx.obligation('correspondence stream history: %d histories, model == implementation' % len(lines), ndis == 0, '%d disagreements' % ndis)
