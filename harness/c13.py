"""
C13 — form-compilation caching never substitutes a different assembler (DESIGN.md §6/C13).

ties   T-key  translator/c13_keys.py -> lean/Pyiga/Gen/HashKeys.lean: which attributes enter Expr.hash_key,
              AsmVar/BasisFun/InputField/Parameter/VForm.hash and the cache key, what code generation reads;
              KeyTableComplete / FKeyTableComplete re-decided on every run; Props/C13.cache_sound_current
       K hash mutation-neighbourhood pairs (forms differing in exactly one token) and all pairs of a random corpus:
              Python's `vf.hash()` equality and `generate()` text equality vs the model's cache-key equality
              (driver drv_c13 `keyeq` / `compile`)
       fresh  shipped assemblers.pyx / genericasm.pxi vs regeneration under PYTHONHASHSEED 0,1,2 (harness/c13_fresh.py,
              verified checker permEquiv)
search (model-free): a pair with equal hash() and different generate() text IS the failing input.
"""
import itertools
import os
import sys
import traceback

import numpy as np

from . import c06_lib as L
from .common import plist, VERIF

THEOREMS = ['Pyiga.Props.C13.' + n for n in [
    'equal_key_equal_source', 'cache_sound', 'history_sound', 'cache_sound_current', 'sep',
    'sep_operator', 'sep_funcname', 'sep_constant', 'sep_shape', 'sep_derivative', 'sep_derivative_input', 'sep_measure',
    'sep_boundary', 'sep_geo_dim', 'sep_arity', 'sep_components', 'sep_space', 'sep_updatable', 'sep_on_demand',
    'slp_perm_sound', 'modname_deterministic']] + [
    'Pyiga.Gen.HashKeys.keyTable_complete', 'Pyiga.Gen.HashKeys.fkeyTable_complete', 'Pyiga.Gen.HashKeys.base_hash_ok',
    'Pyiga.Gen.HashKeys.codegen_reads_known', 'Pyiga.Gen.HashKeys.extraction_consistent', 'Pyiga.Gen.HashKeys.modname_digest_ok']
MODULES = ['Pyiga.Model.VForm', 'Pyiga.Model.CompileHist', 'Pyiga.Proofs.CompileHist', 'Pyiga.Model.SLP', 'Pyiga.Proofs.VFormKey', 'Pyiga.Proofs.SLP', 'Pyiga.Props.C13', 'Pyiga.Gen.HashKeys']

CONSTS = [1.0, 2.0, -1.0, -2.0, 0.5, 0.0, -0.0, 3.0]
FUNCS = [None, 'abs', 'sqrt', 'exp', 'log', 'sin', 'cos', 'tan']
DOMAIN = {
    'dim': [2, 3, 1], 'kind': ['vol', 'bnd', 'surf'], 'arity': [2, 1], 'st': [False, True], 'nc': [None, 2, 3], 'space': [0, 1],
    'fshape': [(), (2,), (2, 2), (3,)], 'fphys': [False, True], 'fupd': [False, True], 'cshape': [(), (2,), (2, 2)],
    'op': ['*', '+', '-', '/'], 'fn': FUNCS, 'const': CONSTS, 'cpos': ['oper', 'arg'], 'dk': [None, 0, 1], 'dpar': [True, False],
    'dtimes': [1, 2], 'meas': ['dx', 'gw', 'ds'], 'sym': [False, True], 'od': [False, True], 'vdk': [None, 0], 'usec': [False, True], 'fdk': [None, 0],
}


def mk(s):
    """the form family of the mutation neighbourhood; one token of `s` per attribute the property lists"""
    from pyiga import vform as V
    dim = s['dim']
    vf = V.VForm(dim, geo_dim=dim + (1 if s['kind'] == 'surf' else 0), boundary=(s['kind'] == 'bnd'), arity=s['arity'], spacetime=s['st'])
    comps = (s['nc'], s['nc']) if s['nc'] else (None, None)
    bfs = vf.basisfuns(components=comps, spaces=(0, s['space']))
    bfs = (bfs,) if s['arity'] == 1 else tuple(bfs)
    f = vf.input('f', shape=s['fshape'], physical=s['fphys'], updatable=s['fupd'])
    fs = f if f.is_scalar() else (f[0] if f.is_vector() else f[0, 0])
    if s['fdk'] is not None:
        fs = V.Dx(fs, s['fdk'], parametric=(s['dpar'] and not s['fphys']))
    cst = V.as_expr(s['const'])
    fnc = (lambda x: x) if s['fn'] is None else (lambda x: V.BuiltinFuncExpr(s['fn'], x))
    if s['cpos'] == 'arg':
        coef = V.OperExpr(s['op'], fnc(cst), fs)
    else:
        coef = fnc(V.OperExpr(s['op'], fs, cst))
    if s['usec']:
        c = vf.parameter('c', shape=s['cshape'])
        coef = coef + (c if c.is_scalar() else (c[0] if c.is_vector() else c[0, 0]))
    if s['sym']:
        pass

    def sc(b):
        return b if b.is_scalar() else b[0]
    ub = sc(bfs[0])
    if s['dk'] is not None:
        ub = V.Dx(ub, s['dk'], s['dtimes'], parametric=s['dpar'])
    term = coef * ub
    if s['arity'] == 2:
        vb = sc(bfs[1])
        if s['vdk'] is not None:
            vb = V.Dx(vb, s['vdk'], parametric=s['dpar'])
        term = term * vb
    if s['meas'] == 'dx':
        term = term * V.dx
    elif s['meas'] == 'ds':
        term = term * V.ds
    else:
        B = vf.let('B', vf.GaussWeight * V.outer(vf.Geo, vf.Geo), symmetric=s['sym'])
        term = term * B[0, dim - 1] if not s['sym'] else term * B[dim - 1, 0]
    vf.add(term)
    return vf


def spec_key(s):
    return tuple(sorted((k, repr(v)) for k, v in s.items()))


def eval_spec(s):
    """-> dict(hash, src | error, ser) for one spec; hash() is taken before generate() finalizes the form"""
    out = {'hash': None, 'src': None, 'ser': None, 'err': None}
    try:
        from pyiga import compile as C
        vf = mk(s)
        out['ser'] = L.ser_form(vf)
        out['hash'] = vf.hash()
        out['src'] = C.generate(vf, on_demand=s['od'])
    except AssertionError:
        out['err'] = 'AssertionError'
    except Exception as ex:
        out['err'] = type(ex).__name__
    return out


def random_spec(rng):
    s = {k: v[int(rng.integers(0, len(v)))] if rng.integers(0, 3) else v[0] for k, v in DOMAIN.items()}
    # keep the base form valid (neighbours may still be invalid; those pairs are skipped and counted)
    if s['dim'] == 1:
        s['dk'] = 0 if s['dk'] is not None else None
        if s['kind'] == 'bnd':
            s['kind'] = 'vol'
    if s['dim'] == 3 and s['kind'] == 'surf':
        s['kind'] = 'vol'
    if s['kind'] == 'vol' and s['meas'] == 'ds':
        s['meas'] = 'dx'
    if s['kind'] != 'vol' and s['meas'] == 'dx':
        s['meas'] = 'ds'
    if s['kind'] == 'surf':
        s['dpar'] = True; s['fphys'] = False
    if s['kind'] != 'vol' or s['st']:
        s['od'] = False if s['kind'] == 'bnd' else s['od']
    if s['st']:
        s['kind'] = 'vol'; s['meas'] = 'dx' if s['meas'] == 'ds' else s['meas']; s['dtimes'] = 1
        if s['dim'] == 1:
            s['st'] = False
    if s['dtimes'] == 2 and s['fphys']:
        pass
    if s['const'] in (0.0, -0.0) and s['op'] == '/' and s['cpos'] == 'oper':
        s['op'] = '+'
    return s


def neighbours(s):
    for k, vals in DOMAIN.items():
        for v in vals:
            if repr(v) != repr(s[k]):
                t = dict(s); t[k] = v
                yield k, t


def classify(sa, sb):
    d = [k for k in sa if repr(sa[k]) != repr(sb[k])]
    if d == ['const']:
        pr = {repr(sa['const']), repr(sb['const'])}
        if pr == {'-1.0', '-2.0'}:
            return 'hash:const-minus1-minus2'
        if pr == {'0.0', '-0.0'}:
            return 'hash:const-signed-zero'
    return 'hash-equal-source-different:' + '+'.join(d)


_TMP = __import__('re').compile(r'_tmp\d+')


def norm_src(src):
    return sorted(_TMP.sub('_tmp', l) for l in src.split('\n'))


def _eval_many(specs):
    return [eval_spec(s) for s in specs]


def search_pairs(ctx, n=None, report_key=None):
    """mutation-neighbourhood pairs; records violations; returns (requests, expected, meta) for the model stream"""
    rng = ctx.rng
    nbase = n or (220 if ctx.tier == 'quick' else 900)
    bases = []
    for _ in range(nbase):
        bases.append(random_spec(rng))
    todo = {}
    pairs = []
    for b in bases:
        kb = spec_key(b)
        todo[kb] = b
        nb = list(neighbours(b))
        # all single-token neighbours of the tokens the property names, a sample of the rest
        for k, t in nb:
            kt = spec_key(t)
            todo[kt] = t
            pairs.append((kb, kt, k))
    keys = list(todo)
    import multiprocessing as mp
    chunks = [keys[i::24] for i in range(24)]
    with mp.get_context('fork').Pool(min(12, os.cpu_count() or 4)) as pool:
        res = pool.map(_eval_many, [[todo[k] for k in ch] for ch in chunks])
    val = {}
    for ch, rs in zip(chunks, res):
        for k, r in zip(ch, rs):
            val[k] = r
    ctx._c13_sources = set(v['src'] for v in val.values() if v['src'])
    req, exp, meta = [], [], []
    nviol = 0
    for (ka, kb, tok) in pairs:
        a, b = val[ka], val[kb]
        sa, sb = todo[ka], todo[kb]
        if a['err'] or b['err']:
            ctx.count('pairs-skipped(one form invalid:%s)' % (a['err'] or b['err']))
            continue
        ctx.count('pairs'); ctx.count('pair-token=' + tok)
        heq = (a['hash'] == b['hash']) and (sa['od'] == sb['od'])
        seq = a['src'] == b['src']
        if heq and not seq and (a['ser'] == b['ser'] or norm_src(a['src']) == norm_src(b['src'])):
            # the same form built twice (the differing token is unused), or texts that differ only in the numbering /
            # order of CSE temporaries (extract_common_expressions iterates a set of objects hashed by address)
            ctx.count('pairs-same-form-text-differs-only-in-temporaries')
            seq = True
        ctx.case((ka, kb), nontrivial=True)
        if seq:
            ctx.count('pairs-with-identical-source')
        if heq and not seq:
            nviol += 1
            key = classify(sa, sb)
            la, lb = a['src'].split('\n'), b['src'].split('\n')
            diff = [(i, x, y) for i, (x, y) in enumerate(zip(la, lb)) if x != y][:3]
            ctx.violation(report_key or key, 'two forms with equal cache key (vf.hash(), on_demand) generate different source: compile_vform returns '
                          'the first assembler for the second form (differing token: %s)' % tok,
                          {'spec_a': {k: repr(v) for k, v in sa.items()}, 'spec_b': {k: repr(v) for k, v in sb.items()},
                           'replay': 'harness.c13.mk(spec) ; vf.hash() ; compile.generate(vf, on_demand=spec["od"])',
                           'hash': a['hash'], 'first_differing_lines': diff}, True)
        if classify(sa, sb) == 'hash:const-signed-zero':
            ctx.count('pairs-signed-zero(not sent to the model: it identifies 0.0 and -0.0)')
        elif len(a['ser']) + len(b['ser']) < 60000:
            req.append((a['ser'], sa['od'], b['ser'], sb['od']))
            exp.append('1' if heq else '0')
            meta.append(('keyeq', sa, sb, tok, seq))
    ctx.obligation('pair search: no two of %d single-token-neighbour pairs have equal hash() and different generate() text'
                   % ctx.counters.get('pairs', 0), nviol == 0 or all(v['key'] in ctx.known_keys() for v in ctx.violations if v['key'].startswith('hash')),
                   '%d pairs hash-equal and source-different' % nviol)
    return req, exp, meta


def corpus_collisions(ctx, nforms):
    """all pairs of a random corpus, by grouping on hash()"""
    from pyiga import compile as C
    seeds = [int(s) for s in ctx.rng.integers(0, 2 ** 31, size=nforms)]
    groups = {}
    n = 0
    for sd in seeds:
        vf, d = L.build_form(sd, small=True)
        if vf is None:
            continue
        try:
            h = vf.hash()
            ser = L.ser_form(vf)
        except Exception:
            ctx.count('corpus-hash-raised(unused let variable)')
            continue
        n += 1
        groups.setdefault(h, []).append((sd, ser))
    ctx.count('corpus-forms', n)
    ctx.extra['corpus_pairs_checked_by_grouping'] = n * (n - 1) // 2
    bad = 0
    for h, g in groups.items():
        sers = set(s for _, s in g)
        if len(sers) > 1:
            # equal hash, different forms: compare generated source
            srcs = {}
            for sd, ser in g:
                vf, _ = L.build_form(sd, small=True)
                try:
                    srcs[sd] = C.generate(vf)
                except Exception as ex:
                    srcs[sd] = 'err-' + type(ex).__name__
            if len(set(srcs.values())) > 1:
                bad += 1
                ctx.violation('corpus-hash-collision', 'two generated forms with equal hash() and different generated source',
                              {'seeds': [sd for sd, _ in g], 'replay': 'harness.c06_lib.build_form(seed, small=True)', 'hash': h}, True)
    ctx.obligation('random corpus: no two of %d forms share hash() with different source' % n, bad == 0, '%d groups' % bad)


def run(ctx):
    ctx.build_repo()
    sys.path.insert(0, VERIF)
    from pyiga import vform as V
    key_table, ftable = {}, []
    keys_ok = False
    objsem = {}
    try:
        from translator import c13_keys
        kt = c13_keys.extract()
        objsem = kt.get('objsem') or {}
        key_table = {c: [a for a in kt['expr_table'][c] if a in kt['probe']['expr'].get(c, [])] for c in kt['expr_table']}
        ftable = [a for a in dict.fromkeys(kt['f_attrs']) if a in kt['probe']['form']]
        c13_keys.write(kt)
        ok, log = ctx.lake_build(['Pyiga.Gen.HashKeys'])
        keys_ok = ok
        ctx.obligation('T-key: KeyTableComplete, FKeyTableComplete, base hash, codegen reads, extraction consistency re-decided on the '
                       'regenerated tables (Gen/HashKeys.lean)', ok, log[-900:] if not ok else '')
        ctx.extra['key_table'] = key_table; ctx.extra['form_key_attrs'] = ftable; ctx.extra['modname_expression'] = kt.get('modname'); ctx.extra['vform_hash_semantics'] = kt.get('objsem')
        ctx.extra['unknown_codegen_reads'] = kt['unknown_reads']; ctx.extra['extraction_problems'] = kt['problems'] + kt['probe']['mismatch']
    except Exception:
        ctx.obligation('T-key translator ran', False, traceback.format_exc()[-600:])
    ok2, log2 = ctx.lake_build(['Pyiga.Props.C13'])
    if not ok2 and keys_ok:
        from .common import InfraError
        raise InfraError('Pyiga.Props.C13 does not build although the regenerated tables do:\n' + log2[-2000:])
    ctx.require_lean(['drv_c13'])
    ctx.audit(['Pyiga.Props.C13'], THEOREMS, MODULES)
    if ctx.tier == 'thorough':
        ctx.leanchecker(MODULES)
    ctx.trusted += ['translator/c13_keys.py (ast of vform.py/compile.py/codegen, probing of live instances)',
                    'harness/c06_lib.py serialiser; harness/c13_fresh.py line classification, read over-approximation, _tmp renaming',
                    'modelled: hash() of a tuple as injective (the key is the tuple) — the pair streams compare against the real hash values',
                    'modelled: generate() as a function of the attributes in the projection (checked: codegen reads nothing else, by ast)']
    ctx.assumptions += ['in-process substitution is decided at the level of cache keys and generated source text; compiling and calling the '
                        'returned assemblers belongs to C01', '64-bit hash collisions other than systematic ones are outside the model']
    ctx.rule = ('pairs: random base forms of a 23-token family (dim, volume/boundary/surface, arity, space-time, component count, space index, input '
                'shape/physical/updatable, parameter shape, operator, function name, constant, constant position, derivative index/order/flavour, '
                'measure, symmetric variable, on-demand) x all single-token neighbours; plus all pairs of a random corpus by hash grouping; '
                'histories of 2-6 requests against the model cache; shipped files vs regeneration under 3 hash seeds')

    req, exp, meta = search_pairs(ctx)
    corpus_collisions(ctx, 250 if ctx.tier == 'quick' else 1500)

    ktok = plist(sorted(key_table.items()), lambda kv: '%s %s' % (kv[0], plist(kv[1])))
    ftok = plist(ftable)
    lines = ['keyeq %s %s %s %d %s %d' % (ktok, ftok, a, 1 if oa else 0, b, 1 if ob else 0) for (a, oa, b, ob) in req]
    # histories: the dict lookup returns the first request with the same key
    hist_exp = []
    rng = ctx.rng
    nh = 150 if ctx.tier == 'quick' else 1500
    for _ in range(nh):
        if not req:
            break
        k = int(rng.integers(2, 7))
        idx = [int(i) for i in rng.integers(0, len(req), size=k)]
        rs = []
        for i in idx:
            a, oa, b, ob = req[i]
            rs.append((a, oa)); rs.append((b, ob)) if rng.integers(0, 2) else rs.append((a, oa))
        rs = rs[:6]
        # python side: keys are (hash, on_demand) -- recompute hashes from the recorded verdicts is not possible, so rebuild
        lines.append('compile %s %s %s' % (ktok, ftok, plist(rs, lambda r: '%s %d' % (r[0], 1 if r[1] else 0))))
        hist_exp.append(rs)
    got = ctx.model('drv_c13', lines)
    ndis = 0
    for (r, e, g, m) in zip(req, exp, got[:len(req)], meta):
        ctx.count('stream:keyeq')
        if e != g:
            _, sa, sb, tok, seq = m
            key = classify(sa, sb)
            if e == '1' and g == '0' and not seq:
                continue        # already reported by the pair search as hash-equal and source-different
            ndis += 1
            if ndis <= 10:
                ctx.violation('hash-corr:' + tok, 'model cache-key equality (%s) differs from vf.hash() equality (%s) on a pair differing in `%s`' % (g, e, tok),
                              {'spec_a': {k: repr(v) for k, v in sa.items()}, 'spec_b': {k: repr(v) for k, v in sb.items()}, 'source_equal': seq}, False)
    # histories: model answer must be consistent with pairwise model key equality == python (checked above); here: self-consistency
    for rs, g in zip(hist_exp, got[len(req):]):
        ctx.count('stream:compile-history')
        toks = g.split()
        if g == 'bad-request' or int(toks[0]) != len(rs):
            ndis += 1
            ctx.violation('hash-corr:history', 'model cache history malformed', {'answer': g[:200]}, False)
            continue
        first = {}
        want = []
        for i, r in enumerate(rs):
            want.append(first.setdefault(r, i) if False else None)
        # python verdict: requests with identical serialisation and flag must map to the same index, different hash -> different
        ans = [int(x) for x in toks[1:]]
        for i, r in enumerate(rs):
            j = ans[i]
            if not (0 <= j <= i) or (j < i and ans[j] != j):
                ndis += 1
                ctx.violation('hash-corr:history', 'model cache history inconsistent', {'answer': g[:200]}, False)
                break
            same = [q for q in range(i + 1) if rs[q] == r][0]
            if j > same:
                ndis += 1
                ctx.violation('hash-corr:history', 'identical request not served from the cache in the model', {'answer': g[:200]}, False)
                break
    ctx.obligation('correspondence stream hash: %d requests, model key equality == vf.hash() equality' % len(lines), ndis == 0, '%d disagreements' % ndis)
    ctx.extra['requests'] = len(lines)
    if len(ctx.samples) < 3 and meta:
        ctx.sample({'pair_token': meta[0][3], 'spec': {k: repr(v) for k, v in meta[0][1].items()}})

    # request histories (compile_vform / compile_vforms, object histories) with the build stubbed
    try:
        from . import c13_history
        c13_history.check_histories(ctx, ktok, ftok, objsem)
    except Exception:
        ctx.obligation('request-history check ran', False, traceback.format_exc()[-600:])

    # on-disk module names: function of the source, injective on the corpus + adversarial sources
    try:
        from . import c13_modname
        c13_modname.check_modnames(ctx, getattr(ctx, '_c13_sources', set()))
    except Exception:
        ctx.obligation('module-name check ran', False, traceback.format_exc()[-600:])

    # freshness of the shipped files
    try:
        from . import c13_fresh
        c13_fresh.check_freshness(ctx)
    except Exception:
        ctx.obligation('freshness check ran', False, traceback.format_exc()[-600:])

    if not keys_ok and not any(v['found_input'] for v in ctx.violations):
        ctx.violation('key-table-incomplete', 'the regenerated key tables are incomplete and the pair search found no colliding pair',
                      {'key_table': key_table, 'form_key_attrs': ftable}, False)
