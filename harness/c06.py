"""
C06 — form rewriting and differentiation passes preserve the integrand's value (DESIGN.md §6/C06).

ties   T-alg  translator/c06_algebra.py -> lean/Pyiga/Gen/Algebra.lean (library's own symbolic det/inv/
              minor/cross/MatVec/MatMat/outer/tr/T and _dx_impl rules re-proved by ring/linear_combination)
       T-key  translator/c13_keys.py -> lean/Pyiga/Gen/HashKeys.lean (KeyTableComplete re-decided)
       T-ir   verified checkers (schedCheck/defBeforeUse, inlineVars) run on the dumped programs
       K pass Lean model (Pyiga.Model.VForm, driver drv_c06) vs pyiga.vform on the same expression trees:
              fold_constants, _to_literal_vec_mat, indexing/at/T/ravel/tr/inner/OperExpr broadcasting,
              Dx/_dx_impl, substitute_vec_components, hash grouping of extract_common_expressions
search (model-free): exact Fraction evaluation of "before" and "after" (c06_lib.World) with a random polynomial
       geometry; dual numbers for Dx; whole finalize() pipeline evaluated before/after on every corpus form.
"""
import copy
import os
import sys
import traceback
from fractions import Fraction as Fr

import numpy as np

from . import c06_lib as L
from .common import plist, frac, VERIF, LEAN

THEOREMS = [
    'Pyiga.Props.C06.at_sound', 'Pyiga.Props.C06.literal_sound', 'Pyiga.Props.C06.literal_tree_sound', 'Pyiga.Props.C06.broadcast_sound', 'Pyiga.Props.C06.inner_tr_sound', 'Pyiga.Props.C06.slices_sound', 'Pyiga.Props.C06.transpose_sound',
    'Pyiga.Props.C06.fold_constants_sound', 'Pyiga.Props.C06.dx_sound',
    'Pyiga.Props.C06.key_sound', 'Pyiga.Props.C06.cse_sound', 'Pyiga.Props.C06.inline_sound',
    'Pyiga.Props.C06.vec_subst_sound',
    'Pyiga.Props.C06.schedule_sound', 'Pyiga.Props.C06.defBeforeUse_sound', 'Pyiga.Props.C06.slp_perm_sound',
    'Pyiga.Props.C06.phys_to_para_partial', 'Pyiga.Props.C06.phys_to_para_first_order', 'Pyiga.Props.C06.phys_to_para_second_order',
    'Pyiga.Props.C06.geo_hess_trf_value', 'Pyiga.Props.C06.phys_to_para_spacetime', 'Pyiga.Props.C06.spacetime_time_derivs',
    'Pyiga.Props.C06.input_derivs_sound', 'Pyiga.Props.C06.sym_index_packing', 'Pyiga.Props.C06.measures_sound',
    'Pyiga.Props.C06.jacinv_right_inverse', 'Pyiga.Props.C06.dx_expansion_sound', 'Pyiga.Props.C06.phys_to_para_sound', 'Pyiga.Props.C06.jacinv_right_inverse_dim3',
    'Pyiga.Props.C06.chain_rule_env_of_defs', 'Pyiga.Props.C06.phys_to_para_sound_spacetime', 'Pyiga.Props.C06.scheduled_phys_to_para', 'Pyiga.Props.C06.chain_rule_first_order', 'Pyiga.Props.C06.chain_rule_second_order',
]
MODULES = ['Pyiga.Model.VForm', 'Pyiga.Model.SLP', 'Pyiga.Proofs.VForm', 'Pyiga.Proofs.VFormAlg', 'Pyiga.Proofs.VFormKey', 'Pyiga.Proofs.VFormPhys', 'Pyiga.Proofs.VFormPhys2', 'Pyiga.Proofs.VFormPhys3', 'Pyiga.Proofs.VFormPhys4', 'Pyiga.Proofs.VFormPhys5', 'Pyiga.Proofs.VFormPhys6', 'Pyiga.Model.VFormPhys', 'Pyiga.Proofs.SLP', 'Pyiga.Props.C06']


# ----------------------------------------------------------------------------- helpers
def guarded(f):
    """implementation call -> answer string or error kind"""
    try:
        return f()
    except AssertionError:
        return 'err-assertion'
    except Exception as ex:
        return 'err-' + type(ex).__name__


def key_table_tokens(table):
    """table: {ClassName: [attr,…]} -> wire"""
    return plist(sorted(table.items()), lambda kv: '%s %s' % (kv[0], plist(kv[1])))


def py_group_ids(roots):
    from pyiga import vform as V
    memo = {}

    def h(e):
        k = id(e)
        if k not in memo:
            memo[k] = (e, e.hash(tuple(h(c) for c in e.children)))
        return memo[k][1]
    nodes = []
    for r in roots:
        L.tree_nodes_postorder(r, nodes)
    ids, first = [], {}
    for n in nodes:
        hv = h(n)
        if hv not in first:
            first[hv] = len(first)
        ids.append(first[hv])
    return ids, len(nodes)


def staged_finalize(vf, snap):
    """the sequence of VForm.finalize() (vform.py:705-731), one transform at a time; snap(stage) is called after each"""
    from pyiga import vform as V
    vf.hash()
    snap('s0')
    vf.transform(lambda e: vf.W, type=V.VolumeMeasureExpr)
    vf.transform(lambda e: vf.SW, type=V.SurfaceMeasureExpr)
    snap('s1')
    vf.transform(vf.replace_physical_derivs, type=V.PartialDerivExpr)
    vf.transform(vf.replace_physical_derivs, type=V.VarRefExpr)
    snap('s3')
    vf.transform(vf.insert_input_field_derivs, type=V.VarRefExpr)
    vf.transform(vf.para_derivs_to_vars, type=V.PartialDerivExpr, deep=False)
    snap('s5')
    vf.transform(V._to_literal_vec_mat)
    snap('s6')
    vf.transform(lambda e: e.fold_constants())
    snap('s7')
    vf.extract_common_expressions()
    vf.transform(vf.replace_trivial_vars, type=V.VarRefExpr)
    snap('s9')
    vf.dependency_analysis(do_precompute=True)


def alias_defs(vf):
    """variables (name, serialised expr) having a bare VarRef as (an entry of) their definition, and CSE temporaries"""
    from pyiga import vform as V
    out = {}
    for v in vf.vars.values():
        if v.expr is None:
            continue
        ex = v.expr
        ents = [ex] if ex.is_scalar() else list(ex.children) if isinstance(ex, (V.LiteralVectorExpr, V.LiteralMatrixExpr)) else []
        if v.name.startswith('_tmp') or any(isinstance(c, V.VarRefExpr) for c in ents):
            out[v.name] = L.ser(ex)
    return out


def sched_request(vf):
    from pyiga import vform as V
    lin = [v for v in vf.linear_deps if not isinstance(v, V.BasisFun)]
    sources = [v.name for v in lin if v.expr is None]
    params = [v.name for v in lin if v.expr is None and isinstance(v.src, V.Parameter)]
    bfuns = ['bf:' + b.name for b in vf.basis_funs]

    def nm(d):
        return ('bf:' + d.name) if isinstance(d, V.BasisFun) else d.name
    prog = [(v.name, sorted(nm(d) for d in v.expr.depends())) for v in lin if v.expr is not None]
    reads = sorted(set(nm(d) for e in vf.exprs for d in e.depends()))
    return 'sched %s %s %s %s %s %s %s %s %s' % (
        plist(sources), plist(params), plist(bfuns),
        plist(prog, lambda p: '%s %s' % (p[0], plist(p[1]))),
        plist(v.name for v in vf.precomp), plist(v.name for v in vf.kernel_deps),
        plist(v.name for v in vf.kernel_deps if v.is_global), plist(reads),
        plist(v.name for v in lin if v.scope == V.Scope.BASISFUN))


import re
_BIGDEN = re.compile(r'/\d{12,}')


def inexact(s):
    """the answer contains a constant that is not a small dyadic rational: a float division inside
    fold_constants rounded (the model folds exactly) -> not comparable exactly"""
    return isinstance(s, str) and _BIGDEN.search(s) is not None


def const_values(vf):
    from pyiga import vform as V
    return set(e.value for e in vf.all_exprs(type=V.ConstExpr))


def has_inexact_const(vf, before=()):
    """a constant that is not a small dyadic rational AND was not a literal of the form as written: it was produced by
    float arithmetic inside fold_constants (which may round; the oracle and the model compute exactly)"""
    from pyiga import vform as V
    for e in vf.all_exprs(type=V.ConstExpr):
        if e.value not in before:
            return True
    return False


_CTOK = re.compile(r'C (-?\d+/\d{12,})')


def new_inexact(request, answer):
    """the answer contains a non-dyadic constant that does not occur in the request (see has_inexact_const)"""
    if not isinstance(answer, str):
        return False
    new = set(_CTOK.findall(answer))
    return bool(new) and not new <= set(_CTOK.findall(request))


def const_arith(e):
    """does fold_constants (with the exact rules) evaluate an operation on two constants somewhere in this tree?
    Only then can the implementation (double arithmetic) and the exact oracle/model differ by rounding.
    Returns (flag, value-if-the-tree-folds-to-a-constant-else-None)."""
    from pyiga import vform as V
    if isinstance(e, V.ConstExpr):
        return False, Fr(e.value)
    if isinstance(e, V.ScalarOperExpr):
        fa, a = const_arith(e.x)
        fb, b = const_arith(e.y)
        flag = fa or fb
        if a is not None and b is not None:
            try:
                v = {'+': a + b, '-': a - b, '*': a * b}[e.oper] if e.oper != '/' else a / b
            except ZeroDivisionError:
                v = None
            return True, v
        if e.oper == '+':
            return flag, (b if a == 0 else a if b == 0 else None)
        if e.oper == '-':
            return flag, (a if b == 0 else None)
        if e.oper == '*':
            return flag, (Fr(0) if (a == 0 or b == 0) else b if a == 1 else a if b == 1 else None)
        if e.oper == '/':
            return flag, (Fr(0) if a == 0 else a if b == 1 else None)
        return flag, None
    flag = False
    for c in e.children:
        flag = const_arith(c)[0] or flag
    return flag, None


def wire_const_arith(toks, i=0):
    """const_arith on a serialised tree; returns (flag, value|None, next index)"""
    t = toks[i]
    if t == 'C':
        return False, Fr(toks[i + 1]), i + 2
    if t == 'S':
        op = toks[i + 1]
        fa, a, j = wire_const_arith(toks, i + 2)
        fb, b, j = wire_const_arith(toks, j)
        flag = fa or fb
        if a is not None and b is not None:
            try:
                v = {'+': a + b, '-': a - b, '*': a * b}[op] if op != '/' else a / b
            except ZeroDivisionError:
                v = None
            return True, v, j
        if op == '+':
            return flag, (b if a == 0 else a if b == 0 else None), j
        if op == '-':
            return flag, (a if b == 0 else None), j
        if op == '*':
            return flag, (Fr(0) if (a == 0 or b == 0) else b if a == 1 else a if b == 1 else None), j
        return flag, (Fr(0) if a == 0 else a if b == 1 else None), j
    def kids(n, j):
        flag = False
        for _ in range(n):
            f, _, j = wire_const_arith(toks, j)
            flag = flag or f
        return flag, None, j
    if t == 'LV':
        return kids(int(toks[i + 1]), i + 2)
    if t == 'LM':
        return kids(int(toks[i + 1]) * int(toks[i + 2]), i + 3)
    if t == 'V':
        j = i + 2
        j += 1 + int(toks[j]); j += 1 + int(toks[j])
        return False, None, j + 1
    if t == 'N':
        return kids(1, i + 1)
    if t == 'F':
        return kids(1, i + 2)
    if t == 'T':
        return kids(2, i + 2)
    if t in ('X', 'O', 'MV', 'MM'):
        return kids(2, i + 1)
    if t == 'P':
        j = i + 5
        j += 1 + int(toks[j])
        return False, None, j + 1
    if t == 'G':
        return False, None, i + 2
    return False, None, i + 1        # DX, DS


def form_const_arith(vf):
    roots = [v.expr for v in L.reachable_vars(vf) if v.expr is not None] + list(vf.exprs)
    return any(const_arith(r)[0] for r in roots)


def tree_consts(e, out=None):
    from pyiga import vform as V
    out = set() if out is None else out
    if isinstance(e, V.ConstExpr):
        out.add(e.value)
    for c in e.children:
        tree_consts(c, out)
    return out


def approx_equal(a, b):
    """equal up to the rounding of constants folded in double arithmetic: purely relative 1e-10 (2^-53 per folded operation,
    amplified by the conditioning of the expression at a random rational point); no absolute floor, so a term that is
    dropped or a form that becomes zero is never accepted"""
    return len(a) == len(b) and all(len(x) == len(y) and all(abs(p - q) <= Fr(1, 10 ** 10) * max(abs(p), abs(q)) for p, q in zip(x, y))
                                    for x, y in zip(a, b))


def same_up_to_rounding(impl, model, request=None):
    """two serialised trees of identical structure whose only differences are constants agreeing to 1e-12 relative:
    the implementation folded constants in double arithmetic, the model exactly"""
    if not (isinstance(impl, str) and isinstance(model, str)):
        return False
    a, b = impl.split(), model.split()
    if len(a) != len(b):
        return False
    scale = max([abs(Fr(t)) for i, t in enumerate(a) if i and a[i - 1] == 'C'] + [Fr(0)]) if request is None else \
        max([abs(Fr(t)) for i, t in enumerate(request.split()) if i and request.split()[i - 1] == 'C'] + [Fr(0)])
    for i, (x, y) in enumerate(zip(a, b)):
        if x != y:
            if i == 0 or a[i - 1] != 'C' or b[i - 1] != 'C':
                return False
            try:
                p, q = Fr(x), Fr(y)
            except Exception:
                return False
            if abs(p - q) > Fr(1, 10 ** 12) * max(abs(p), abs(q), scale):
                return False
    return True


class patched_const_key:
    """context manager: ConstExpr.hash_key made collision-free (the repair of the known -1/-2 collision),
    used only to *attribute* an observed failure to that known defect"""
    def __enter__(self):
        from pyiga import vform as V
        self.old = V.ConstExpr.hash_key
        V.ConstExpr.hash_key = lambda self_: (repr(self_.value),)
    def __exit__(self, *a):
        from pyiga import vform as V
        V.ConstExpr.hash_key = self.old


def oracle_on_seed(seed, small=False):
    """-> None (value preserved) | 'skip' | (kind, detail)"""
    vf, desc = L.build_form(seed, small)
    if vf is None:
        return 'skip'
    try:
        w = L.World(vf, np.random.default_rng(seed + 12345))
        before = [L.flat(w.ev(e)) for e in vf.exprs]
        c0 = const_values(vf)
        vf.finalize()
        after = [L.flat(v) for v in w.run_program(vf)]
    except KeyError as ex:
        return ('use-before-def', str(ex))
    except Exception:
        return 'skip'
    if after == before or approx_equal(after, before):
        return None
    return ('value-changed', None)


# ----------------------------------------------------------------------------- per-form worker
def form_case(args):
    """everything done with one generated form; returns dict with requests, expectations, oracle verdicts"""
    seed, table_tok, small = args
    out = {'seed': seed, 'req': [], 'exp': [], 'meta': [], 'counts': {}, 'oracle': None, 'desc': None, 'inline_pairs': []}

    def cnt(k):
        out['counts'][k] = out['counts'].get(k, 0) + 1

    def add(r, e, m):
        out['req'].append(r); out['exp'].append(e); out['meta'].append(m)
    try:
        from pyiga import vform as V
        vfA, desc = L.build_form(seed, small)
        if vfA is None:
            cnt('generator-invalid:' + desc)
            return out
        out['desc'] = desc
        pending_round = False
        cnt('forms'); cnt('kind=' + desc['kind']); cnt('dim=%d' % desc['dim']); cnt('arity=%d' % desc['arity'])
        if desc['vec']:
            cnt('vector-valued')
        # ---------------- whole-pipeline oracle (model-free): meaning before == program after finalize()
        rng = np.random.default_rng(seed + 12345)
        try:
            w = L.World(vfA, rng)
            before = [L.flat(w.ev(e)) for e in vfA.exprs]
        except (L.Unsupported, ZeroDivisionError) as ex:
            before = None
            cnt('oracle-skip:' + type(ex).__name__)
        src0 = [L.ser(e) for e in vfA.exprs]
        c0 = const_values(vfA)
        try:
            vfA.finalize()
            fin_ok = True
        except ZeroDivisionError as ex:
            fin_ok = False; cnt('finalize:ZeroDivisionError')
            if before is not None:
                # only a constant zero divisor may raise, and then the expression has no value either
                out['oracle'] = ('finalize-raised', 'ZeroDivisionError (%s) although the expression has the value %s at the test point'
                                 % (str(ex)[:120], [[str(x) for x in b] for b in before]), src0)
        except KeyError:
            fin_ok = False; cnt('finalize:KeyError(unused let-variable in hash())')
        except Exception as ex:
            fin_ok = False; cnt('finalize:' + type(ex).__name__)
            out['oracle'] = ('finalize-raised', '%s: %s' % (type(ex).__name__, str(ex)[:200]), src0)
        if fin_ok and before is not None:
            try:
                after = [L.flat(v) for v in w.run_program(vfA)]
                if after != before and approx_equal(after, before):
                    pending_round = True       # accepted only if fold_constants combined two constants (decided below)
                    cnt('oracle-ok')
                elif after != before:
                    with patched_const_key():
                        attributed = oracle_on_seed(seed, small) is None
                    out['oracle'] = ('value-changed:const-hash-collision' if attributed else 'value-changed', {'before': [[str(x) for x in b] for b in before],
                                                      'after': [[str(x) for x in a] for a in after],
                                                      'point': [str(x) for x in w.pt]}, src0)
                else:
                    cnt('oracle-ok')
            except KeyError as ex:
                out['oracle'] = ('use-before-def', 'variable %s read before it is defined in the emitted order' % ex, src0)
            except ZeroDivisionError:
                cnt('oracle-skip:ZeroDivisionError')
            except L.Unsupported as ex:
                out['oracle'] = ('unsupported-after', str(ex), src0)
        if not fin_ok:
            return out
        # ---------------- staged twin for the per-pass correspondence
        vfB, _ = L.build_form(seed, small)
        snaps = {}
        # hash grouping on the initial trees
        roots0 = [v.expr for v in L.reachable_vars(vfB) if v.expr is not None] + list(vfB.exprs)
        ids, nn = py_group_ids(roots0)
        if nn <= 4000:
            add('keys %s %s' % (table_tok, plist(roots0, L.ser)), plist(ids), ('keys', seed))
            cnt('key-nodes', ) ; out['counts']['key-nodes'] = out['counts'].get('key-nodes', 0) + nn - 1
        al = {}

        def snap(s):
            snaps[s] = L.snapshot(vfB)
            if s in ('s7', 's9'):
                al.update(alias_defs(vfB))
            if s == 's6' and pending_round:
                if form_const_arith(vfB):
                    cnt('oracle-ok-up-to-rounding-of-folded-constants')
                else:
                    out['oracle'] = ('value-changed', 'value differs (relative < 1e-10) although fold_constants combines no two constants', src0)
        staged_finalize(vfB, snap)
        if 's1' in snaps and 's3' in snaps:
            # the whole replace_physical_derivs pass (both transform calls) on every tree
            physin = plist(v.name for v in vfB.vars.values() if v.expr is None and isinstance(v.src, V.InputField) and v.src.physical)
            rop = 'rphysST' if vfB.spacetime else 'rphys'
            va, ea = snaps['s1']; vb, eb = snaps['s3']
            da, db = dict(va), dict(vb)
            for name in da:
                if name in db and len(da[name]) < 60000:
                    add('%s %d %s %s' % (rop, vfB.dim, physin, da[name]), db[name], ('rphys', seed, name))
            for i, (x, y) in enumerate(zip(ea, eb)):
                if len(x) < 60000:
                    add('%s %d %s %s' % (rop, vfB.dim, physin, x), y, ('rphys', seed, 'expr%d' % i))
        for (a, b, op) in (('s5', 's6', 'lit'), ('s6', 's7', 'fold')):
            va, ea = snaps[a]; vb, eb = snaps[b]
            da, db = dict(va), dict(vb)
            for name in da:
                if name in db and len(da[name]) < 60000:
                    add('%s %s' % (op, da[name]), db[name], (op, seed, name))
            for i, (x, y) in enumerate(zip(ea, eb)):
                if len(x) < 60000:
                    add('%s %s' % (op, x), y, (op, seed, 'expr%d' % i))
        # CSE + trivial variables: translation validation through the verified inliner
        defs = plist(sorted(al.items()), lambda kv: '%s %s' % kv)
        v7, e7 = snaps['s7']; v9, e9 = snaps['s9']
        d7, d9 = dict(v7), dict(v9)
        pairs = [('expr%d' % i, x, y) for i, (x, y) in enumerate(zip(e7, e9))]
        pairs += [(n, d7[n], d9[n]) for n in d9 if not n.startswith('_tmp') and n in d7]
        for (n, x, y) in pairs:
            if len(x) + len(defs) < 120000:
                add('inline %s %s' % (defs, x), None, ('inline', seed, n, 'before'))
                add('inline %s %s' % (defs, y), None, ('inline', seed, n, 'after'))
        missing = [n for n in d9 if not n.startswith('_tmp') and n not in d7]
        if missing:
            out['oracle'] = out['oracle'] or ('new-variable', 'variables %s appear after CSE without definition before' % missing, src0)
        cnt('tmp-vars', ); out['counts']['tmp-vars'] = out['counts'].get('tmp-vars', 0) + sum(1 for n in d9 if n.startswith('_tmp')) - 1
        # staged == real finalize (up to temporaries)
        vA, eA = L.snapshot(vfA)
        alA = alias_defs(vfA)
        for k_, v_ in al.items():
            if not k_.startswith('_tmp'):
                alA.setdefault(k_, v_)
        defsA = plist(sorted(alA.items()), lambda kv: '%s %s' % kv)
        for i, (x, y) in enumerate(zip(eA, e9)):
            if len(x) + len(defsA) < 120000:
                add('inline %s %s' % (defsA, x), None, ('inline', seed, 'real-vs-staged-expr%d' % i, 'before'))
                add('inline %s %s' % (defs, y), None, ('inline', seed, 'real-vs-staged-expr%d' % i, 'after'))
        # schedule (T-ir) on the real finalize
        add(sched_request(vfA), 'ok', ('sched', seed))
        cnt('sched-vars'); out['counts']['sched-vars'] += len(vfA.linear_deps) - 1
    except Exception:
        out['error'] = traceback.format_exc()[-1500:]
    return out


# ----------------------------------------------------------------------------- synthetic expression streams
class Synth:
    """random expression trees built with the library's own constructors on a bare form"""
    def __init__(self, rng, dim):
        from pyiga import vform as V
        self.V = V
        self.rng = rng
        self.dim = dim
        vf = V.VForm(dim)
        self.vf = vf
        self.u, self.v = vf.basisfuns()
        self.f = vf.input('f')
        self.g = vf.input('g', physical=True)
        self.w = vf.input('w', shape=(dim,))
        self.K = vf.input('K', shape=(dim, dim))
        self.c = vf.parameter('c')
        self.a = vf.parameter('a', shape=(dim,))
        self.M = vf.parameter('M', shape=(dim, dim))
        self.R = vf.parameter('R', shape=(2, 3))
        self.b3 = vf.parameter('b3', shape=(3,))
        self.c3 = vf.input('c3', shape=(3,))
        self.lets = []

    def r(self, n):
        return int(self.rng.integers(0, n))

    def const(self):
        if self.r(5) == 0:
            return L.NEAR_RANDOM[self.r(len(L.NEAR_RANDOM))]
        return [0.0, 1.0, -1.0, 2.0, 0.5, -2.0, 4.0, 0.0, 1.0, -1.0, 3.0, -0.25][self.r(12)]

    def atom(self, nobf=False):
        V = self.V
        c = self.r(11)
        if c == 0: return V.as_expr(self.const())
        if c == 1: return self.f
        if c == 2: return self.c
        if c == 3: return self.w[self.r(self.dim)]
        if c == 4: return self.K[self.r(self.dim), self.r(self.dim)]
        if c == 5: return self.a[self.r(self.dim)]
        if c == 6: return self.M[self.r(self.dim), self.r(self.dim)]
        if c == 7 and not nobf: return self.u
        if c == 8 and not nobf: return self.v
        if c == 9: return V.as_expr(self.const())
        return self.vf.Geo[self.r(self.dim)]

    def scalar(self, d, consts=False, diffable=False):
        V = self.V
        if d <= 0:
            return V.as_expr(self.const()) if (consts and self.r(2)) else self.atom()
        c = self.r(12 if not diffable else 7)
        x = lambda: self.scalar(d - 1, consts, diffable)
        if c <= 1: return x() + x()
        if c == 2: return x() - x()
        if c <= 4: return x() * x()
        if c == 5: return x() / x()
        if c == 6: return self.atom()
        if c == 7: return -x()
        if c == 8: return [abs, V.sqrt, V.exp, V.log, V.sin, V.cos, V.tan][self.r(7)](x())
        if c == 9: return V.inner(self.vector(d - 1), self.vector(d - 1))
        if c == 10: return V.tr(self.matrix(d - 1))
        return x() ** [0, 1, 2, -1][self.r(4)]

    def vector(self, d, n=None):
        V = self.V
        n = n or self.dim
        if n != self.dim:
            return V.as_vector([self.scalar(0) for _ in range(n)])
        c = self.r(9) if d > 0 else self.r(3)
        if c == 0: return self.w
        if c == 1: return self.a
        if c == 2: return V.as_vector([self.scalar(0) for _ in range(n)])
        if c == 3: return V.dot(self.matrix(d - 1), self.vector(d - 1))
        if c == 4: return self.vector(d - 1) + self.vector(d - 1)
        if c == 5: return self.scalar(d - 1) * self.vector(d - 1)
        if c == 6: return self.vector(d - 1) / self.scalar(0)
        if c == 7 and n == 3: return V.cross(self.vector(d - 1), self.vector(d - 1))
        return self.matrix(d - 1)[self.r(n), :] if self.r(2) else self.matrix(d - 1)[:, self.r(n)]

    def matrix(self, d):
        V = self.V
        n = self.dim
        c = self.r(9) if d > 0 else self.r(3)
        if c == 0: return self.K
        if c == 1: return self.M
        if c == 2: return V.as_matrix([[self.scalar(0) for _ in range(n)] for _ in range(n)])
        if c == 3: return V.dot(self.matrix(d - 1), self.matrix(d - 1))
        if c == 4: return V.outer(self.vector(d - 1), self.vector(d - 1))
        if c == 5: return self.matrix(d - 1) - self.matrix(d - 1)
        if c == 6: return self.scalar(0) * self.matrix(d - 1)
        if c == 7: return self.matrix(d - 1).T
        return V.inv(self.matrix(0)) if n <= 2 else self.matrix(d - 1) * self.scalar(0)


def synth_stream(ctx, add, n):
    from pyiga import vform as V
    rng = ctx.rng
    worlds = {}
    # every near-special / special literal in every position fold_constants inspects, on every run
    for c in L.SPECIALS:
        for pos in L.FOLD_POSITIONS:
            S = Synth(rng, 2)
            x = [S.f, S.w[0], S.K[0, 1], S.u, S.c][S.r(5)]
            e = L.fold_position(V, pos, c, x)
            if pos == 'c*u*v':
                e = e * S.u * S.v
            def f(e=e):
                return L.ser(V.transform_expr(copy.deepcopy(e), lambda z: z.fold_constants()))
            add('fold ' + L.ser(e), guarded(f), ('fold', e)); ctx.count('synth:fold-special-literals')
    for it in range(n):
        dim = 1 + int(rng.integers(0, 3))
        S = Synth(rng, dim)
        kind = it % 8
        try:
            if kind == 0:      # fold_constants on constant-rich scalar trees
                e = S.scalar(1 + S.r(4), consts=True)
                s0 = L.ser(e)
                def f(e=e):
                    e2 = V.transform_expr(copy.deepcopy(e), lambda x: x.fold_constants())
                    return L.ser(e2)
                add('fold ' + s0, guarded(f), ('fold', e)); ctx.count('synth:fold')
            elif kind == 1:    # indexing
                t = S.matrix(1 + S.r(2)) if S.r(2) else S.vector(1 + S.r(2))
                i, j = S.r(dim + 1), S.r(dim + 1)
                s0 = L.ser(t)
                if t.is_matrix():
                    add('at %s %d %d' % (s0, i, j), guarded(lambda: L.ser(t[i, j])), ('at', t, i, j))
                    add('row %s %d' % (s0, i % dim), guarded(lambda: L.ser(t[i % dim, :])), ('row', t, i % dim))
                    add('col %s %d' % (s0, j % dim), guarded(lambda: L.ser(t[:, j % dim])), ('col', t, j % dim))
                    add('T ' + s0, guarded(lambda: L.ser(t.T)), ('T', t))
                    add('ravel ' + s0, guarded(lambda: L.ser(t.ravel())), ('ravel', t))
                    add('tr ' + s0, guarded(lambda: L.ser(V.tr(t))), ('tr', t))
                else:
                    add('at %s %d 0' % (s0, i), guarded(lambda: L.ser(t[i])), ('at', t, i, 0))
                ctx.count('synth:index')
            elif kind == 2:    # literal expansion
                t = [S.matrix, S.vector, S.scalar][S.r(3)](1 + S.r(3))
                s0 = L.ser(t)
                def f(t=t):
                    return L.ser(V.transform_expr(copy.deepcopy(t), V._to_literal_vec_mat))
                add('lit ' + s0, guarded(f), ('lit', t)); ctx.count('synth:lit')
            elif kind == 3:    # OperExpr broadcasting / shape errors
                cands = [S.scalar(1), S.vector(1), S.matrix(1), S.vector(0, n=3) if dim != 3 else S.R]
                x, y = cands[S.r(4)], cands[S.r(4)]
                op = '+-*/'[S.r(4)]
                add('oper %s %s %s' % (op, L.ser(x), L.ser(y)), guarded(lambda: L.ser(V.OperExpr(op, x, y))), ('oper', op, x, y))
                if x.shape == y.shape and not x.is_scalar():
                    add('inner %s %s' % (L.ser(x), L.ser(y)), guarded(lambda: L.ser(V.inner(x, y))), ('inner', x, y))
                ctx.count('synth:oper')
            elif kind in (4, 5):    # Dx
                e = S.scalar(1 + S.r(3), diffable=(S.r(4) != 0)) if S.r(4) else S.vector(1 + S.r(2))
                if S.r(3) == 0:
                    name = 'L%d' % it
                    e = S.vf.let(name, e)
                    if not e.is_scalar() and S.r(2):
                        e = e[S.r(len(e))] if e.is_vector() else e
                k = S.r(dim + (1 if S.r(10) == 0 else 0))
                times = [1, 1, 1, 2, 0][S.r(5)]
                par = bool(S.r(2))
                if S.r(3) == 0 and e.is_scalar():
                    # differentiate twice (mixing flags sometimes)
                    e1 = guarded(lambda: V.Dx(e, S.r(dim), 1, parametric=par if S.r(4) else not par))
                    if not isinstance(e1, str):
                        e = e1
                vt = plist(S.vf.vars.values(), L.ser_var)
                add('dx %s %s %d %d %d' % (vt, L.ser(e), k, times, 1 if par else 0),
                    guarded(lambda: L.ser(V.Dx(e, k, times, parametric=par))), ('dx', S, e, k, times, par))
                ctx.count('synth:dx')
            elif kind == 6:    # substitute_vec_components
                vf = V.VForm(dim, arity=1 + S.r(2))
                nc = 1 + S.r(3)
                comps = (nc, 1 + S.r(3)) if vf.arity == 2 else (nc,)
                spaces = (0, S.r(2))
                bfs = vf.basisfuns(components=comps, spaces=spaces)
                bfs = (bfs,) if vf.arity == 1 else bfs
                f = vf.input('f')
                def comp(b):
                    b = b if not b.is_scalar() else V.as_vector([b])
                    c = S.r(4)
                    if c == 0: return b[S.r(len(b))]
                    if c == 1: return V.Dx(b[S.r(len(b))], S.r(dim), parametric=bool(S.r(2)))
                    if c == 2: return V.inner(b, b)
                    return V.tr(V.grad(b, parametric=True)) if len(b) == dim else b[0] * f
                e = comp(bfs[0]) * (comp(bfs[-1]) + f) if S.r(2) else comp(bfs[0]) + comp(bfs[-1]) * 2.0
                def fpy():
                    r = vf.substitute_vec_components(e)
                    if r.is_matrix():
                        r = r.ravel()
                    return L.ser(r)
                add('vec %s %s' % (plist(vf.basis_funs, L.ser_bf), L.ser(e)), guarded(fpy), ('vec', vf, e))
                ctx.count('synth:vec')
            else:              # fold on literal-expanded tensor trees (zeros/ones from broadcasting)
                t = S.matrix(2) if S.r(2) else S.vector(2)
                def f(t=t):
                    t2 = V.transform_expr(copy.deepcopy(t), V._to_literal_vec_mat)
                    return t2
                t2 = guarded(f)
                if not isinstance(t2, str):
                    s0 = L.ser(t2)
                    add('fold ' + s0, guarded(lambda: L.ser(V.transform_expr(copy.deepcopy(t2), lambda x: x.fold_constants()))), ('fold', t2))
                    ctx.count('synth:fold-tensor')
        except Exception as ex:
            ctx.count('synth-generator-error:' + type(ex).__name__)


def phys1_stream(ctx, add):
    """replace_physical_derivs on a first physical derivative of a basis function, all dims / directions"""
    from pyiga import vform as V
    for dim in (1, 2, 3):
        for which in (0, 1):
            for k in range(dim):
                vf = V.VForm(dim)
                bfs = vf.basisfuns()
                e = V.Dx(bfs[which], k)
                bf = vf.basis_funs[which]
                add('phys1 %d %s %d' % (dim, L.ser_bf(bf), k), guarded(lambda: L.ser(vf.replace_physical_derivs(e))), ('phys1', dim, which, k))
                ctx.count('synth:phys1')


def phys_streams(ctx, add):
    """every branch of replace_physical_derivs (orders 1, 2, space-time), _geo_hess_trf, insert_input_field_derivs and the
    predefined measure / normal variables, all dims: exact structural diff against Model/VFormPhys.lean"""
    import itertools
    from pyiga import vform as V

    def cnt():
        ctx.count('synth:phys-branches')
    for dim in (1, 2, 3):
        # ---- predefined variables
        vf = V.VForm(dim)
        vf.basisfuns()
        for name, req in (('W', 'predef W %d' % dim), ('Jac', 'predef Jac %d %d' % (dim, dim)), ('GaussWeight', 'predef GaussWeight %d' % dim),
                          ('JacInv', 'predef JacInv %d' % dim)):
            def f(name=name, vf=vf):
                getattr(vf, name)
                return L.ser(vf.vars[name].expr)
            add(req, guarded(f), ('predef', name, dim)); cnt()
        for kind in ('surf', 'bnd'):
            if (kind == 'surf' and dim == 3) or (kind == 'bnd' and dim == 1):
                continue
            vs = V.VForm(dim, geo_dim=dim + 1) if kind == 'surf' else V.VForm(dim, boundary=True)
            vs.basisfuns()
            rows, cols = (dim + 1, dim) if kind == 'surf' else (dim, dim - 1)
            for name in ('SW', 'normal'):
                def f(name=name, vs=vs):
                    getattr(vs, name)
                    return L.ser(vs.vars[name].expr)
                add('predef %s %d BJac %d %d' % (name, dim, rows, cols), guarded(f), ('predef', name, dim, kind)); cnt()
            if kind == 'surf':
                add('predef Jac %d %d' % (dim, dim + 1), guarded(lambda vs=vs: L.ser(vs.vars['Jac'].expr)), ('predef', 'Jac', dim, kind)); cnt()
            else:
                add('predef BJac %d' % dim, guarded(lambda vs=vs: L.ser(vs.vars['BJac'].expr)), ('predef', 'BJac', dim, kind)); cnt()
        # ---- physical derivatives of basis functions and of parametric input fields, orders 1 and 2
        for order in (1, 2):
            for D in itertools.product(range(order + 1), repeat=dim):
                if sum(D) != order:
                    continue
                idx = [k for k, n in enumerate(D) for _ in range(n)]
                for atom in ('u', 'v', 'f', 'w1'):
                    vf = V.VForm(dim)
                    u, v = vf.basisfuns()
                    fi = vf.input('f'); wi = vf.input('w', shape=(dim,))
                    if atom in ('u', 'v'):
                        bf = vf.basis_funs[0 if atom == 'u' else 1]
                        e = V.PartialDerivExpr(bf, D, physical=True)
                        tok = 'B ' + L.ser_bf(bf)
                    else:
                        var = vf.vars['f_a'] if atom == 'f' else vf.vars['w_a']
                        I = () if atom == 'f' else (dim - 1,)
                        e = V.VarRefExpr(var, I, D, parametric=False)
                        tok = 'V %s %s' % (var.name, plist(I))
                    if order == 1:
                        add('phys1g %d %s %d' % (dim, tok, idx[0]), guarded(lambda: L.ser(vf.replace_physical_derivs(e))), ('phys1g', dim, atom, D)); cnt()
                    else:
                        res = guarded(lambda: L.ser(vf.replace_physical_derivs(e)))
                        add('phys2g %d %s %d %d' % (dim, tok, idx[0], idx[1]), res, ('phys2g', dim, atom, D)); cnt()
                        for k in range(dim):
                            nm = '_geo_hess_trf_%d_%d_%d' % (k, idx[0], idx[1])
                            add('ghtdef %d %d %d %d' % (dim, k, idx[0], idx[1]),
                                guarded(lambda nm=nm: nm + ' ' + L.ser(vf.vars[nm].expr)), ('ghtdef', dim, k, idx)); cnt()
                    if atom == 'u':
                        add('physD %d %s %s' % (dim, L.ser_bf(bf), plist(D)), guarded(lambda: L.ser(vf.replace_physical_derivs(
                            V.PartialDerivExpr(bf, D, physical=True)))), ('physD', dim, D)); cnt()
        vf = V.VForm(dim); u, v = vf.basisfuns()
        D3 = (3,) + (0,) * (dim - 1)
        add('physD %d %s %s' % (dim, L.ser_bf(vf.basis_funs[0]), plist(D3)),
            guarded(lambda: L.ser(vf.replace_physical_derivs(V.PartialDerivExpr(vf.basis_funs[0], D3, physical=True)))), ('physD', dim, D3)); cnt()
        # ---- space-time branch
        if dim >= 2:
            for D in itertools.product(range(3), repeat=dim):
                if sum(D) == 0 or sum(D[:-1]) > 2:
                    continue
                vt = V.VForm(dim, spacetime=True)
                u, v = vt.basisfuns()
                bf = vt.basis_funs[0]
                def f(vt=vt, bf=bf, D=D):
                    r = vt.replace_physical_derivs(V.PartialDerivExpr(bf, D, physical=True))
                    # the variables created by pderiv_as_var must be the parametric derivatives they are named after
                    for nm, var in vt.vars.items():
                        if nm.startswith('_du_'):
                            digits = tuple(int(c) for c in nm[4:])
                            if L.ser(var.expr) != 'P %s %s 0' % (L.ser_bf(bf), plist(digits)):
                                return 'bad-pderiv-var ' + nm
                    return L.ser(r)
                add('physST %d %s %s' % (dim, L.ser_bf(bf), plist(D)), guarded(f), ('physST', dim, D)); cnt()
        # ---- insert_input_field_derivs
        for order in (1, 2):
            for D in itertools.product(range(order + 1), repeat=dim):
                if sum(D) != order:
                    continue
                for atom in ('f', 'w', 'g'):
                    vf = V.VForm(dim); vf.basisfuns()
                    inp = vf.input('f') if atom == 'f' else vf.input('w', shape=(2,)) if atom == 'w' else vf.input('g', physical=True)
                    var = vf.vars[atom + '_a']
                    I = (1,) if atom == 'w' else ()
                    e = V.VarRefExpr(var, I, D, parametric=(atom != 'g'))
                    add('inderiv %d %s %s %s' % (dim, atom, plist(I), plist(D)), guarded(lambda: L.ser(vf.insert_input_field_derivs(e))),
                        ('inderiv', dim, atom, D)); cnt()
    for n in range(1, 5):
        for i in range(n):
            for j in range(n):
                add('symseq %d %d %d' % (n, i, j), str(V.sym_index_to_seq(n, i, j)), ('symseq', n, i, j)); cnt()


# ----------------------------------------------------------------------------- indexing with negative indices / lists / slices
def index_stream(ctx, add, n):
    """`e[...]` with negative scalars, index lists (negative entries included) and slices (negative steps, open / out-of-range
    bounds) on vector and matrix expressions.  ORACLE: numpy indexing on the object array of the entries (the guide: "indexed and
    sliced using the standard Python [] operator", shapes "just like a numpy array"); MODEL: `getitemV/getitemM` (driver `getitem`,
    slices expanded by Python's own `slice.indices`)."""
    from pyiga import vform as V
    rng = ctx.rng
    vf = V.VForm(3)
    A = vf.parameter('A', shape=(2, 3)); Bm = vf.parameter('B', shape=(3, 3)); x = vf.parameter('x', shape=(3,)); y = vf.input('y', shape=(4,))
    pool = [A, Bm, x, y, V.dot(A, x), V.dot(Bm, Bm), A + A, V.outer(x, x), Bm.T]
    bad = {}
    flagged = ctx.extra.setdefault('_index_flagged', set())

    def rint(k):
        return int(rng.integers(-k - 1, k + 1))

    def rspec(k):
        c = int(rng.integers(0, 6))
        if c <= 1:
            return rint(k)
        if c == 2:
            return [rint(k) for _ in range(int(rng.integers(1, 4)))]
        st = [None, 1, 2, -1, -2][int(rng.integers(0, 5))]
        lo = [None, rint(k), rint(k + 2)][int(rng.integers(0, 3))]
        hi = [None, rint(k), rint(k + 2)][int(rng.integers(0, 3))]
        return slice(lo, hi, st)

    def axis_tok(sp, k):
        if isinstance(sp, slice):
            return 'n ' + plist(range(*sp.indices(k)))
        if isinstance(sp, list):
            return 'n ' + plist(sp)
        return '1 %d' % sp

    def ser_res(r):
        if isinstance(r, str):
            return r
        return L.ser(r)
    for it in range(n):
        e = pool[int(rng.integers(0, len(pool)))]
        if e.is_vector():
            k = e.shape[0]
            spec = rspec(k)
            key = spec
            toks = axis_tok(spec, k)
            arr = np.empty((k,), dtype=object)
            for i in range(k):
                arr[i] = L.ser(e[i])
        else:
            m_, n_ = e.shape
            s1, s2 = rspec(m_), rspec(n_)
            if isinstance(s1, list) and isinstance(s2, list):
                s2 = rint(n_)              # numpy pairs two index lists, the DSL takes their product: not compared
            key = (s1, s2)
            toks = axis_tok(s1, m_) + ' ' + axis_tok(s2, n_)
            arr = np.empty((m_, n_), dtype=object)
            for i in range(m_):
                for j in range(n_):
                    arr[i, j] = L.ser(e[i, j])
        # numpy semantics
        try:
            want = arr[key]
            if isinstance(want, np.ndarray) and want.ndim == 2 and want.size == 0:
                ctx.count('index:skipped-empty-matrix-result')
                continue
            want = want.tolist() if isinstance(want, np.ndarray) else want
        except IndexError:
            want = 'err-IndexError'
        got = guarded(lambda: e[key])

        def observe():
            if isinstance(got, str):
                return got
            if got.is_scalar():
                return L.ser(got)
            if got.is_vector():
                return [L.ser(got[i]) for i in range(got.shape[0])]
            return [[L.ser(got[i, j]) for j in range(got.shape[1])] for i in range(got.shape[0])]
        obs = guarded(observe)
        add('getitem %s %s' % (L.ser(e), toks), guarded(lambda: ser_res(got)), ('getitem', repr(key)))
        ctx.count('index:requests')
        if obs != want:
            flagged.add('getitem %s %s' % (L.ser(e), toks))
            neg = 'list' if any(isinstance(sp, list) for sp in (key if isinstance(key, tuple) else (key,))) else 'slice'
            kk = 'index:negative-entry-in-index-list' if neg == 'list' else 'index:slice-negative-step-or-bounds'
            bad[kk] = bad.get(kk, 0) + 1
            if bad[kk] <= 2:
                ctx.violation(kk, 'indexing an expression gives entries other than numpy-style indexing of its entries',
                              {'expression': L.ser(e)[:300], 'shape': list(e.shape), 'index': repr(key), 'observed': str(obs)[:400], 'numpy': str(want)[:400]}, True)
    ctx.obligation('indexing with negative indices / lists / slices equals numpy-style indexing of the entries (%d cases)' % n,
                   not [k for k in bad if k not in ctx.known_keys()], ', '.join('%s x%d' % kv for kv in bad.items()))


# ----------------------------------------------------------------------------- expression-sharing histories
SHARE_SUBS = ['coef', 'let', 'fv', 'du', 'uv', 'gu', 'const', 'geo']


def sharing_build(recipe, shared, const_obj=None):
    """one VForm built from `recipe`; shared=True: every subexpression is built once and the same object is reused in every
    term / add(); shared=False: the expression AS WRITTEN, every use built afresh.  Returns (vf, terms, held-subexpressions)."""
    from pyiga import vform as V
    dim, arity, nc = recipe['dim'], recipe['arity'], recipe['nc']
    vf = V.VForm(dim, arity=arity)
    comps = (nc, nc) if nc else (None, None)
    bfs = vf.basisfuns(components=comps[:2])
    bfs = (bfs,) if arity == 1 else tuple(bfs)
    u, v = bfs[0], bfs[-1]
    f = vf.input('f'); fv = vf.input('fv', shape=(nc or dim,)); c = vf.parameter('c')
    used = set(k for (a, b, _) in recipe['terms'] for k in (a, b) if k is not None)
    # (an unused let-variable makes hash() raise KeyError: declare it only if a term refers to it)
    B = vf.let('B', f * 2.0 + c) if any(recipe['subs'][k] == 'let' for k in used) else None

    def sc(b):
        return b if b.is_scalar() else b[0]

    def make(kind):
        if kind == 'coef': return f * f + c
        if kind == 'let': return B * f
        if kind == 'fv': return V.inner(fv, v) if not v.is_scalar() else f * v
        if kind == 'du': return V.div(u, parametric=True) if (not u.is_scalar() and len(u) == dim) else V.Dx(sc(u), 0, parametric=True)
        if kind == 'uv': return V.inner(u, v) if (not u.is_scalar() and not v.is_scalar()) else sc(u) * sc(v)
        if kind == 'gu': return V.inner(V.grad(sc(u), parametric=True), V.grad(sc(v), parametric=True))
        if kind == 'const': return const_obj if const_obj is not None else V.as_expr(2.0) * 3.0 + 1.0
        return vf.Geo[0] * vf.Geo[dim - 1]
    cache = {}

    def sub(k):
        if shared:
            if k not in cache:
                cache[k] = make(recipe['subs'][k])
            return cache[k]
        return make(recipe['subs'][k])
    terms = []
    for (a, b, cst) in recipe['terms']:
        e = sub(a)
        if b is not None:
            e = e * sub(b)
        if cst is not None:
            e = cst * e
        terms.append(e * V.dx)
    return vf, terms, cache


def sharing_case(recipe):
    """-> (requests [(req, expected)], problems [(key, detail)]) for one expression-sharing history"""
    from pyiga import vform as V
    reqs, problems = [], []
    # the expressions as written (no sharing): serialised before anything is added
    vfF, termsF, _ = sharing_build(recipe, shared=False)
    written = [L.ser(t) for t in termsF]
    for t in termsF:
        vfF.add(t)
    # the same history with shared subexpression objects
    vfS, termsS, held = sharing_build(recipe, shared=True)
    objs = {('sub%d:%s' % (k, recipe['subs'][k])): o for k, o in held.items()}
    objs.update({'term%d' % k: t for k, t in enumerate(termsS)})
    before = {n: (L.ser(o), V.exprhash(o)) for n, o in objs.items()}

    def probe(when):
        for n, o in objs.items():
            now = (L.ser(o), V.exprhash(o))
            if now != before[n]:
                problems.append(('sharing:user-expression-modified', {'recipe': recipe, 'object': n, 'when': when,
                                                                      'before': before[n][0][:600], 'after': now[0][:600]}))
                before[n] = now
    for k, t in enumerate(termsS):
        vfS.add(t)
        probe('after add() number %d' % k)
    for k in range(len(termsS)):
        got = L.ser(vfS.exprs[k])
        if vfS.vec:
            reqs.append(('vec %s %s' % (plist(vfS.basis_funs, L.ser_bf), written[k]), got, ('share-vec', recipe, k)))
        if got != L.ser(vfF.exprs[k]):
            problems.append(('sharing:add-differs-from-as-written', {'recipe': recipe, 'add_number': k, 'as_written': written[k][:600],
                                                                     'stored_with_sharing': got[:600], 'stored_without_sharing': L.ser(vfF.exprs[k])[:600]}))
    try:
        if vfS.hash() != vfF.hash():
            problems.append(('sharing:hash-differs-from-as-written', {'recipe': recipe}))
    except Exception as ex:
        problems.append(('sharing:hash-raised', {'recipe': recipe, 'error': type(ex).__name__}))
    # value: meaning of the form as written  vs  finalized program of the shared form
    try:
        w = L.World(vfF, np.random.default_rng(recipe['seed']))
        want = [L.flat(w.ev(e)) for e in vfF.exprs]
        vfS.finalize()
        got = [L.flat(x) for x in w.run_program(vfS)]
        if want != got:
            problems.append(('sharing:value-changed', {'recipe': recipe, 'expected': [[str(x) for x in r] for r in want][:3],
                                                       'observed': [[str(x) for x in r] for r in got][:3]}))
        if vfS.vec:
            probe('after finalize()')        # vector forms store copies: the user's objects must survive finalize() too
    except (L.Unsupported, ZeroDivisionError):
        pass
    except Exception as ex:
        problems.append(('sharing:finalize-raised', {'recipe': recipe, 'error': '%s: %s' % (type(ex).__name__, str(ex)[:200])}))
    # a second form, built after the first one was finalized, reusing the bfun-free constant subexpression object
    cst = [o for k, o in held.items() if recipe['subs'][k] == 'const']
    if cst:
        r2 = dict(recipe, terms=[(recipe['subs'].index('const'), recipe['terms'][0][0], None)] + recipe['terms'][:1])
        try:
            vf2F, t2F, _ = sharing_build(r2, shared=False)
            vf2S, t2S, _ = sharing_build(r2, shared=True, const_obj=cst[0])
            for k, t in enumerate(t2S):
                vf2S.add(t); vf2F.add(t2F[k])
            # finalize() of the first form rewrote its own trees in place (by design), so the reused constant object may have
            # been folded; what must hold is the value of the second form
            w2 = L.World(vf2F, np.random.default_rng(recipe['seed'] + 1))
            want2 = [L.flat(w2.ev(e)) for e in vf2F.exprs]
            vf2S.finalize()
            got2 = [L.flat(x) for x in w2.run_program(vf2S)]
            if want2 != got2:
                problems.append(('sharing:value-changed', {'recipe': r2, 'second_form': True, 'expected': [[str(x) for x in r] for r in want2][:3],
                                                           'observed': [[str(x) for x in r] for r in got2][:3]}))
        except (L.Unsupported, ZeroDivisionError):
            pass
        except Exception as ex:
            problems.append(('sharing:second-form-raised', {'recipe': r2, 'error': type(ex).__name__}))
    return reqs, problems


def sharing_stream(ctx, add, n):
    """subexpressions (with vector basis functions, let variables, derivatives, constants) built once and reused across several
    add() calls / a second form; every stored expression is compared with the expression as written and with the model
    (`vec`), the finalized form's value with the meaning as written; user-held objects must be unchanged by add()/finalize()"""
    rng = ctx.rng
    seen = {}
    for it in range(n):
        nsub = 3
        subs = [SHARE_SUBS[int(i)] for i in rng.integers(0, len(SHARE_SUBS), size=nsub)]
        if it % 4 == 0:
            subs[0] = 'fv'                      # a subexpression containing the (vector) test function, every few cases
        nterms = int(rng.integers(2, 5))
        terms = []
        for t in range(nterms):
            a = int(rng.integers(0, nsub)) if t else 0
            b = int(rng.integers(0, nsub)) if rng.integers(0, 2) else None
            cst = [None, 2.0, 0.5, -1.0][int(rng.integers(0, 4))]
            terms.append((a, b, cst))
        recipe = {'dim': [1, 2, 2, 3][int(rng.integers(0, 4))], 'arity': 1 + int(rng.integers(0, 2)),
                  'nc': [None, 2, 3, 2][int(rng.integers(0, 4))], 'subs': subs, 'terms': terms, 'seed': int(rng.integers(0, 2 ** 31))}
        try:
            reqs, problems = sharing_case(recipe)
        except Exception as ex:
            ctx.count('sharing-generator-error:' + type(ex).__name__)
            continue
        ctx.count('sharing:histories'); ctx.count('sharing:add-calls', len(terms))
        if recipe['nc']:
            ctx.count('sharing:vector-valued')
        for (r, e, m) in reqs:
            add(r, e, m)
        for (key, detail) in problems:
            seen[key] = seen.get(key, 0) + 1
            if seen[key] <= 2:
                detail = dict(detail, replay='harness.c06.sharing_case(recipe)')
                ctx.violation(key, 'expression-sharing history: ' + key.split(':', 1)[1], detail, True)
    ctx.obligation('expression-sharing histories: %d histories, stored expressions / hash / values equal the form as written, user objects unchanged'
                   % ctx.counters.get('sharing:histories', 0), not seen, ', '.join('%s x%d' % kv for kv in seen.items()))


# ----------------------------------------------------------------------------- model-free search
def dual_eval(w, e, k, par, store=None):
    """(value, derivative wrt direction k [parametric or physical]) by dual numbers over Fractions"""
    from pyiga import vform as V
    t = type(e)
    if t is V.ConstExpr:
        return Fr(e.value), Fr(0)
    if t is V.NegExpr:
        a, da = dual_eval(w, e.x, k, par)
        return -a, -da
    if t is V.ScalarOperExpr:
        a, da = dual_eval(w, e.x, k, par)
        b, db = dual_eval(w, e.y, k, par)
        if e.oper == '+': return a + b, da + db
        if e.oper == '-': return a - b, da - db
        if e.oper == '*': return a * b, da * b + a * db
        return a / b, (da * b - a * db) / (b * b)
    if t is V.PartialDerivExpr:
        D2 = list(e.D); D2[k] += 1
        p = w.bf[e.basisfun.name]
        if par:
            return w.para(p, e.D), w.para(p, D2)
        return w.phys(p, e.D), w.phys(p, D2)
    if t is V.VarRefExpr:
        var = e.var
        if var.expr is not None:
            ue = e.get_underlying_expr()
            return dual_eval(w, ue, k, par)
        if isinstance(var.src, V.Parameter):
            return w.ev(e), Fr(0)
        D2 = list(e.D); D2[k] += 1
        return w.field_deriv(var.src, tuple(e.I), tuple(e.D), par), w.field_deriv(var.src, tuple(e.I), tuple(D2), par)
    raise L.Unsupported('dual: ' + t.__name__)


def search_pass(kind, m, py_answer, rng):
    """evaluate before/after on random exact environments; returns description of a failing input or None"""
    from pyiga import vform as V
    if isinstance(py_answer, str) and py_answer.startswith('err-') and kind == 'fold':
        # the pass raised: a failing input if the expression itself has a value
        try:
            e = m[1]
            vf = e.find_vf() or V.VForm(2)
            for t in range(4):
                w = L.World(vf, np.random.default_rng(t))
                try:
                    a = L.flat(w.ev(e))
                except (ZeroDivisionError, L.Unsupported):
                    continue
                return {'pass': 'fold', 'before': L.ser(e)[:1500], 'raised': py_answer, 'value_before': [str(x) for x in a], 'env_seed': t}
        except Exception:
            return None
        return None
    if isinstance(py_answer, str) and py_answer.startswith('err-') and kind not in ('dx',):
        return None
    try:
        if kind in ('fold', 'lit'):
            e = m[1]
            fun = (lambda x: x.fold_constants()) if kind == 'fold' else V._to_literal_vec_mat
            e2 = V.transform_expr(copy.deepcopy(e), fun)
            vf = e.find_vf() or V.VForm(2)
            for t in range(8):
                w = L.World(vf, np.random.default_rng(t))
                try:
                    a, b = L.flat(w.ev(e)), L.flat(w.ev(e2))
                except (ZeroDivisionError, L.Unsupported):
                    continue
                if a != b and const_arith(e)[0] and approx_equal([a], [b]):
                    continue        # a float division inside fold_constants rounded; equal up to that rounding
                if a != b:
                    return {'pass': kind, 'before': L.ser(e)[:1500], 'after': L.ser(e2)[:1500], 'value_before': [str(x) for x in a],
                            'value_after': [str(x) for x in b], 'env_seed': t}
        elif kind in ('at', 'row', 'col', 'T', 'ravel', 'tr', 'inner', 'oper'):
            if kind == 'at':
                t_, i, j = m[1], m[2], m[3]
                e2 = t_[i, j] if t_.is_matrix() else t_[i]
                pick = (lambda v: v[i][j]) if t_.is_matrix() else (lambda v: v[i])
            elif kind == 'row':
                t_, i = m[1], m[2]; e2 = t_[i, :]; pick = lambda v: v[i]
            elif kind == 'col':
                t_, j = m[1], m[2]; e2 = t_[:, j]; pick = lambda v: [r[j] for r in v]
            elif kind == 'T':
                t_ = m[1]; e2 = t_.T; pick = lambda v: [list(c) for c in zip(*v)]
            elif kind == 'ravel':
                t_ = m[1]; e2 = t_.ravel(); pick = lambda v: [x for r in v for x in r]
            elif kind == 'tr':
                t_ = m[1]; e2 = V.tr(t_); pick = lambda v: sum((v[i][i] for i in range(len(v))), Fr(0))
            elif kind == 'inner':
                t_, y = m[1], m[2]; e2 = V.inner(t_, y); pick = None
            else:
                op, t_, y = m[1], m[2], m[3]; e2 = V.OperExpr(op, t_, y); pick = None
            vf = t_.find_vf() or V.VForm(2)
            for s in range(8):
                w = L.World(vf, np.random.default_rng(s))
                try:
                    if pick is not None:
                        a = L.flat(pick(w.ev(t_)))
                    elif kind == 'inner':
                        a = [sum((p * q for p, q in zip(L.flat(w.ev(t_)), L.flat(w.ev(y)))), Fr(0))]
                    else:
                        xa, ya = w.ev(t_), w.ev(y)
                        def bc(s_, like):
                            if isinstance(like, list) and not isinstance(s_, list):
                                return [bc(s_, l) for l in like]
                            return s_
                        a = L.flat(w._binop(op, bc(xa, ya), bc(ya, xa)))
                    b = L.flat(w.ev(e2))
                except (ZeroDivisionError, L.Unsupported):
                    continue
                if a != b:
                    return {'pass': kind, 'expr': L.ser(t_)[:1500], 'result': L.ser(e2)[:1500], 'value_expected': [str(x) for x in a],
                            'value_observed': [str(x) for x in b], 'env_seed': s}
        elif kind == 'dx':
            S, e, k, times, par = m[1], m[2], m[3], m[4], m[5]
            if times != 1 or not e.is_scalar():
                return None
            try:
                d = V.Dx(e, k, 1, parametric=par)
            except Exception:
                return None
            for s in range(8):
                w = L.World(S.vf, np.random.default_rng(s))
                try:
                    _, want = dual_eval(w, e, k, par)
                    got = w.ev(d)
                except (ZeroDivisionError, L.Unsupported):
                    continue
                if want != got:
                    return {'pass': 'Dx', 'expr': L.ser(e)[:1500], 'k': k, 'parametric': par, 'Dx': L.ser(d)[:1500],
                            'true_derivative': str(want), 'value_of_Dx': str(got), 'env_seed': s}
        elif kind == 'vec':
            vf, e = m[1], m[2]
            r = vf.substitute_vec_components(e)
            ents = L.flat([[r[i, j] for j in range(r.shape[1])] for i in range(r.shape[0])]) if r.is_matrix() else [r[i] for i in range(len(r))]
            bfu = vf.basis_funs[0]
            bfv = vf.basis_funs[-1]
            for s in range(4):
                w = L.World(vf, np.random.default_rng(s))
                # meaning: component bfuns (name, comp) -> the scalar bfun if comp == chosen else 0
                idx = 0
                rng_i = range(bfv.numcomp) if vf.arity == 2 else [None]
                for i in rng_i:
                    for j in range(bfu.numcomp):
                        sel = {bfu.name: j}
                        if vf.arity == 2:
                            sel[bfv.name] = i
                        want = eval_with_components(w, e, sel)
                        got = w.ev(ents[idx]); idx += 1
                        if want != got:
                            return {'pass': 'substitute_vec_components', 'expr': L.ser(e)[:1500], 'entry': idx - 1, 'expected': str(want), 'observed': str(got)}
    except Exception as ex:
        return None
    return None


def eval_with_components(w, e, sel):
    from pyiga import vform as V
    t = type(e)
    if t is V.PartialDerivExpr and e.basisfun.component is not None:
        if sel.get(e.basisfun.name) == e.basisfun.component:
            p = w.bf[e.basisfun.name]
            return w.phys(p, e.D) if e.physical else w.para(p, e.D)
        return Fr(0)
    if t is V.ScalarOperExpr:
        return w._binop(e.oper, eval_with_components(w, e.x, sel), eval_with_components(w, e.y, sel))
    if t is V.NegExpr:
        return -eval_with_components(w, e.x, sel)
    if t is V.BuiltinFuncExpr:
        return L.fn_standin(e.funcname, eval_with_components(w, e.x, sel))
    return w.ev(e)


# ----------------------------------------------------------------------------- run
def run(ctx):
    ctx.build_repo()
    from pyiga import vform as V
    sys.path.insert(0, VERIF)
    # ---- translator ties (regenerated obligations)
    key_table = None
    try:
        from translator import c13_keys
        kt = c13_keys.extract()
        key_table = kt['expr_table']
        changed = c13_keys.write(kt)
        ok, log = ctx.lake_build(['Pyiga.Gen.HashKeys'])
        ctx.obligation('T-key: KeyTableComplete / FKeyTableComplete re-decided on the regenerated tables (Gen/HashKeys.lean)', ok, log[-500:] if not ok else '')
        ctx.extra['key_table'] = key_table
        keys_ok = ok
    except Exception as ex:
        ctx.obligation('T-key translator ran', False, traceback.format_exc()[-500:])
        keys_ok = False
    alg_names = []
    try:
        from translator import c06_algebra
        changed, alg_names = c06_algebra.write()
        ok, log = ctx.lake_build(['Pyiga.Gen.Algebra'])
        ctx.obligation('T-alg: %d regenerated algebra identities (Gen/Algebra.lean) re-proved' % len(alg_names), ok, log[-800:] if not ok else '')
        bad = c06_algebra.numeric_check()
        ctx.extra['alg_identities'] = len(alg_names)
        if bad:
            for b in bad[:3]:
                ctx.violation('alg:' + str(b.get('name', '?')), 'library symbolic algebra violates identity %s' % b.get('name'), b, True)
        elif not ok:
            ctx.violation('alg-obligation', 'regenerated Gen/Algebra.lean no longer checks', {'log': log[-1500:]}, False)
    except ImportError:
        ctx.notes.append('translator/c06_algebra.py not present: T-alg skipped')
    except Exception:
        ctx.obligation('T-alg translator ran', False, traceback.format_exc()[-500:])

    ctx.require_lean(['Pyiga.Props.C06', 'drv_c06'])
    ctx.audit(['Pyiga.Props.C06'], THEOREMS, MODULES)
    if alg_names:
        ctx.audit(['Pyiga.Gen.Algebra'], alg_names[:400], ['Pyiga.Gen.Algebra'])
    if ctx.tier == 'thorough':
        ctx.leanchecker(MODULES)
    ctx.trusted += ['harness/c06_lib.py: serialiser of pyiga expression DAGs, exact Fraction evaluator (oracle), form generator',
                    'translator/c13_keys.py, translator/c06_algebra.py (AST / symbolic dumps of vform.py)',
                    'modelled: ConstExpr values as exact rationals of the doubles (generator uses dyadic constants so folding is exact); '
                    'tuple hash() as injective; division by zero is an error in Python and 0 in the Lean field semantics']
    ctx.assumptions += ['physical-derivative rewriting (replace_physical_derivs, _geo_hess_trf, space-time branch), measure/normal expansion and '
                        'insert_input_field_derivs are tied by the model-free before/after oracle on every corpus form and by the regenerated '
                        'chain-rule identities, not by a Lean transliteration of those passes',
                        'builtin functions are opaque symbols in the oracle (polynomial stand-ins); abs is exact']
    ctx.rule = ('forms: type-directed random generator (dims 1-3, arity 1-2, volume/surface/boundary/space-time, scalar and vector bfuns, '
                'inputs ()/(d,)/(d,d) physical/parametric, parameters, Dx/grad/div/curl/hess, inner/dot/cross/outer/det/inv/tr/T, + - * / **, '
                'abs sqrt exp log sin cos tan); per form: hash grouping, literal expansion, constant folding, CSE+trivial-variable validation by '
                'inlining, schedule check, and exact before/after evaluation of the whole finalize(); synthetic trees for fold/index/lit/oper/Dx/vec. '
                'distinct = distinct request strings; non-trivial = request longer than 40 tokens')

    if key_table is None:
        key_table = {}
    table_tok = key_table_tokens({k: v for k, v in key_table.items()})
    nforms = int(os.environ.get('C06_NFORMS', 0)) or (500 if ctx.tier == 'quick' else 6000)
    nsynth = 3200 if ctx.tier == 'quick' else 24000
    seeds = [-1 - k for k in range(L.N_SPECIAL_FORMS)] + [int(s) for s in ctx.rng.integers(0, 2 ** 31, size=nforms)]
    req, exp, meta = [], [], []

    def add(r, e, m):
        req.append(r); exp.append(e); meta.append(m)

    import time as _t
    t0 = _t.time()
    synth_stream(ctx, add, nsynth)
    phys1_stream(ctx, add)
    phys_streams(ctx, add)
    sharing_stream(ctx, add, 120 if ctx.tier == 'quick' else 1500)
    index_stream(ctx, add, 400 if ctx.tier == 'quick' else 5000)
    ctx.extra['t_synth'] = round(_t.time() - t0, 1); t0 = _t.time()

    import multiprocessing as mp
    small = False
    with mp.get_context('fork').Pool(min(12, os.cpu_count() or 4)) as pool:
        results = pool.map(form_case, [(s, table_tok, small) for s in seeds], chunksize=8)
    ctx.extra['t_forms'] = round(_t.time() - t0, 1); t0 = _t.time()
    nviol = 0
    bad_seeds = set()
    for res in results:
        for k, v in res['counts'].items():
            ctx.count(k, v)
        if res.get('error'):
            ctx.count('harness-worker-error')
            ctx.notes.append('worker error seed %d: %s' % (res['seed'], res['error'][-300:]))
        if res['oracle'] is not None:
            bad_seeds.add(res['seed'])
            kind, detail, src0 = res['oracle']
            if kind.endswith('const-hash-collision'):
                ctx.count('oracle-failures-attributed-to-known-const-hash-collision')
            else:
                nviol += 1
            if kind.endswith('const-hash-collision'):
                vkey = 'hash:const-minus1-minus2'
            else:
                vkey = 'finalize-oracle:' + kind
            ctx.violation(vkey,
                          'finalize() changed the value of a kernel expression / produced an invalid program (%s)' % kind,
                          {'generator_seed': res['seed'], 'desc': res['desc'], 'detail': detail, 'exprs_before': [s[:3000] for s in src0],
                           'replay': 'harness.c06_lib.build_form(%d)' % res['seed']}, True)
        req += res['req']; exp += res['exp']; meta += res['meta']
        if res['desc'] and len(ctx.samples) < 5 and res['req']:
            ctx.sample({'form': res['desc'], 'first_request': res['req'][0][:160]})
    ctx.obligation('model-free oracle: finalize() preserves the exact value of every kernel expression on %d generated forms'
                   % ctx.counters.get('oracle-ok', 0), nviol == 0, '%d failing forms' % nviol)
    if ctx.counters.get('harness-worker-error', 0) > nforms // 20:
        from .common import InfraError
        raise InfraError('too many worker errors: ' + '; '.join(ctx.notes[-3:]))

    t0 = _t.time()
    got = ctx.model('drv_c06', req)
    ctx.extra['t_model'] = round(_t.time() - t0, 1); t0 = _t.time()
    ndis = 0
    nknown = 0
    perkey = {}
    orng = np.random.default_rng(ctx.seed + 5)
    pend = {}
    for r, e, g, m in zip(req, exp, got, meta):
        ctx.case(r, nontrivial=(r.count(' ') > 40))
        ctx.count('stream:' + m[0])
        if m[0] == 'inline':
            key = (m[1], m[2])
            if m[3] == 'before':
                pend[key] = (r, g)
                continue
            rb, gb = pend.pop(key, (None, None))
            if gb == g and g != 'bad-request':
                continue
            ndis += 1
            if ndis <= 20:
                ctx.violation('cse-validate', 'after CSE / trivial-variable elimination, inlining the temporaries does not give back the expression before '
                              '(variable/expression %s)' % m[2],
                              {'generator_seed': m[1], 'what': m[2], 'before_inlined': (gb or '')[:2000], 'after_inlined': g[:2000],
                               'replay': 'harness.c06_lib.build_form(%d)' % m[1]}, False)
            continue
        if e == g:
            continue
        if m[0] == 'fold' and same_up_to_rounding(e, g, r):
            ctx.count('skipped:inexact-float-constant-folding')
            continue
        if m[0] == 'fold' and isinstance(e, str) and not e.startswith('err-'):
            # the implementation combined two constants in double arithmetic and the *rounded* result hit a folding rule
            # (e.g. 1 - (-1e-20) == 1.0, then x*1 -> x): legitimate iff the value is preserved up to that rounding
            try:
                comb = wire_const_arith(r.split()[1:])[0]
            except Exception:
                comb = False
            if comb:
                if isinstance(m[1], int):
                    ok_round = m[1] not in bad_seeds
                else:
                    ok_round = search_pass('fold', m, e, orng) is None
                if ok_round:
                    ctx.count('skipped:rounded-constant-hit-a-folding-rule(value preserved)')
                    continue
        if m[0] == 'getitem' and r in ctx.extra.get('_index_flagged', ()):
            ctx.count('getitem-disagreements-already-reported-by-the-numpy-oracle')
            continue
        if m[0] == 'keys':
            att = attribute_keys(m[1], e, g)
            if att is not None:
                ctx.count('hash-merge-of-different-expressions')
                nknown += 1
                ctx.violation(att[0], att[1], att[2], True)
                continue
        ndis += 1
        perkey[m[0]] = perkey.get(m[0], 0) + 1
        if perkey[m[0]] > 3:
            continue
        found = None
        if m[0] in ('fold', 'lit') and len(m) == 2 or m[0] in ('at', 'row', 'col', 'T', 'ravel', 'tr', 'inner', 'oper', 'dx', 'vec'):
            found = search_pass(m[0], m, e, orng)
        desc = {'request': r[:3000], 'implementation': str(e)[:3000], 'model': g[:3000], 'oracle': found, 'stream': 'pass (drv_c06)'}
        if m[0] in ('fold', 'lit', 'keys', 'sched') and len(m) >= 2 and isinstance(m[1], int):
            desc['replay'] = 'harness.c06_lib.build_form(%d)' % m[1]
        if m[0] == 'sched' and g.startswith('fail'):
            found = {'schedule': g}
        ctx.violation('pass:' + m[0], 'model and implementation disagree on `%s`%s' % (m[0], (': value changed, see oracle' if found else '')),
                      desc, found is not None)
    ctx.obligation('correspondence stream pass: %d requests, model == implementation' % len(req), ndis == 0, '%d disagreements' % ndis)
    ctx.extra['requests'] = len(req)
    ctx.extra.pop('_index_flagged', None)

    # model-free spot checks of the synthetic passes (supports the search; not the proof)
    nor = 150 if ctx.tier == 'quick' else 2000
    bad = 0
    idxs = [i for i, m in enumerate(meta) if m[0] in ('fold', 'lit', 'at', 'dx', 'T', 'tr', 'vec', 'oper') and not (len(m) >= 2 and isinstance(m[1], int))]
    for i in orng.permutation(len(idxs))[:nor]:
        m = meta[idxs[i]]
        d = search_pass(m[0], m, exp[idxs[i]], orng)
        if d is not None:
            bad += 1
            ctx.violation('pass-oracle:' + m[0], 'pass `%s` changes the value of an expression' % m[0], d, True)
    ctx.extra['oracle_spot_checks'] = int(min(nor, len(idxs)))
    if not keys_ok:
        search_key_defect(ctx, key_table)


def attribute_keys(seed, impl, model):
    """the hash grouping of the implementation is coarser than the structural key: find the two nodes,
    show with the exact evaluator that they denote different values -> a genuine merge of different expressions"""
    try:
        a = [int(x) for x in impl.split()[1:]]
        b = [int(x) for x in model.split()[1:]]
        if len(a) != len(b):
            return None
        i = next(k for k in range(len(a)) if a[k] != b[k])
        vf, _ = L.build_form(seed)
        roots = [v.expr for v in L.reachable_vars(vf) if v.expr is not None] + list(vf.exprs)
        nodes = []
        for r in roots:
            L.tree_nodes_postorder(r, nodes)
        n1, n2 = nodes[a.index(a[i])], nodes[i]
        s1, s2 = L.ser(n1), L.ser(n2)
        if s1 == s2:
            return None          # the model separates equal trees: a model problem, not a hash collision
        t1, t2 = s1.split(), s2.split()
        diff = [(x, y) for x, y in zip(t1, t2) if x != y] if len(t1) == len(t2) else None
        w = L.World(vf, np.random.default_rng(1))
        try:
            v1, v2 = L.flat(w.ev(n1)), L.flat(w.ev(n2))
        except Exception:
            v1 = v2 = None
        if v1 is None or v1 == v2:
            return None
        from pyiga import vform as V
        key = 'hash:const-minus1-minus2' if diff and all(set(d) == {'-1', '-2'} for d in diff) else 'hash-merge:' + (s1.split()[0])
        return (key, 'two different subexpressions have the same Expr.hash and are treated as common subexpressions',
                {'generator_seed': seed, 'replay': 'harness.c06_lib.build_form(%d)' % seed, 'expr1': s1[:800], 'expr2': s2[:800],
                 'hash1': V.exprhash(n1), 'hash2': V.exprhash(n2), 'value1': [str(x) for x in v1], 'value2': [str(x) for x in v2]})
    except Exception:
        return None


def search_key_defect(ctx, key_table):
    """the regenerated completeness obligation failed: find two expressions with equal hash and different meaning"""
    try:
        from . import c13
        c13.search_pairs(ctx, n=4000, report_key='key-incomplete')
    except Exception:
        ctx.violation('key-incomplete', 'KeyTableComplete fails on the regenerated table', {'table': key_table}, False)
