"""
Shared machinery of the /verif checks (see DESIGN.md §1, §4).

Every property module `harness/cXX.py` exposes `run(ctx)`; `harness/run.py`
creates the context, calls it and turns the recorded facts into
  * /verif/evidence/<id>.json
  * stdout lines  `VIOLATION property=<id> replay=<path>[ no-failing-input-found]`
                  `KNOWN-FINDING: property=<id> <what fails>`
  * exit status 0 (held) / 1 (violation not listed as known) / 2 (infrastructure).
"""
import fcntl
import hashlib
import json
import os
import re
import shutil
import subprocess
import sys
import time
from fractions import Fraction

VERIF = os.path.dirname(os.path.dirname(os.path.abspath(__file__)))
REPO = os.environ.get('VERIF_REPO', '/repo')
LEAN = os.path.join(VERIF, 'lean')
PY = '/venv/bin/python'
# evidence/ only ever records runs against /repo itself; a run against a scratch worktree (VERIF_REPO, used to
# validate seeded changes) writes its evidence next to the replay files instead
EVID = os.path.join(VERIF, 'evidence') if REPO == '/repo' else os.path.join(VERIF, 'replay', 'evidence-scratch')
REPLAY = os.path.join(VERIF, 'replay')
LOCKS = os.path.join(VERIF, '.locks')
ALLOWED_AXIOMS = {'propext', 'Classical.choice', 'Quot.sound'}
FORBIDDEN = re.compile(r'\b(sorry|admit|native_decide|bv_decide|implemented_by|unsafe)\b|^axiom\s|maxHeartbeats\s+0\b')

TRUSTED_BASE_COMMON = [
    'Lean 4.33.0 kernel (theorems re-elaborated by `lake build`; thorough tier re-checks .olean files with leanchecker)',
    'axioms allowed: propext, Classical.choice, Quot.sound (audited with #print axioms on every run); no sorry/admit/native_decide/bv_decide/own axioms',
    'Mathlib v4.33.0 modules imported by the proof files',
    '/verif/harness (generators, canonicalisation, diff) and /verif/lean/Drivers (line-protocol parser/printer)',
]


if REPO != '/repo':
    # run the checks against a scratch worktree (mutation testing): shadow the editable install
    sys.path.insert(0, REPO)
    os.environ['PYTHONPATH'] = REPO + os.pathsep + os.environ.get('PYTHONPATH', '')


class InfraError(Exception):
    """Something in the machinery (not the property) failed: exit 2."""


def _lock(name):
    os.makedirs(LOCKS, exist_ok=True)
    f = open(os.path.join(LOCKS, name), 'w')
    fcntl.flock(f, fcntl.LOCK_EX)
    return f


def sh(cmd, cwd=None, env=None, timeout=None, input=None):
    p = subprocess.run(cmd, cwd=cwd, env=env, timeout=timeout, input=input,
                       stdout=subprocess.PIPE, stderr=subprocess.STDOUT, text=True)
    return p.returncode, p.stdout


def frac(x):
    """exact rational of a python float / int / Fraction as protocol token"""
    if isinstance(x, Fraction):
        f = x
    elif isinstance(x, (int,)) or hasattr(x, '__index__'):
        return str(int(x))
    else:
        f = Fraction(float(x))
    return str(f.numerator) if f.denominator == 1 else '%d/%d' % (f.numerator, f.denominator)


def parse_frac(tok):
    return Fraction(tok)


def plist(xs, f=str):
    xs = list(xs)
    return ' '.join([str(len(xs))] + [f(x) for x in xs])


class Ctx:
    def __init__(self, pid, tier, seed):
        self.pid = pid
        self.tier = tier
        self.seed = seed
        self.t0 = time.time()
        self.obligations = []       # (name, ok, detail)
        self.samples = []
        self.counters = {}
        self.distinct = set()
        self.evaluations = 0
        self.violations = []        # dicts: key, what, replay(dict), found_input(bool)
        self.known_printed = []
        self.notes = []
        self.assumptions = []
        self.trusted = list(TRUSTED_BASE_COMMON)
        self.rule = ''
        self.checker_cmds = []
        self.extra = {}
        self.level = 'proof'
        self._markfd = None
        import numpy as np
        self.rng = np.random.default_rng(seed)
        kf = os.path.join(VERIF, 'known_findings.json')
        self.known = json.load(open(kf)) if os.path.exists(kf) else {'findings': []}
        kd = os.path.join(VERIF, 'known_findings.d')
        if os.path.isdir(kd):
            for fn in sorted(os.listdir(kd)):
                if fn.endswith('.json'):
                    self.known['findings'] += json.load(open(os.path.join(kd, fn))).get('findings', [])

    # ------------------------------------------------------------------ build
    def build_repo(self):
        """rebuild /repo's extension modules in place from the working tree"""
        lk = _lock('repo-build')
        try:
            t = time.time()
            rc, out = sh([PY, 'setup.py', 'build_ext', '--inplace', '-j', '8'], cwd=REPO, timeout=1500)
            if rc != 0:
                raise InfraError('build_ext failed:\n' + out[-3000:])
            self.extra['repo_build_s'] = round(time.time() - t, 1)
        finally:
            lk.close()

    def repo_digest(self):
        h = hashlib.sha256()
        for root, dirs, files in os.walk(os.path.join(REPO, 'pyiga')):
            dirs.sort()
            for fn in sorted(files):
                if fn.endswith(('.py', '.pyx', '.pxd', '.pxi', '.cc', '.h')):
                    p = os.path.join(root, fn)
                    h.update(p.encode())
                    h.update(open(p, 'rb').read())
        return h.hexdigest()[:16]

    def xdg_cache(self):
        """private module cache for compiled assemblers keyed by the source digest"""
        base = os.path.join(VERIF, '.cache')
        os.makedirs(base, exist_ok=True)
        d = os.path.join(base, 'xdg-' + self.repo_digest())
        os.makedirs(d, exist_ok=True)
        os.utime(d, None)
        # keep the few most recently used digests (concurrent checks on scratch worktrees
        # must not wipe each other's caches); older ones are removed to bound disk use
        olds = sorted((e for e in os.listdir(base) if e.startswith('xdg-') and os.path.join(base, e) != d),
                      key=lambda e: os.path.getmtime(os.path.join(base, e)), reverse=True)
        for e in olds[5:]:
            shutil.rmtree(os.path.join(base, e), ignore_errors=True)
        return d

    def lake_build(self, targets, what='lake build'):
        """returns (ok, log).  Serialised by a lock (lake is not safe concurrently)."""
        lk = _lock('lake')
        try:
            rc, out = sh(['lake', 'build'] + list(targets), cwd=LEAN, timeout=3000)
        finally:
            lk.close()
        self.checker_cmds.append('cd /verif/lean && lake build ' + ' '.join(targets))
        return rc == 0, out

    def require_lean(self, targets):
        """build hand-written (not regenerated) Lean targets: failure is infrastructure"""
        ok, out = self.lake_build(targets)
        if not ok:
            raise InfraError('lake build failed:\n' + out[-4000:])

    def grep_forbidden(self, modules):
        """modules: dotted names under lean/.  Returns list of offending lines (comments stripped)."""
        bad = []
        for m in modules:
            p = os.path.join(LEAN, m.replace('.', '/') + '.lean')
            src = open(p).read()
            src = re.sub(r'/-.*?-/', lambda mo: '\n' * mo.group(0).count('\n'), src, flags=re.S)
            for i, line in enumerate(src.split('\n'), 1):
                line = re.sub(r'--.*$', '', line)
                if FORBIDDEN.search(line):
                    bad.append('%s:%d: %s' % (p, i, line.strip()))
        return bad

    def audit(self, imports, theorems, modules=None):
        """`#print axioms` for every named theorem; each becomes an obligation.
        imports: Lean modules to import; theorems: fully qualified names."""
        modules = modules or imports
        bad = self.grep_forbidden(modules)
        self.obligation('no sorry/admit/native_decide/bv_decide/axiom/unsafe in ' + ','.join(modules), not bad, '; '.join(bad[:5]))
        os.makedirs(os.path.join(LEAN, '.audit'), exist_ok=True)
        f = os.path.join(LEAN, '.audit', '%s_%d.lean' % (self.pid, os.getpid()))
        with open(f, 'w') as fh:
            for m in imports:
                fh.write('import %s\n' % m)
            for t in theorems:
                fh.write('#print axioms %s\n' % t)
        lk = _lock('lake')
        try:
            rc, out = sh(['lake', 'env', 'lean', f], cwd=LEAN, timeout=1200)
        finally:
            lk.close()
        os.unlink(f)
        self.checker_cmds.append('lake env lean <#print axioms of %d theorems>' % len(theorems))
        # parse
        res = {}
        for mo in re.finditer(r"'([^']+)' (depends on axioms: \[([^\]]*)\]|does not depend on any axioms)", out.replace('\n', ' ')):
            name = mo.group(1)
            axs = [a.strip() for a in (mo.group(3) or '').split(',') if a.strip()]
            res[name] = axs
        for t in theorems:
            if t not in res:
                self.obligation('theorem ' + t, False, 'not found / does not elaborate: ' + out[-600:])
            else:
                extra = [a for a in res[t] if a not in ALLOWED_AXIOMS]
                self.obligation('theorem ' + t, not extra, 'axioms: ' + ','.join(res[t]))
        return res

    def leanchecker(self, modules):
        lk = _lock('lake')
        try:
            rc, out = sh(['lake', 'env', 'leanchecker'] + list(modules), cwd=LEAN, timeout=3000)
        finally:
            lk.close()
        self.checker_cmds.append('lake env leanchecker ' + ' '.join(modules))
        self.obligation('leanchecker re-check of ' + ','.join(modules), rc == 0, out[-400:])

    def model(self, exe, lines):
        """pipe request lines through a compiled driver; one answer per line"""
        if not lines:
            return []
        path = os.path.join(LEAN, '.lake', 'build', 'bin', exe)
        if not os.path.exists(path):
            raise InfraError('driver %s not built' % exe)
        p = subprocess.run([path], input='\n'.join(lines) + '\n', stdout=subprocess.PIPE,
                           stderr=subprocess.PIPE, text=True, timeout=3000)
        if p.returncode != 0:
            raise InfraError('driver %s failed: %s' % (exe, p.stderr[-2000:]))
        out = p.stdout.split('\n')
        if out and out[-1] == '':
            out.pop()
        if len(out) != len(lines):
            raise InfraError('driver %s answered %d lines for %d requests' % (exe, len(out), len(lines)))
        return out

    # ---------------------------------------------------------------- records
    def mark(self, s):
        """remember the request about to be put to the implementation: if native code takes the interpreter down,
        the supervising process (run.py) reports this request as the failing input"""
        if self._markfd is None:
            mf = os.environ.get('VERIF_MARKFILE')
            self._markfd = os.open(mf, os.O_WRONLY | os.O_CREAT, 0o644) if mf else -1
        if self._markfd >= 0:
            os.pwrite(self._markfd, str(s)[:4000].encode('utf-8', 'replace').ljust(4096, b'\x00'), 0)

    def obligation(self, name, ok, detail=''):
        self.obligations.append({'name': name, 'ok': bool(ok), 'detail': detail[:600]})

    def count(self, key, n=1):
        self.counters[key] = self.counters.get(key, 0) + n

    def case(self, key, nontrivial=True):
        """register one explored case (key = hashable canonical description)"""
        self.evaluations += 1
        if nontrivial:
            self.distinct.add(hashlib.md5(repr(key).encode()).hexdigest())

    def sample(self, s, limit=6):
        if len(self.samples) < limit:
            self.samples.append(s)

    def violation(self, key, what, replay, found_input):
        """key: stable identifier of *this* failing input/call site (matched against known_findings.json)"""
        self.violations.append({'key': key, 'what': what, 'replay': replay, 'found_input': bool(found_input)})

    def known_keys(self):
        return {f['key']: f for f in self.known.get('findings', []) if f.get('property') == self.pid and f.get('status', 'open') == 'open'}

    # ----------------------------------------------------------------- finish
    def finish(self):
        os.makedirs(EVID, exist_ok=True)
        os.makedirs(REPLAY, exist_ok=True)
        known = self.known_keys()
        unlisted = []
        lines = []
        seen_known = set()
        for v in self.violations:
            if v['key'] in known:
                if v['key'] not in seen_known:
                    seen_known.add(v['key'])
                    lines.append('KNOWN-FINDING: property=%s %s' % (self.pid, known[v['key']]['what']))
            else:
                unlisted.append(v)
        failed_obl = [o for o in self.obligations if not o['ok']]
        # a failed obligation without any violation record is still "not shown to hold"
        if failed_obl and not unlisted and not any(v['key'] in known and known[v['key']].get('covers_obligation') for v in self.violations):
            unlisted.append({'key': 'obligation', 'what': 'proof obligation(s) no longer check: ' + '; '.join(o['name'] for o in failed_obl[:5]),
                             'replay': {'failed_obligations': failed_obl}, 'found_input': False})
        # one report per distinct key (a key names the failing call site / stream)
        seen = set(); uniq = []
        for v in unlisted:
            if v['key'] not in seen:
                seen.add(v['key']); uniq.append(v)
        n_unlisted = len(unlisted)
        unlisted = uniq
        for i, v in enumerate(unlisted[:40]):
            path = os.path.join(REPLAY, '%s_%s_%d.json' % (self.pid, self.tier, i))
            with open(path, 'w') as fh:
                json.dump({'property': self.pid, 'seed': self.seed, 'tier': self.tier, 'key': v['key'], 'what': v['what'],
                           'found_failing_input': v['found_input'], 'replay': v['replay']}, fh, indent=1, default=str)
            lines.append('VIOLATION property=%s replay=%s%s' % (self.pid, path, '' if v['found_input'] else ' no-failing-input-found'))
        n_obl = len(self.obligations)
        n_ok = sum(1 for o in self.obligations if o['ok'])
        cov = {
            'obligations': max(n_obl, 0), 'discharged': n_ok,
            'checker_cmd': ' ; '.join(dict.fromkeys(self.checker_cmds)) or 'none',
            'trusted_base': self.trusted,
            'evaluations': self.evaluations, 'distinct_nontrivial': len(self.distinct),
            'rule': self.rule, 'samples': self.samples or ['(none)'],
            'obligation_list': self.obligations,
            'distribution': self.counters,
            'known_findings_reconfirmed': sorted(seen_known),
            'disagreements_checked': len(self.violations),
        }
        cov.update(self.extra)
        # the evidence schema knows the plain categories only; qualifiers such as "(partial)" go to coverage
        LEVELS = ('exploration', 'fault_enumeration', 'model_checking', 'proof', 'translation_validation', 'other')
        if self.level not in LEVELS:
            cov['level_qualifier'] = self.level
            self.level = next((l for l in LEVELS if str(self.level).startswith(l)), 'other')
        ev = {'property_id': self.pid, 'tier': self.tier, 'seed': self.seed, 'level': self.level,
              'coverage': cov, 'assumptions': self.assumptions, 'wall_s': round(time.time() - self.t0, 2),
              'violations': len(unlisted), 'notes': self.notes}
        with open(os.path.join(EVID, self.pid + '.json'), 'w') as fh:
            json.dump(ev, fh, indent=1, default=str)
        for l in lines:
            print(l)
        print('%s %s seed=%d: %d/%d obligations, %d cases (%d distinct), %d violation(s), %.1fs' % (
            self.pid, self.tier, self.seed, n_ok, n_obl, self.evaluations, len(self.distinct), len(unlisted), time.time() - self.t0))
        sys.stdout.flush()
        return 1 if unlisted else 0
