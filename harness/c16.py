"""
C16 — linear-operator building blocks equal their dense definitions (DESIGN.md §6/C16).

tie: hand-written Lean model (Pyiga.Model.LinAlg / Operators, driver drv_c16) vs pyiga.tensor /
     kronecker / operators / utils / solvers on the same generated operands; small integer data, so the
     double computation is exact and the diff is exact (shape and every entry).  Solver factories are
     parameters of the model: compared against the model's exact rational result within a bound derived
     from the condition number, and by residual.
theorems: Pyiga.Props.C16.*
search (model-free): numpy.kron / numpy.block dense definitions applied with `@`.
"""
import warnings
from fractions import Fraction
from functools import reduce

import numpy as np
import scipy.sparse as sp
import scipy.sparse.linalg as sla

from .common import plist, frac

THEOREMS = [
    'Pyiga.Props.C16.apply_tprod_spec', 'Pyiga.Props.C16.apply_tprod_shape', 'Pyiga.Props.C16.apply_tprod_kron_vec',
    'Pyiga.Props.C16.modek_sparse_eq_tensordot', 'Pyiga.Props.C16.kron_dense_spec',
    'Pyiga.Props.C16.kron_mixed_product', 'Pyiga.Props.C16.kron_inverse',
    'Pyiga.Props.C16.sizes_to_ranges_spec', 'Pyiga.Props.C16.block_spec',
    'Pyiga.Props.C16.block_transpose', 'Pyiga.Props.C16.block_transpose_wf',
    'Pyiga.Props.C16.kron_linops_spec', 'Pyiga.Props.C16.subspace_spec',
    'Pyiga.Props.C16.csr_row_slice', 'Pyiga.Props.C16.csr_row_slice_mat', 'Pyiga.Props.C16.csr_row_subset',
    'Pyiga.Props.C16.transpose_involutive', 'Pyiga.Props.C16.subspace_T_H_same',
    'Pyiga.Props.C16.fastdiag_abstract', 'Pyiga.Props.C16.fastdiag_1d', 'Pyiga.Props.C16.fastdiag_2d', 'Pyiga.Props.C16.fastdiag_3d',
]
MODULES = ['Pyiga.Model.Index', 'Pyiga.Model.LinAlg', 'Pyiga.Model.Operators', 'Pyiga.Proofs.Index',
           'Pyiga.Proofs.LinAlg', 'Pyiga.Proofs.Tprod', 'Pyiga.Proofs.KronDense', 'Pyiga.Proofs.Operators', 'Pyiga.Proofs.Blocks', 'Pyiga.Proofs.CsrSubspace', 'Pyiga.Proofs.Linops', 'Pyiga.Proofs.FastDiag', 'Pyiga.Props.C16']

KINDS = ['d', 'r', 'c', 'l']   # ndarray, csr, csc, LinearOperator


# ----------------------------------------------------------------------------- wire format
def fmt_tensor(a):
    a = np.asarray(a)
    return plist(a.shape) + ' ' + plist(a.ravel().tolist(), frac)


def fmt_op(kind, a):
    return '%s %d %d %s' % (kind, a.shape[0], a.shape[1], plist(a.ravel().tolist(), frac))


def fmt_oop(kind, a):
    return 'N' if a is None else fmt_op(kind, a)


def fmt_ops(kinds, mats):
    return plist(zip(kinds, mats), lambda p: fmt_op(*p))


def mk(kind, a):
    """the real operand of the given storage kind"""
    if a is None:
        return None
    a = np.array(a, dtype=float)
    if kind == 'd':
        return a
    if kind == 'r':
        return sp.csr_matrix(a)
    if kind == 'c':
        return sp.csc_matrix(a)
    return sla.aslinearoperator(a)


ERR = {AssertionError: 'err-AssertionError', ValueError: 'err-ValueError', IndexError: 'err-IndexError',
       TypeError: 'err-TypeError', AttributeError: 'err-TypeError'}


def errtok(ex):
    for k, v in ERR.items():
        if isinstance(ex, k):
            return v
    return 'err-' + type(ex).__name__


def rint(rng, shape, lo=-3, hi=4):
    return rng.integers(lo, hi, size=shape).astype(float)


def rand_x(rng, N, kind=None):
    """(N,), (N,1) or (N,m) right-hand side with small integer entries"""
    kind = kind if kind is not None else int(rng.integers(0, 3))
    if kind == 0:
        return rint(rng, (N,))
    if kind == 1:
        return rint(rng, (N, 1))
    return rint(rng, (N, int(rng.integers(2, 4))))


def rand_factors(rng, n, maxdim=3, square=False, kinds=KINDS):
    mats, ks = [], []
    for _ in range(n):
        m = int(rng.integers(1, maxdim + 1))
        c = m if square else int(rng.integers(1, maxdim + 1))
        a = rint(rng, (m, c))
        if rng.integers(0, 4) == 0:
            a = a * 2.0 ** int(rng.integers(-40, 41))       # power-of-two rescaling: all products and sums stay exact
        mats.append(a)
        ks.append(str(rng.choice(kinds)))
    return ks, mats


WORDS = ['N', 'N', 'N', 'T', 'H', 'TT', 'TH', 'HT', 'HH', 'TTT', 'TTH', 'THT', 'THH', 'HTT', 'HTH', 'HHT', 'HHH']


def rand_word(rng):
    """a word over {T, H} of length <= 3 applied left to right ('TH' = X.T.H); 'N' = no transposition"""
    return str(rng.choice(WORDS))


def apply_word(op, w):
    for ch in ('' if w == 'N' else w):
        op = op.T if ch == 'T' else op.H
    return op


def transposed(w):
    """real data: the operator is transposed iff the word has odd length"""
    return w != 'N' and len(w) % 2 == 1


LAYOUTS = ['F', 'Tview', 'strided', 'negstride']


def relayout(x, how):
    """an array with the same shape, dtype and values as `x` but another memory layout"""
    x = np.asarray(x)
    if how == 'F':
        return np.asfortranarray(x)
    if how == 'Tview':                                   # transposed view of a C-ordered array (F-contiguous, not owning its data)
        return np.ascontiguousarray(x.T).T
    if how == 'strided':                                 # every second entry of a larger buffer along every axis
        big = np.zeros(tuple(2 * n for n in x.shape), dtype=x.dtype)
        sl = tuple(slice(None, None, 2) for _ in x.shape)
        big[sl] = x
        return big[sl]
    sl = tuple(slice(None, None, -1) for _ in x.shape)   # negative strides along every axis
    return np.ascontiguousarray(x[sl])[sl]


def kron_all(mats):
    return reduce(np.kron, mats)


# ----------------------------------------------------------------------------- the run
def run(ctx):
    warnings.simplefilter('ignore')
    ctx.build_repo()
    from pyiga import tensor, kronecker, operators, utils, solvers
    ctx.require_lean(['Pyiga.Props.C16', 'drv_c16'])
    ctx.audit(['Pyiga.Props.C16'], THEOREMS, MODULES)
    if ctx.tier == 'thorough':
        ctx.leanchecker(MODULES)
    ctx.trusted += [
        'numpy primitives modelled by their documented index semantics: tensordot, rollaxis/moveaxis, C- and F-order reshape, '
        'ndarray.resize of a same-size buffer, fancy indexing with range objects, ndarray/sparse/LinearOperator .dot',
        'scipy.sparse.linalg.LinearOperator front end (SciPy 1.18 dot/matvec/matmat dispatch, default _matmat, _ProductLinearOperator)',
        'scipy.sparse._sparsetools.csr_matvec(s) modelled by the textbook CSR row loop',
        'modelled, not verified: cho_factor/lu_factor/splu/eigh (parameters with contract B*solve(x)=x resp. K U = M U diag(lam), U^T M U = 1; '
        'residuals and the contracts are checked numerically on every generated instance)',
        'dtype handling is not modelled (all operands float64 holding small integers; results compared as numbers)',
    ]
    ctx.rule = ('operands: 1-4 factors, independent shapes 1..3 (x 1..3), storage kinds ndarray/CSR/CSC/LinearOperator/None chosen '
                'independently, integer entries in [-3,3]; arguments (N,), (N,1), (N,m<=3), apply_tprod with 0-2 trailing axes; '
                'block layouts up to 3x3 blocks with None/NullOperator entries; subspace families of 1-3 prolongations; CSR row slices/subsets; '
                'all operators also transposed (.T) and adjoint (.H); malformed shapes -> expected error kind. '
                'non-trivial = at least 2 factors/blocks or a rectangular operand; distinct by the request line')
    rng = ctx.rng
    quick = ctx.tier == 'quick'
    req, exp, meta = [], [], []
    oracle_bad = []
    dtype_bad = []
    layout_bad = []

    def add(r, thunk, m, dense=None, x=None):
        """thunk calls the implementation; dense/x: the explicit matrix and argument for the model-free oracle"""
        try:
            y = np.asarray(thunk())
            e = fmt_tensor(y)
        except Exception as ex:   # noqa: a mutated /repo must not crash the harness
            y = None
            e = errtok(ex); ctx.count(e)
        req.append(r); exp.append(e); meta.append(m)
        ctx.case(r, nontrivial=m.get('nontrivial', True))
        ctx.count('stream=' + m['op'])
        if dense is not None:
            want = dense @ x
            if y is None or y.shape != want.shape or not np.array_equal(y, want):
                oracle_bad.append((m, r, e, fmt_tensor(want)))
            else:
                if rng.integers(0, 3) == 0:
                    dtype_probe(r, thunk, m, dense, x)
                if rng.integers(0, 2) == 0:
                    layout_probe(r, thunk, m, dense, x)
        return e

    def layout_probe(r, thunk, m, dense, x):
        """the same call with the argument held in another memory layout (Fortran order, transposed view, strided, negative strides)"""
        import inspect
        names = [nm for nm in ('x', 'x2', 'x1') if nm in inspect.signature(thunk).parameters]
        if not names:
            return
        how = LAYOUTS[int(rng.integers(0, len(LAYOUTS)))]
        xl = relayout(x, how)
        assert xl.shape == x.shape and np.array_equal(xl, x)
        want = dense @ x
        shp = '(N,)' if x.ndim == 1 else '(N,1)' if x.shape[1] == 1 else '(N,m)'
        ctx.count('layout probe=%s %s' % (how, shp)); ctx.case((r, 'layout', how), nontrivial=m.get('nontrivial', True))
        try:
            y = np.asarray(thunk(**{names[0]: xl}))
            ok = y.shape == want.shape and np.array_equal(y, want) and np.array_equal(xl, x)
            got = fmt_tensor(y)
        except Exception as ex:
            ok = False
            got = errtok(ex) + ': ' + str(ex)[:120]
        if not ok:
            layout_bad.append((m, r, how, shp, got, fmt_tensor(want)))

    DTYPES = [np.int64, np.int32, np.bool_, np.float32]

    def dtype_probe(r, thunk, m, dense, x):
        """the same call with the argument cast to an integer / bool / float32 dtype; oracle: the dense matrix in float64"""
        import inspect
        names = [nm for nm in ('x', 'x2', 'x1') if nm in inspect.signature(thunk).parameters]
        if not names:
            return
        dt = DTYPES[int(rng.integers(0, len(DTYPES)))]
        xc = x.astype(dt)
        xf = xc.astype(np.float64)
        want = dense @ xf
        ctx.count('dtype probe=' + np.dtype(dt).name); ctx.case((r, np.dtype(dt).name), nontrivial=m.get('nontrivial', True))
        # integer, bool and these float32 values are exactly representable; float32 arithmetic may round: derive the bound from its eps
        tol = 0.0 if dt is not np.float32 else 8.0 * (dense.shape[1] + 2) * float(np.finfo(np.float32).eps) * (np.abs(dense) @ np.abs(xf))
        try:
            y = np.asarray(thunk(**{names[0]: xc}))
            ok = y.shape == want.shape and bool(np.all(np.abs(y.astype(np.float64) - want) <= tol))
            got = fmt_tensor(y.astype(np.float64)) if y.dtype != object else 'object array'
        except Exception as ex:
            ok = False
            got = errtok(ex) + ': ' + str(ex)[:120]
        if not ok:
            dtype_bad.append((m, r, np.dtype(dt).name, got, fmt_tensor(want), xc.tolist()))

    # ---------------------------------------------------------------- apply_tprod
    ntp = 1400 if quick else 12000
    for _ in range(ntp):
        n = int(rng.choice([1, 2, 2, 3, 3, 4]))
        maxdim = 3 if n <= 3 else 2
        ks, mats = [], []
        for _k in range(n):
            m = int(rng.integers(1, maxdim + 1)); c = int(rng.integers(1, maxdim + 1))
            if rng.integers(0, 5) == 0:
                ks.append('N'); mats.append(None)
            else:
                ks.append(str(rng.choice(KINDS))); mats.append(rint(rng, (m, c)))
        nt = int(rng.choice([0, 0, 1, 1, 2]))
        trail = tuple(int(rng.integers(1, 4)) for _ in range(nt))
        lead = tuple(int(rng.integers(1, maxdim + 1)) if a is None else a.shape[1] for a in mats)
        bad = rng.integers(0, 25) == 0
        if bad:
            k = int(rng.integers(0, n))
            lead = lead[:k] + (lead[k] + 1,) + lead[k + 1:]
        A = rint(rng, lead + trail)
        ops = [mk(k, a) for k, a in zip(ks, mats)]
        dense = x = None
        if not bad:
            full = [np.eye(lead[i]) if a is None else a for i, a in enumerate(mats)]
            T = int(np.prod(trail)) if trail else 1
            dense = kron_all(full)
            x = A.reshape(int(np.prod(lead)), T)
            def thunk(ops=ops, A=A, T=T):
                Y = tensor.apply_tprod(ops, A)
                thunk.shape = Y.shape
                return Y
            r = 'tprod %s %s' % (plist(zip(ks, mats), lambda p: fmt_oop(*p)), fmt_tensor(A))
            e = add(r, thunk, {'op': 'tprod', 'n': n, 'kinds': ks, 'nontrivial': n >= 2})
            # oracle: result reshaped to (prod rows, T) equals kron @ vec
            try:
                Y = np.asarray(tensor.apply_tprod(ops, A))
                rows = tuple(f.shape[0] for f in full)
                if Y.shape != rows + trail or not np.array_equal(Y.reshape(-1, T), dense @ x):
                    oracle_bad.append(({'op': 'tprod', 'kinds': ks}, r, e, fmt_tensor((dense @ x).reshape(rows + trail))))
                elif rng.integers(0, 3) == 0:
                    dt = DTYPES[int(rng.integers(0, len(DTYPES)))]
                    Ac = A.astype(dt); Af = Ac.astype(np.float64)
                    ctx.count('dtype probe=' + np.dtype(dt).name)
                    wantc = (dense @ Af.reshape(int(np.prod(lead)), T)).reshape(rows + trail)
                    tolc = 0.0 if dt is not np.float32 else 8.0 * (dense.shape[1] + 2) * float(np.finfo(np.float32).eps) * (
                        np.abs(dense) @ np.abs(Af.reshape(int(np.prod(lead)), T))).reshape(rows + trail)
                    try:
                        Yc = np.asarray(tensor.apply_tprod(ops, Ac))
                        okc = Yc.shape == wantc.shape and bool(np.all(np.abs(Yc.astype(np.float64) - wantc) <= tolc))
                        gotc = fmt_tensor(Yc.astype(np.float64))
                    except Exception as ex:
                        okc = False; gotc = errtok(ex) + ': ' + str(ex)[:120]
                    if not okc:
                        dtype_bad.append(({'op': 'tprod', 'kinds': ks}, r, np.dtype(dt).name, gotc, fmt_tensor(wantc), Ac.tolist()))
                if rng.integers(0, 2) == 0 and Y.shape == rows + trail:
                    how = LAYOUTS[int(rng.integers(0, len(LAYOUTS)))]
                    Al = relayout(A, how)
                    ctx.count('layout probe=%s tensor' % how)
                    try:
                        Yl = np.asarray(tensor.apply_tprod(ops, Al))
                        okl = Yl.shape == Y.shape and np.array_equal(Yl, (dense @ x).reshape(rows + trail)) and np.array_equal(Al, A)
                        gotl = fmt_tensor(Yl)
                    except Exception as ex:
                        okl = False; gotl = errtok(ex) + ': ' + str(ex)[:120]
                    if not okl:
                        layout_bad.append(({'op': 'tprod', 'kinds': ks}, r, how, 'tensor', gotl, fmt_tensor((dense @ x).reshape(rows + trail))))
            except Exception as ex:
                oracle_bad.append(({'op': 'tprod', 'kinds': ks}, r, errtok(ex), 'no exception expected'))
        else:
            r = 'tprod %s %s' % (plist(zip(ks, mats), lambda p: fmt_oop(*p)), fmt_tensor(A))
            add(r, lambda ops=ops, A=A: tensor.apply_tprod(ops, A), {'op': 'tprod-bad', 'n': n, 'kinds': ks})
        ctx.count('tprod factors=%d' % n); ctx.count('tprod trailing=%d' % nt)
        for k in ks:
            ctx.count('factor kind=' + k)

    # ---------------------------------------------------------------- modek_tprod
    # mode index k in -ndim .. ndim-1 (negative indices count from the end, as everywhere in numpy); oracle: the explicit matrix
    # I (x) ... (x) B (x) ... (x) I applied to vec(X)
    nmk = 500 if quick else 5000
    for _ in range(nmk):
        nd = int(rng.integers(1, 5))
        shp = tuple(int(rng.integers(1, 4)) for _ in range(nd))
        kpos = int(rng.integers(0, nd))
        k = kpos - nd if rng.integers(0, 2) else kpos
        kind = str(rng.choice(KINDS))
        B = rint(rng, (int(rng.integers(1, 4)), shp[kpos]))
        if rng.integers(0, 4) == 0:
            B = B * 2.0 ** int(rng.integers(-40, 41))
        X = rint(rng, shp)
        # the model takes the normalised (non-negative) axis
        r = 'modek %s %d %s' % (fmt_op(kind, B), kpos, fmt_tensor(X))
        ctx.count('modek axis=' + ('negative' if k < 0 else 'non-negative')); ctx.count('modek ndim=%d' % nd)
        e = add(r, lambda B=B, kind=kind, k=k, X=X: tensor.modek_tprod(mk(kind, B), k, X), {'op': 'modek', 'kind': kind, 'k': k, 'ndim': nd})
        try:
            Y = np.asarray(tensor.modek_tprod(mk(kind, B), k, X))
            pre = int(np.prod(shp[:kpos])) if kpos > 0 else 1; post = int(np.prod(shp[kpos + 1:])) if kpos < nd - 1 else 1
            D = np.kron(np.kron(np.eye(pre), B), np.eye(post))
            want = (D @ X.ravel()).reshape(shp[:kpos] + (B.shape[0],) + shp[kpos + 1:])
            if Y.shape != want.shape or not np.array_equal(Y, want):
                oracle_bad.append(({'op': 'modek', 'kind': kind, 'k': k, 'ndim': nd, 'call': 'modek_tprod(B %s %s, k=%d, X shape %s)' % (kind, B.shape, k, shp)}, r, e, fmt_tensor(want)))
        except Exception as ex:
            oracle_bad.append(({'op': 'modek', 'kind': kind, 'k': k, 'ndim': nd}, r, errtok(ex), 'no exception expected'))

    # ---------------------------------------------------------------- Kronecker application routines
    nkr = 1200 if quick else 10000
    for _ in range(nkr):
        n = int(rng.choice([1, 2, 2, 3, 3, 4]))
        maxdim = 3 if n <= 3 else 2
        which = str(rng.choice(['krond', 'kronl', 'kron', 'kronop', 'kronop', 'kronop']))
        if which == 'krond':
            ks, mats = rand_factors(rng, n, maxdim)
        elif which == 'kronl':
            ks, mats = rand_factors(rng, n, maxdim, square=True)
        elif which == 'kron':
            if rng.integers(0, 2) == 0:
                ks, mats = rand_factors(rng, n, maxdim, kinds=['d'])
            else:
                ks, mats = rand_factors(rng, n, maxdim, square=True)
        else:
            ks, mats = rand_factors(rng, n, maxdim, square=bool(rng.integers(0, 2)))
        K = kron_all(mats)
        flag = 'N'
        if which == 'kronop':
            flag = rand_word(rng)
        D = K.T if transposed(flag) else K
        x = rand_x(rng, D.shape[1])
        bad = rng.integers(0, 30) == 0
        if bad:
            x = rand_x(rng, D.shape[1] + 1)
        ops = [mk(k, a) for k, a in zip(ks, mats)]
        if which == 'krond':
            f = lambda ops=ops, x=x: kronecker._apply_kronecker_dense(ops, x)
            r = 'krond %s %s' % (fmt_ops(ks, mats), fmt_tensor(x))
        elif which == 'kronl':
            f = lambda ops=ops, x=x: kronecker._apply_kronecker_linops(ops, x)
            r = 'kronl %s %s' % (fmt_ops(ks, mats), fmt_tensor(x))
        elif which == 'kron':
            f = lambda ops=ops, x=x: kronecker.apply_kronecker(ops, x)
            # apply_kronecker wraps every non-dense tuple with aslinearoperator: kinds become 'l'
            ks2 = ks if all(k == 'd' for k in ks) else ['l'] * n
            r = 'kron %s %s' % (fmt_ops(ks2, mats), fmt_tensor(x))
        else:
            def f(ops=ops, x=x, flag=flag):
                Kop = operators.KroneckerOperator(*ops)
                return apply_word(Kop, flag).dot(x)
            r = 'kronop %s %s %s' % (flag, fmt_ops(ks, mats), fmt_tensor(x))
        add(r, f, {'op': which + ('-bad' if bad else ''), 'n': n, 'kinds': ks, 'flag': flag, 'nontrivial': n >= 2},
            dense=None if bad else D, x=None if bad else x)
        ctx.count('kron factors=%d' % n)
        ctx.count('x shape kind=%s' % ('(N,)' if x.ndim == 1 else '(N,1)' if x.shape[1] == 1 else '(N,m)'))
        sq = all(a.shape[0] == a.shape[1] for a in mats)
        if which == 'kronop':
            ctx.count('dispatch=' + ('dense' if all(k == 'd' for k in ks) or not sq else 'linops'))

    # ---------------------------------------------------------------- zero-size factors (direct oracle)
    # apply_tprod_spec / kron_dot are statements about all shapes, including factors with an empty dimension (a 3x0
    # restriction, an empty patch): the dense Kronecker matrix then has an empty dimension and the product is the zero
    # vector / the empty vector.  The line protocol has no token for an empty matrix, so these are decided directly.
    nzs = 0
    for _ in range(250 if quick else 2500):
        n = int(rng.integers(1, 4))
        shapes = [(int(rng.integers(0, 3)), int(rng.integers(0, 3))) for _k in range(n)]
        if all(min(s_) > 0 for s_ in shapes):
            continue
        zmats = [rint(rng, s_) for s_ in shapes]
        zks = [str(rng.choice(KINDS)) for _k in range(n)]
        Kz = kron_all(zmats)
        xz = rint(rng, (Kz.shape[1],))
        Az = xz.reshape([s_[1] for s_ in shapes])
        want = Kz @ xz
        nzs += 1
        for nm, fz in (('apply_tprod', lambda: tensor.apply_tprod([mk(k, a) for k, a in zip(zks, zmats)], Az)),
                       ('KroneckerOperator.dot', lambda: operators.KroneckerOperator(*[mk(k, a) for k, a in zip(zks, zmats)]).dot(xz))):
            rep = {'routine': nm, 'kinds': zks, 'shapes': [list(s_) for s_ in shapes], 'mats': [a.tolist() for a in zmats], 'x': xz.tolist()}
            try:
                yz = np.asarray(fz()).reshape(-1)
                if yz.shape != want.shape or not np.array_equal(yz, want):
                    ctx.violation('zero-size:' + nm, '%s with a zero-size factor (shapes %s, kinds %s) returns shape %s, the dense Kronecker product gives %s'
                                  % (nm, shapes, zks, yz.shape, want.tolist()), rep, True)
            except Exception as ex:
                ctx.violation('zero-size:' + nm, '%s with a zero-size factor (shapes %s, kinds %s) raised %s where the dense Kronecker product gives %s'
                              % (nm, shapes, zks, type(ex).__name__, want.tolist()), dict(rep, error=str(ex)[:200]), True)
    ctx.count('zero-size factor cases', nzs)

    # ---------------------------------------------------------------- block operators
    nbl = 900 if quick else 8000
    for _ in range(nbl):
        which = str(rng.choice(['bdiag', 'block', 'block', 'base']))
        flag = rand_word(rng)
        if which == 'bdiag':
            n = int(rng.integers(1, 4))
            ks, mats = rand_factors(rng, n, 3)
            D = np.zeros((sum(a.shape[0] for a in mats), sum(a.shape[1] for a in mats)))
            i = j = 0
            for a in mats:
                D[i:i + a.shape[0], j:j + a.shape[1]] = a; i += a.shape[0]; j += a.shape[1]
            ops = [mk(k, a) for k, a in zip(ks, mats)]
            mkop = lambda ops=ops: operators.BlockDiagonalOperator(*ops)
            r0 = 'bdiag %s %s' % (flag, fmt_ops(ks, mats))
        elif which == 'block':
            Mb, Nb = int(rng.integers(1, 4)), int(rng.integers(1, 4))
            hs = [int(rng.integers(1, 4)) for _ in range(Mb)]
            ws = [int(rng.integers(1, 4)) for _ in range(Nb)]
            rows, toks, dense_rows = [], [], []
            none_first = False
            for i in range(Mb):
                row, tk, dr = [], [], []
                for j in range(Nb):
                    c = int(rng.integers(0, 8))
                    if c == 0 and (i > 0 and j > 0 or rng.integers(0, 6) == 0):
                        row.append(None); tk.append('-'); dr.append(np.zeros((hs[i], ws[j])))
                        none_first = none_first or i == 0 or j == 0
                    elif c in (1, 2):
                        row.append(operators.NullOperator((hs[i], ws[j]))); tk.append('z %d %d' % (hs[i], ws[j]))
                        dr.append(np.zeros((hs[i], ws[j])))
                    else:
                        a = rint(rng, (hs[i], ws[j])); k = str(rng.choice(KINDS))
                        row.append(mk(k, a)); tk.append(fmt_op(k, a)); dr.append(a)
                rows.append(row); toks.append(plist(tk)); dense_rows.append(dr)
            D = np.block(dense_rows)
            mkop = lambda rows=rows: operators.BlockOperator(rows)
            r0 = 'block %s %s' % (flag, plist(toks))
            if none_first:
                D = None
        else:
            # BaseBlockOperator with arbitrary (possibly overlapping) ranges: internal constructor
            M, N = int(rng.integers(1, 6)), int(rng.integers(1, 6))
            n = int(rng.integers(1, 4))
            ks, mats, ro, ri = [], [], [], []
            D = np.zeros((M, N))
            for _k in range(n):
                a0 = int(rng.integers(0, M)); a1 = int(rng.integers(a0 + 1, M + 1))
                b0 = int(rng.integers(0, N)); b1 = int(rng.integers(b0 + 1, N + 1))
                a = rint(rng, (a1 - a0, b1 - b0))
                D[a0:a1, b0:b1] += a
                ks.append(str(rng.choice(KINDS))); mats.append(a); ro.append((a0, a1)); ri.append((b0, b1))
            ops = tuple(mk(k, a) for k, a in zip(ks, mats))
            mkop = lambda M=M, N=N, ops=ops, ro=ro, ri=ri: operators.BaseBlockOperator(
                (M, N), ops, [range(*t) for t in ro], [range(*t) for t in ri])
            r0 = 'base %s %d %d %s %s %s' % (flag, M, N, fmt_ops(ks, mats), plist(ro, lambda t: '%d %d' % t),
                                             plist(ri, lambda t: '%d %d' % t))
        if D is not None:
            Df = D.T if transposed(flag) else D
            x = rand_x(rng, Df.shape[1])
        else:
            Df = None
            x = rand_x(rng, sum(hs) if transposed(flag) else sum(ws))
        def f(mkop=mkop, flag=flag, x=x):
            B = mkop()
            return apply_word(B, flag).dot(x)
        add('%s %s' % (r0, fmt_tensor(x)), f, {'op': which, 'flag': flag}, dense=Df, x=x if Df is not None else None)

    # ---------------------------------------------------------------- diagonal / identity / null
    for _ in range(150 if quick else 1500):
        n = int(rng.integers(1, 6))
        x = rand_x(rng, n)
        d = rint(rng, (n,))
        add('diag %s %s' % (plist(d.tolist(), frac), fmt_tensor(x)), lambda d=d, x=x: operators.DiagonalOperator(d).dot(x),
            {'op': 'diag', 'nontrivial': n > 1, 'key': 'diagonal-size-1' if n == 1 else None}, dense=np.diag(d), x=x)
        w = rand_word(rng)
        add('diag %s %s' % (plist(d.tolist(), frac), fmt_tensor(x)),
            lambda d=d, x=x, w=w: apply_word(operators.DiagonalOperator(d[None, :]), w).dot(x),
            {'op': 'diag.word', 'word': w, 'nontrivial': n > 1, 'key': 'diagonal-size-1' if n == 1 else None}, dense=np.diag(d), x=x)
        w = rand_word(rng)
        add('ident %d %s' % (n, fmt_tensor(x)), lambda n=n, x=x, w=w: apply_word(operators.IdentityOperator(n), w).dot(x),
            {'op': 'ident', 'word': w, 'nontrivial': False}, dense=np.eye(n), x=x)
        m = int(rng.integers(1, 5))
        w = rand_word(rng)
        t = transposed(w)
        x2 = rand_x(rng, m if t else n)
        add('null %d %d %s' % (((n, m) if t else (m, n)) + (fmt_tensor(x2),)),
            lambda m=m, n=n, w=w, x2=x2: apply_word(operators.NullOperator((m, n)), w).dot(x2),
            {'op': 'null', 'word': w, 'nontrivial': False}, dense=np.zeros((n, m) if t else (m, n)), x=x2)

    # ---------------------------------------------------------------- SubspaceOperator
    for _ in range(300 if quick else 3000):
        n = int(rng.integers(1, 6)); k = int(rng.integers(1, 4))
        Ps, Bs, pk, bk = [], [], [], []
        for _j in range(k):
            nj = int(rng.integers(1, 4))
            Ps.append(rint(rng, (n, nj), -2, 3)); Bs.append(rint(rng, (nj, nj)))
            pk.append(str(rng.choice(['d', 'r', 'c']))); bk.append(str(rng.choice(KINDS)))
        flag = rand_word(rng)
        D = sum(P @ (B.T if transposed(flag) else B) @ P.T for P, B in zip(Ps, Bs))
        x = rand_x(rng, n)
        def f(Ps=Ps, Bs=Bs, pk=pk, bk=bk, flag=flag, x=x):
            S = operators.SubspaceOperator([mk(a, P) for a, P in zip(pk, Ps)], [mk(a, B) for a, B in zip(bk, Bs)])
            return apply_word(S, flag).dot(x)
        add('subsp %s %s %s %s' % (flag, fmt_ops(pk, Ps), fmt_ops(bk, Bs), fmt_tensor(x)), f,
            {'op': 'subspace', 'flag': flag, 'nontrivial': k >= 2}, dense=D, x=x)

    # ---------------------------------------------------------------- CSRRowSlice / CSRRowSubset
    for _ in range(300 if quick else 3000):
        m, n = int(rng.integers(1, 7)), int(rng.integers(1, 6))
        A = rint(rng, (m, n)) * (rng.random((m, n)) < 0.6)
        S = sp.csr_matrix(A)
        head = '%d %d %s %s %s' % (m, n, plist(S.indptr.tolist()), plist(S.indices.tolist()), plist(S.data.tolist(), frac))
        a = int(rng.integers(0, m + 1)); b = int(rng.integers(a, m + 1))
        x = rand_x(rng, n)
        add('csrs %s %d %d %s' % (head, a, b, fmt_tensor(x)), lambda S=S, a=a, b=b, x=x: utils.CSRRowSlice(S, (a, b)).dot(x),
            {'op': 'csr-slice', 'nontrivial': b - a >= 2}, dense=A[a:b], x=x)
        rows = [int(r) for r in rng.integers(0, m, size=int(rng.integers(0, m + 2)))]
        x1 = rint(rng, (n,))
        add('csrr %s %s %s' % (head, plist(rows), fmt_tensor(x1)), lambda S=S, rows=rows, x1=x1: utils.CSRRowSubset(S, rows).dot(x1),
            {'op': 'csr-subset', 'nontrivial': len(rows) >= 2}, dense=A[rows].reshape(len(rows), n), x=x1)

    # ---------------------------------------------------------------- model diff
    got = ctx.model('drv_c16', req)
    ndis = 0
    seen_keys = set()
    for r, e, g, m in zip(req, exp, got, meta):
        if e != g:
            ndis += 1
            if ('c', m['op']) in seen_keys:
                continue
            seen_keys.add(('c', m['op']))
            orc = [o for o in oracle_bad if o[1] == r]
            found = orc[0][3] if orc else None
            ctx.violation('op-corr:' + m['op'], 'model and implementation disagree on `%s`%s' % (
                m['op'], ': the implementation also differs from the dense definition' if orc else ''),
                {'request': r[:3000], 'implementation': e[:2000], 'model': g[:2000], 'dense_definition': found,
                 'stream': 'op (drv_c16)', 'meta': m, 'theorems': THEOREMS}, bool(orc))
    ctx.obligation('correspondence stream op: %d requests, model == implementation' % len(req), ndis == 0, '%d disagreements' % ndis)
    for (m, r, e, want) in oracle_bad:
        if ('o', m.get('key') or m['op']) in seen_keys:
            continue
        seen_keys.add(('o', m.get('key') or m['op']))
        ctx.violation(m.get('key') or 'op-oracle:' + m['op'], '%s differs from its dense definition (numpy.kron / numpy.block)' % m['op'],
                      {'request': r[:3000], 'implementation': e[:2000], 'dense_definition': want[:2000], 'meta': m}, True)
    known = ctx.known_keys()
    nunk = sum(1 for (m, r, e, want) in oracle_bad if (m.get('key') or 'op-oracle:' + m['op']) not in known)
    ctx.obligation('dense-definition oracle on every generated case (known findings excluded)', nunk == 0,
                   '%d failures, %d of them listed known findings' % (len(oracle_bad), len(oracle_bad) - nunk))
    ctx.extra['requests'] = len(req)
    seen_dt = set()
    for (m, r, dt, got, want, xc) in dtype_bad:
        if m['op'] in seen_dt:
            continue
        seen_dt.add(m['op'])
        ctx.violation('dtype:' + m['op'], '%s applied to a %s argument differs from the dense definition (float64)' % (m['op'], dt),
                      {'request_float64': r[:2500], 'argument_dtype': dt, 'argument': xc, 'implementation': got[:1500], 'dense_definition': want[:1500], 'meta': m}, True)
    ctx.obligation('argument dtypes int64/int32/bool/float32: %d probes equal the float64 dense definition' % sum(
        v for k, v in ctx.counters.items() if k.startswith('dtype probe=')), not dtype_bad, '%d failures' % len(dtype_bad))

    seen_lay = set()
    for (m, r, how, shp, got, want) in layout_bad:
        if m['op'] in seen_lay:
            continue
        seen_lay.add(m['op'])
        ctx.violation('layout:' + m['op'], '%s applied to a %s argument in %s memory layout differs from the result for the C-ordered argument / the dense definition' % (
            m['op'], shp, {'F': 'Fortran-contiguous', 'Tview': 'transposed-view (F-contiguous)', 'strided': 'strided', 'negstride': 'negative-stride'}[how]),
            {'request_C_order': r[:2500], 'argument_layout': how, 'argument_shape_kind': shp, 'implementation': got[:1500], 'dense_definition': want[:1500], 'meta': m}, True)
    ctx.obligation('argument memory layouts F/transposed view/strided/negative strides: %d probes equal the dense definition' % sum(
        v for k, v in ctx.counters.items() if k.startswith('layout probe=')), not layout_bad, '%d failures' % len(layout_bad))

    adjoints(ctx, operators, rng)
    history_stream(ctx, operators, solvers, rng)
    solver_streams(ctx, operators, solvers, rng)
    ctx.assumptions += ['operands are float64 arrays holding small integers (dtype handling, e.g. the float64 result of BaseBlockOperator '
                        'for integer blocks and complex blocks, is outside the model; the property quantifies over real dtypes)',
                        '_apply_kronecker_linops / apply_kronecker with non-ndarray factors: square factors only (documented precondition)',
                        'BlockOperator with None in the first row or column raises AttributeError (documented placeholder is NullOperator): expected error kind']


# ----------------------------------------------------------------------------- adjoints
def adjoints(ctx, operators, rng):
    """`.H` of every operator class must act as the transposed dense matrix (real data)."""
    A = rint(rng, (2, 3)); B = rint(rng, (3, 2)); S = rint(rng, (2, 2))
    x6 = rint(rng, (6,)); x5 = rint(rng, (5,))
    P = [rint(rng, (4, 2)), rint(rng, (4, 2))]
    cases = []
    for kind in KINDS:
        cases.append(('KroneckerOperator', kind, lambda kind=kind: operators.KroneckerOperator(mk(kind, A), mk(kind, B)).H.dot(x6),
                      np.kron(A, B).T @ x6))
        D = np.zeros((5, 5)); D[:2, :3] = A; D[2:, 3:] = B
        cases.append(('BaseBlockOperator', kind, lambda kind=kind: operators.BlockDiagonalOperator(mk(kind, A), mk(kind, B)).H.dot(x5),
                      D.T @ x5))
    d = rint(rng, (5,))
    cases.append(('DiagonalOperator', 'd', lambda: operators.DiagonalOperator(d).H.dot(x5), d * x5))
    cases.append(('IdentityOperator', 'd', lambda: operators.IdentityOperator(5).H.dot(x5), x5))
    cases.append(('NullOperator', 'd', lambda: operators.NullOperator((6, 5)).H.dot(x6), np.zeros(5)))
    x4 = rint(rng, (4,))
    cases.append(('SubspaceOperator', 'd', lambda: operators.SubspaceOperator(P, [S, S.T]).H.dot(x4),
                  sum(p @ b.T @ p.T for p, b in zip(P, [S, S.T])) @ x4))
    nok = 0
    for cls, kind, f, want in cases:
        ctx.case(('adjoint', cls, kind)); ctx.count('stream=adjoint')
        try:
            y = np.asarray(f())
            ok = y.shape == want.shape and np.array_equal(y, want)
            what = 'wrong values'
        except Exception as ex:
            ok = False
            what = 'raises %s: %s' % (type(ex).__name__, str(ex)[:120])
        if ok:
            nok += 1
        else:
            skind = {'d': 'ndarray', 'r': 'csr_matrix', 'c': 'csc_matrix', 'l': 'LinearOperator'}[kind]
            ctx.violation('adjoint:%s' % cls, '%s(...).H.dot(x) with %s operands %s (expected: the transposed dense matrix times x)' % (cls, skind, what),
                          {'class': cls, 'operand_kind': skind, 'observed': what, 'expected': want.tolist()}, True)
    ctx.extra['adjoint_cases'] = len(cases); ctx.extra['adjoint_ok'] = nok


# ----------------------------------------------------------------------------- call histories / aliasing
def history_stream(ctx, operators, solvers, rng):
    """per operator OBJECT: y1 = A x1 (kept), y2 = A x2; y1 must be unchanged, both equal the dense definition; z = A (A x) for
    square operators; results must not share memory with each other (nor with the input, except IdentityOperator, which returns
    its argument by design)."""
    quick = ctx.tier == 'quick'
    nbad = 0

    def build():
        which = str(rng.choice(['kron', 'kron', 'bdiag', 'block', 'base', 'diag', 'ident', 'null', 'subspace', 'solver', 'ksolver', 'fastdiag']))
        sq = bool(rng.integers(0, 2))
        if which == 'kron':
            n = int(rng.integers(1, 4))
            ks, mats = rand_factors(rng, n, 3 if n < 3 else 2, square=sq)
            return which, operators.KroneckerOperator(*[mk(k, a) for k, a in zip(ks, mats)]), kron_all(mats), {'kinds': ks, 'mats': [a.tolist() for a in mats]}, 0.0
        if which in ('bdiag', 'block', 'base'):
            n = int(rng.integers(1, 4))
            ks, mats = rand_factors(rng, n, 3, square=sq)
            D = np.zeros((sum(a.shape[0] for a in mats), sum(a.shape[1] for a in mats)))
            i = j = 0
            ro, ri = [], []
            for a in mats:
                D[i:i + a.shape[0], j:j + a.shape[1]] = a
                ro.append((i, i + a.shape[0])); ri.append((j, j + a.shape[1]))
                i += a.shape[0]; j += a.shape[1]
            ops = [mk(k, a) for k, a in zip(ks, mats)]
            if which == 'bdiag':
                A = operators.BlockDiagonalOperator(*ops)
            elif which == 'block':
                rows = [[ops[c] if c == r else (None if (r > 0 and c > 0 and rng.integers(0, 2)) else operators.NullOperator((mats[r].shape[0], mats[c].shape[1])))
                         for c in range(n)] for r in range(n)]
                A = operators.BlockOperator(rows)
            else:
                A = operators.BaseBlockOperator(D.shape, tuple(ops), [range(*t) for t in ro], [range(*t) for t in ri])
            return which, A, D, {'kinds': ks, 'mats': [a.tolist() for a in mats]}, 0.0
        if which == 'diag':
            d = rint(rng, (int(rng.integers(1, 6)),))
            return which, operators.DiagonalOperator(d), np.diag(d), {'diag': d.tolist()}, 0.0
        if which == 'ident':
            n = int(rng.integers(1, 6))
            return which, operators.IdentityOperator(n), np.eye(n), {'n': n}, 0.0
        if which == 'null':
            m, n = int(rng.integers(1, 5)), int(rng.integers(1, 5))
            if sq:
                m = n
            return which, operators.NullOperator((m, n)), np.zeros((m, n)), {'shape': [m, n]}, 0.0
        if which == 'subspace':
            n = int(rng.integers(1, 6)); k = int(rng.integers(1, 4))
            Ps = [rint(rng, (n, int(rng.integers(1, 4))), -2, 3) for _ in range(k)]
            Bs = [rint(rng, (P.shape[1], P.shape[1])) for P in Ps]
            D = sum(P @ B @ P.T for P, B in zip(Ps, Bs))
            return which, operators.SubspaceOperator([mk(str(rng.choice(['d', 'r'])), P) for P in Ps], [mk(str(rng.choice(KINDS)), B) for B in Bs]), D, \
                {'Ps': [P.tolist() for P in Ps], 'Bs': [B.tolist() for B in Bs]}, 0.0
        # solvers: tolerance from the conditioning
        n = 1 if which == 'solver' else int(rng.integers(2, 4))
        Bs = []
        cond = 1.0
        for _k in range(n):
            d = int(rng.integers(1, 4))
            while True:
                B = rint(rng, (d, d)) + 4 * np.eye(d) if rng.integers(0, 2) else spd_int(rng, d)
                nn = exact_inv_norms(B)
                if nn is not None:
                    break
            cond *= nn[0] * nn[1]
            Bs.append(B)
        if which == 'fastdiag':
            KM = [(spd_int(rng, B.shape[0]) + B + B.T, spd_int(rng, B.shape[0])) for B in Bs]
            terms = [reduce(np.kron, [KM[j][0] if j == d else KM[j][1] for j in range(n)]) for d in range(n)]
            Am = sum(terms)
            Dm = np.linalg.inv(Am)
            return which, solvers.fastdiag_solver(KM), Dm, {'KM': [(a.tolist(), b.tolist()) for a, b in KM]}, \
                1024.0 * Am.shape[0] * 2.0 ** -53 * float(np.linalg.cond(Am))
        K = reduce(np.kron, Bs)
        ks = [str(rng.choice(['d', 'r', 'c'])) for _ in Bs]
        mats = [mk(k, B) for k, B in zip(ks, Bs)]
        A = operators.make_solver(mats[0]) if which == 'solver' else operators.make_kronecker_solver(*mats)
        return which, A, np.linalg.inv(K), {'Bs': [B.tolist() for B in Bs], 'kinds': ks}, 256.0 * K.shape[0] * 2.0 ** -53 * cond

    for _ in range(500 if quick else 5000):
        try:
            which, A, D, desc, rel = build()
        except Exception as ex:
            ctx.violation('history-build', 'operator construction raised %s: %s' % (type(ex).__name__, str(ex)[:120]), {}, True)
            continue
        word = str(rng.choice(['N', 'N', 'T'])) if which not in ('solver', 'ksolver', 'fastdiag') else 'N'
        if word == 'T':
            A = A.T; D = D.T
        kind = int(rng.integers(0, 3))
        x1 = rand_x(rng, D.shape[1], kind); x2 = rand_x(rng, D.shape[1], kind)
        if x2.shape != x1.shape:
            x2 = rint(rng, x1.shape)
        ctx.case(('history', which, word, D.tobytes(), x1.tobytes(), x2.tobytes())); ctx.count('stream=history'); ctx.count('history class=' + which)
        replay = dict(desc, operator=which, word=word, x1=x1.tolist(), x2=x2.tolist())

        def close(y, want):
            y = np.asarray(y)
            t = rel * max(1.0, float(np.abs(want).max())) * max(1.0, float(np.abs(D).sum(1).max()))
            return y.shape == want.shape and bool(np.all(np.abs(y - want) <= t))
        try:
            x1c, x2c = x1.copy(), x2.copy()
            y1 = A.dot(x1)
            y1c = np.array(y1, copy=True)
            y2 = A.dot(x2)
            bad = None
            if not close(y1c, D @ x1):
                bad = 'first application differs from the dense definition'
            elif not close(y2, D @ x2):
                bad = 'second application differs from the dense definition'
            elif not np.array_equal(np.asarray(y1), y1c):
                bad = 'the result of the first application changed when the operator was applied again (A x1 became %s)' % np.asarray(y1).ravel().tolist()[:8]
            elif not (np.array_equal(x1, x1c) and np.array_equal(x2, x2c)):
                bad = 'the operator modified its argument'
            if bad is None and D.shape[0] == D.shape[1]:
                xs = x1.copy()
                z = A.dot(A.dot(xs))
                want2 = D @ (D @ x1)
                t2 = rel * 4 * max(1.0, float(np.abs(want2).max())) * max(1.0, float(np.abs(D).sum(1).max())) ** 2
                if np.asarray(z).shape != want2.shape or not np.all(np.abs(np.asarray(z) - want2) <= t2):
                    bad = 'A(A x) differs from D(D x): %s vs %s' % (np.asarray(z).ravel().tolist()[:8], want2.ravel().tolist()[:8])
                else:
                    w = A.dot(x1)                       # apply the operator to its own output object
                    w2 = A.dot(w)
                    if not np.all(np.abs(np.asarray(w2) - want2) <= t2) or not close(w, D @ x1):
                        bad = 'applying the operator to its own output gives %s, expected %s' % (np.asarray(w2).ravel().tolist()[:8], want2.ravel().tolist()[:8])
            if bad is not None:
                nbad += 1
                ctx.violation('history:' + which, '%s object applied repeatedly: %s' % (which, bad), replay, True)
                continue
            if np.shares_memory(np.asarray(y1), np.asarray(y2)):
                nbad += 1
                ctx.violation('alias:' + which, '%s: the results of two applications share memory' % which, replay, True)
            elif which != 'ident' and (np.shares_memory(np.asarray(y1), x1) or np.shares_memory(np.asarray(y2), x2)):
                nbad += 1
                ctx.violation('alias:' + which, '%s: the result shares memory with the argument' % which, replay, True)
        except Exception as ex:
            nbad += 1
            ctx.violation('history:' + which, '%s object applied repeatedly raised %s: %s' % (which, type(ex).__name__, str(ex)[:120]), replay, True)
    ctx.obligation('call histories: results of repeated applications stay intact, equal the dense definition and do not alias', nbad == 0, '%d failures' % nbad)


# ----------------------------------------------------------------------------- solver factories
def spd_int(rng, n):
    G = rng.integers(-2, 3, size=(n, n)).astype(float)
    return G @ G.T + n * np.eye(n)


def exact_inverse(B):
    """exact inverse (lists of Fractions) of the matrix of doubles B by Gauss-Jordan elimination, or None if singular"""
    n = B.shape[0]
    a = [[Fraction(float(v)) for v in row] + [Fraction(int(i == j)) for j in range(n)] for i, row in enumerate(np.asarray(B, dtype=float).tolist())]
    for c in range(n):
        p = next((r for r in range(c, n) if a[r][c] != 0), None)
        if p is None:
            return None
        a[c], a[p] = a[p], a[c]
        pv = a[c][c]
        a[c] = [v / pv for v in a[c]]
        for r in range(n):
            if r != c and a[r][c] != 0:
                f = a[r][c]
                a[r] = [v - f * w for v, w in zip(a[r], a[c])]
    return [row[n:] for row in a]


def exact_inv_norms(B):
    """(||B||_inf, ||B^-1||_inf) with the inverse computed exactly over Fraction"""
    inv = exact_inverse(B)
    if inv is None:
        return None
    ninv = max(sum(abs(v) for v in row) for row in inv)
    return float(np.abs(B).sum(1).max()), float(ninv)


def solver_streams(ctx, operators, solvers, rng):
    quick = ctx.tier == 'quick'
    eps = 2.0 ** -53
    req, impl, tol, meta = [], [], [], []
    nres_bad = 0
    # make_solver / make_kronecker_solver: C-ordered, F-ordered and strided / transposed-view inputs, the SAME array object
    # used for several solver constructions; every solver's residual is checked and the inputs must stay bitwise unchanged
    def layout(B, how):
        if how == 'C':
            return np.ascontiguousarray(B)
        if how == 'F':
            return np.asfortranarray(B)
        if how == 'Tview':                      # transposed view of a C-ordered array (F-contiguous, does not own its data)
            return np.ascontiguousarray(B.T).T
        big = np.zeros((2 * B.shape[0], 2 * B.shape[1]))     # strided view
        big[::2, ::2] = B
        return big[::2, ::2]

    def check_solver(op, Kd, x, what, replay, cond):
        nonlocal nres_bad
        try:
            y = np.asarray(op.dot(x))
        except Exception as ex:
            ctx.violation('ksolve-raise', '%s.dot(x) raised %s' % (what, type(ex).__name__), dict(replay, error=str(ex)[:300]), True)
            return None
        N = Kd.shape[0]
        # residual of a backward-stable (Kronecker product of) solve: |B y - x| <= c * eps * cond(B) * |x|  -- in units of x, invariant
        # under rescaling of B
        bound = 256.0 * N * eps * cond * max(1.0, float(np.abs(x).max()))
        res = np.abs(Kd @ y - x).max() if y.shape == x.shape else np.inf
        if not res <= bound:
            nres_bad += 1
            ctx.violation('ksolve-residual', '%s: residual |B y - x| = %g exceeds the conditioning bound %g' % (what, res, bound),
                          dict(replay, y=np.asarray(y).tolist()), True)
        elif rng.integers(0, 3) == 0:
            # the same right-hand side given with an integer / bool / float32 dtype
            dt = [np.int64, np.int32, np.bool_, np.float32][int(rng.integers(0, 4))]
            xc = x.astype(dt); xf = xc.astype(np.float64)
            ctx.count('solver dtype probe=' + np.dtype(dt).name)
            b2 = bound if dt is not np.float32 else bound + 256.0 * N * float(np.finfo(np.float32).eps) * cond * max(1.0, float(np.abs(xf).max()))
            try:
                yc = np.asarray(op.dot(xc)).astype(np.float64)
                r2 = np.abs(Kd @ yc - xf).max() if yc.shape == xf.shape else np.inf
            except Exception as ex:
                r2 = np.inf; yc = errtok(ex)
            if not r2 <= b2:
                nres_bad += 1
                ctx.violation('dtype:solver', '%s applied to a %s right-hand side: residual %g exceeds the bound %g' % (what, np.dtype(dt).name, r2, b2),
                              dict(replay, argument_dtype=np.dtype(dt).name, argument=xc.tolist(), y=yc.tolist() if hasattr(yc, 'tolist') else yc), True)
        if res <= bound and rng.integers(0, 2) == 0:
            # the same right-hand side in another memory layout; and the solver's own output fed back through the operator's matrix
            how = LAYOUTS[int(rng.integers(0, len(LAYOUTS)))]
            xl = relayout(x, how)
            ctx.count('solver layout probe=' + how)
            try:
                yl = np.asarray(op.dot(xl))
                r3 = np.abs(Kd @ yl - x).max() if yl.shape == x.shape else np.inf
            except Exception as ex:
                r3 = np.inf; yl = errtok(ex)
            if not (r3 <= bound and np.array_equal(xl, x)):
                nres_bad += 1
                ctx.violation('layout:solver', '%s applied to a right-hand side in %s memory layout: residual %g exceeds the bound %g' % (what, how, r3, bound),
                              dict(replay, argument_layout=how, y=yl.tolist() if hasattr(yl, 'tolist') else yl), True)
        return y

    for _ in range(250 if quick else 2500):
        n = int(rng.choice([1, 1, 2, 2, 3]))
        Bs, ks, lay = [], [], []
        cond = 1.0
        share = n >= 2 and rng.integers(0, 3) == 0       # make_kronecker_solver(B, B, ...): one array object for all factors
        for _k in range(n):
            if share and Bs:
                Bs.append(Bs[0]); ks.append(ks[0]); lay.append(lay[0]); cond *= c0
                continue
            d = int(rng.integers(1, 4))
            while True:
                B = rint(rng, (d, d)) + 4 * np.eye(d) if rng.integers(0, 2) else spd_int(rng, d)
                nn = exact_inv_norms(B)
                if nn is not None:
                    break
            if rng.integers(0, 3) == 0:
                B = B * 2.0 ** int(rng.integers(-40, 41))         # rescaled problem: the exact reference rescales exactly
                nn = exact_inv_norms(B)
                ctx.count('ksolve power-of-two rescaled factor')
            c0 = nn[0] * nn[1]
            cond *= c0
            Bs.append(B); ks.append(str(rng.choice(['d', 'd', 'r', 'c']))); lay.append(str(rng.choice(['C', 'F', 'Tview', 'strided'])))
        N = int(np.prod([B.shape[0] for B in Bs]))
        x = rand_x(rng, N)
        mats = []
        for k, B, l in zip(ks, Bs, lay):
            if share and mats:
                mats.append(mats[0])
            else:
                mats.append(layout(B, l) if k == 'd' else mk(k, B))
        snap = [(m.toarray() if sp.issparse(m) else np.array(m, copy=True)) for m in mats]
        replay = {'Bs': [B.tolist() for B in Bs], 'kinds': ks, 'layouts': lay, 'same_object': bool(share), 'x': x.tolist()}
        ctx.case(('ksolve', tuple(ks), tuple(lay), bool(share), tuple(B.tobytes() for B in Bs), x.tobytes()), nontrivial=n >= 2)
        ctx.count('stream=ksolve'); ctx.count('ksolve factors=%d' % n)
        for k, l in zip(ks, lay):
            ctx.count('solver input=' + (l if k == 'd' else 'sparse-' + k))
        if share:
            ctx.count('ksolve shared array object')
        K = reduce(np.kron, Bs)
        y = None
        try:
            if n == 1:
                sym = bool(np.array_equal(Bs[0], Bs[0].T) and np.all(np.linalg.eigvalsh(Bs[0]) > 0)) and bool(rng.integers(0, 2))
                # two solvers built from the same array object; both must solve the original system
                s1 = operators.make_solver(mats[0], spd=sym)
                s2 = operators.make_solver(mats[0], spd=sym)
                y = check_solver(s1, K, x, 'make_solver(B) [first of two on the same array]', replay, cond)
                check_solver(s2, K, x, 'make_solver(B) [second of two on the same array]', replay, cond)
            else:
                kop = operators.make_kronecker_solver(*mats)
                y = check_solver(kop, K, x, 'make_kronecker_solver', replay, cond)
                if y is not None:
                    # chain: the solver's output (an F-ordered array from the column-major sweeps) fed to the dense Kronecker operator
                    z = np.asarray(operators.KroneckerOperator(*[np.array(B) for B in Bs]).dot(y))
                    bz = 256.0 * N * eps * cond * max(1.0, float(np.abs(x).max()))
                    if z.shape != x.shape or not np.abs(z - x).max() <= bz:
                        nres_bad += 1
                        ctx.violation('chain:kron-of-solver-output', 'KroneckerOperator(*Bs).dot(make_kronecker_solver(*Bs).dot(x)) differs from x by %g (bound %g); the solver output is %s-contiguous' % (
                            np.abs(z - x).max() if z.shape == x.shape else np.inf, bz, 'F' if (np.asarray(y).flags.f_contiguous and not np.asarray(y).flags.c_contiguous) else 'C'), replay, True)
                if rng.integers(0, 2):
                    kop2 = operators.make_kronecker_solver(*mats)      # rebuilt from the same arrays
                    check_solver(kop2, K, x, 'make_kronecker_solver [rebuilt from the same arrays]', replay, cond)
        except Exception as ex:
            ctx.violation('ksolve-raise', 'solver construction raised %s' % type(ex).__name__, dict(replay, error=str(ex)[:300]), True)
            continue
        # monitor: the caller's matrices are bitwise unchanged
        for i, (m, s0) in enumerate(zip(mats, snap)):
            now = m.toarray() if sp.issparse(m) else np.asarray(m)
            if now.shape != s0.shape or not np.array_equal(now, s0):
                ctx.violation('solver-input-mutated', 'make_solver / make_kronecker_solver modified its input matrix (factor %d, %s, layout %s)' % (
                    i, 'ndarray' if ks[i] == 'd' else 'sparse', lay[i]), dict(replay, after=now.tolist()), True)
                break
        if y is None:
            continue
        t = 64.0 * N * eps * cond * max(1.0, float(np.abs(x).max())) * float(np.abs(np.linalg.inv(K)).sum(1).max())
        req.append('ksolve %s %s' % (fmt_ops(['d'] * n, Bs), fmt_tensor(x)))
        impl.append(y); tol.append(t); meta.append({'op': 'ksolve', 'kinds': ks, 'layouts': lay})
    # make_solver(symmetric=True / default) on well-conditioned symmetric INDEFINITE matrices with tiny or zero diagonal entries
    # (regularised saddle points, tridiagonal with a tiny pivot), sparse formats and dense; reference: exact rational solve
    for _ in range(70 if quick else 700):
        typ = str(rng.choice(['saddle', 'saddle', 'tridiag', 'indef']))
        tiny = float(rng.choice([0.0, 1e-17, 1e-14, 1e-12, 1e-10]))
        if typ == 'saddle':
            n = int(rng.integers(2, 5)); mm = int(rng.integers(1, 3))
            A = spd_int(rng, n); C = rint(rng, (mm, n))
            K = np.block([[A, C.T], [C, -tiny * np.eye(mm)]])
        elif typ == 'tridiag':
            n = int(rng.integers(3, 7))
            K = np.diag(rng.integers(1, 4, size=n).astype(float)) + np.diag(np.ones(n - 1), 1) + np.diag(np.ones(n - 1), -1)
            j = 0 if rng.integers(0, 2) else int(rng.integers(0, n))
            K[j, j] = tiny
        else:
            n = int(rng.integers(2, 6))
            G = rint(rng, (n, n)); K = G + G.T
            for j in range(n):
                if rng.integers(0, 3) == 0:
                    K[j, j] = tiny
        inv = exact_inverse(K)
        if inv is None:
            continue
        N = K.shape[0]
        nK = float(np.abs(K).sum(1).max()); nI = float(max(sum(abs(v) for v in row) for row in inv))
        cond = nK * nI
        if cond > 1e5:
            continue          # well-conditioned instances only
        eig = np.linalg.eigvalsh(K)
        definite = bool(eig.min() > 0)
        F = rint(rng, (N, 3))
        Xref = np.array([[float(sum(inv[i][k] * Fraction(float(F[k, c])) for k in range(N))) for c in range(3)] for i in range(N)])
        bound = 256.0 * N * eps * cond * max(1.0, float(np.abs(Xref).max()))
        for fmt in ('csr', 'csc', 'coo', 'dense'):
            for kw in ({}, {'symmetric': True}):
                M_ = np.array(K) if fmt == 'dense' else sp.coo_matrix(K).asformat(fmt)
                if fmt != 'dense' and tiny == 0.0:
                    M_ = sp.coo_matrix(K).asformat(fmt)      # structural zeros on the diagonal are simply absent
                key = None
                replay = {'K': K.tolist(), 'format': fmt, 'kwargs': kw, 'type': typ, 'tiny_diagonal': tiny, 'cond_inf': cond, 'definite': definite}
                ctx.case(('symsolve', typ, fmt, tuple(kw), K.tobytes(), F.tobytes()), nontrivial=True)
                ctx.count('stream=make_solver symmetric-indefinite'); ctx.count('symsolve %s %s' % (fmt, 'symmetric=True' if kw else 'default'))
                try:
                    S = operators.make_solver(M_, **kw)
                    worst = 0.0
                    for f, ref in ((F[:, 0], Xref[:, 0]), (F[:, :1], Xref[:, :1]), (F, Xref)):
                        y = np.asarray(S.dot(f))
                        e = np.abs(y - ref).max() if y.shape == ref.shape and np.all(np.isfinite(y)) else np.inf
                        worst = max(worst, e)
                    if not worst <= bound:
                        key = 'make-solver-dense-symmetric-indefinite' if (fmt == 'dense' and kw and not definite) else 'symsolve-wrong'
                        if key not in ctx.known_keys():
                            nres_bad += 1
                        ctx.violation(key, 'make_solver(%s matrix%s) on a well-conditioned symmetric %s matrix (cond_inf %.3g): error %g w.r.t. the exact rational solution exceeds the bound %g' % (
                            fmt, ', symmetric=True' if kw else '', 'positive definite' if definite else 'indefinite', cond, worst, bound), dict(replay, rhs=F.tolist()), True)
                except Exception as ex:
                    key = 'make-solver-dense-symmetric-indefinite' if (fmt == 'dense' and kw and not definite) else 'symsolve-raise'
                    if key not in ctx.known_keys():
                        nres_bad += 1
                    ctx.violation(key, 'make_solver(%s matrix%s) on a well-conditioned symmetric %s matrix (cond_inf %.3g) raised %s: %s' % (
                        fmt, ', symmetric=True' if kw else '', 'positive definite' if definite else 'indefinite', cond, type(ex).__name__, str(ex)[:100]), replay, True)
    # wide right-hand sides: column counts around and beyond 4096; EVERY column must be solved (B @ Y == X within the bound for all
    # columns; np.empty garbage is not reliably non-finite), a few sampled columns are compared with the exact rational solve
    WIDTHS = list(range(1, 11)) + [4095, 4096, 4097, 5000, 8192, 8193]
    for _ in range(10 if quick else 80):
        d = int(rng.integers(2, 7))
        sym = bool(rng.integers(0, 2))
        while True:
            if sym:
                B = spd_int(rng, d) if rng.integers(0, 2) else (lambda G: G + G.T + np.diag(rint(rng, (d,))))(rint(rng, (d, d)))
            else:
                B = rint(rng, (d, d)) + 4 * np.eye(d)
            inv = exact_inverse(B)
            if inv is not None:
                nB = float(np.abs(B).sum(1).max()); nI = float(max(sum(abs(v) for v in row) for row in inv))
                if nB * nI <= 1e4:
                    break
        ncol = int(rng.choice(WIDTHS + [int(rng.integers(8800, 9200))] * 3 + [4097, 5000, 8193]))
        X = rint(rng, (d, ncol))
        k = str(rng.choice(['r', 'c', 'd']))
        is_sym = bool(np.array_equal(B, B.T)); is_spd = is_sym and bool(np.all(np.linalg.eigvalsh(B) > 0))
        flags = [{}] + ([{'symmetric': True}] if is_sym else []) + ([{'spd': True}] if is_spd else [])
        kw = flags[int(rng.integers(0, len(flags)))]
        ctx.case(('manyrhs', k, tuple(kw), B.tobytes(), ncol)); ctx.count('stream=make_solver wide right-hand sides'); ctx.count('wide-rhs kind=' + k)
        ctx.count('wide-rhs columns=%s' % (ncol if ncol <= 10 or ncol in (4095, 4096, 4097, 5000, 8192, 8193) else '~9000'))
        replay = {'B': B.tolist(), 'kind': k, 'kwargs': kw, 'columns': ncol, 'rhs': 'integers in [-3,3], shape (%d,%d)' % (d, ncol)}
        try:
            Y = np.asarray(operators.make_solver(mk(k, B), **kw).dot(X))
            bound = 64.0 * d * eps * nB * nI * 3.0 * nB
            colres = np.abs(B @ Y - X).max(0) if Y.shape == X.shape else np.array([np.inf])
            badc = np.nonzero(~(colres <= bound))[0]
            what = None
            if len(badc):
                what = '%d of %d columns are not solved (first bad column %d, residual %g, bound %g)' % (
                    len(badc), ncol, int(badc[0]), float(np.nan_to_num(colres[badc[0]], nan=np.inf)), bound)
            else:
                cols = sorted(set([0, ncol - 1, min(ncol - 1, 4096)] + [int(c) for c in rng.integers(0, ncol, size=3)]))
                for c in cols:
                    ref = np.array([float(sum(inv[i][j] * Fraction(float(X[j, c])) for j in range(d))) for i in range(d)])
                    e = np.abs(Y[:, c] - ref).max()
                    if not e <= 64.0 * d * eps * nB * nI * max(1.0, float(np.abs(ref).max())):
                        what = 'column %d of %d differs from the exact rational solution by %g' % (c, ncol, e)
                        break
            if what:
                nres_bad += 1
                ctx.violation('solver-wide-rhs', 'make_solver(%s%s).dot(X): %s' % ({'r': 'csr', 'c': 'csc', 'd': 'dense'}[k], ''.join(', %s=True' % a for a in kw), what), replay, True)
        except Exception as ex:
            nres_bad += 1
            ctx.violation('solver-wide-rhs', 'make_solver(...).dot(X) with %d right-hand sides raised %s: %s' % (ncol, type(ex).__name__, str(ex)[:120]), replay, True)
    # fastdiag_solver
    from pyiga import bspline, assemble
    import scipy.linalg
    for it in range(60 if quick else 600):
        dim = int(rng.choice([1, 2, 2, 3]))
        KM = []
        for _d in range(dim):
            n = int(rng.integers(1, 5 if dim < 3 else 4))
            if rng.integers(0, 2) and n >= 2:
                p = int(rng.integers(1, 3))
                kv = bspline.make_knots(p, 0.0, 1.0, max(1, n - p))
                Kd = assemble.stiffness(kv).toarray() + assemble.mass(kv).toarray(); Md = assemble.mass(kv).toarray()
                if rng.integers(0, 2):
                    Kd, Md = sp.csr_matrix(Kd), sp.csr_matrix(Md)
            else:
                Md = spd_int(rng, n); G = rint(rng, (n, n)); Kd = G + G.T + 8 * np.eye(n)
            if rng.integers(0, 2):
                # power-of-two rescaling of the stiffness and mass matrices (tiny or huge generalized eigenvalues, well conditioned)
                ea, eb = int(rng.integers(-40, 41)), int(rng.integers(-40, 41))
                Kd = Kd * 2.0 ** ea; Md = Md * 2.0 ** eb
                ctx.count('fastdiag rescaled (eigenvalue exponent %+d0s)' % int(np.round((ea - eb) * np.log10(2.0) / 10)))
            if not sp.issparse(Kd):
                how = str(rng.choice(['C', 'F', 'Tview', 'strided']))
                Kd, Md = layout(Kd, how), layout(Md, how)
                ctx.count('fastdiag input=' + how)
            KM.append((Kd, Md))
        if dim >= 2 and rng.integers(0, 3) == 0:
            KM = [KM[0]] * dim                       # the same (K, M) array objects in every direction
            ctx.count('fastdiag shared array objects')
        dn = [np.array(K.toarray() if sp.issparse(K) else K, copy=True) for K, _ in KM], [np.array(M.toarray() if sp.issparse(M) else M, copy=True) for _, M in KM]
        terms = []
        for d in range(dim):
            terms.append(reduce(np.kron, [dn[0][j] if j == d else dn[1][j] for j in range(dim)]))
        A = sum(terms)
        N = A.shape[0]
        x = rand_x(rng, N)
        ctx.case(('fastdiag', dim, A.tobytes(), x.tobytes()), nontrivial=dim >= 2)
        ctx.count('stream=fastdiag'); ctx.count('fastdiag dim=%d' % dim)
        try:
            y = np.asarray(solvers.fastdiag_solver(KM).dot(x))
        except Exception as ex:
            anysp = any(sp.issparse(a) or sp.issparse(b) for a, b in KM)
            one = N == 1 and isinstance(ex, AssertionError)   # DiagonalOperator of a single entry: same root cause as 'diagonal-size-1'
            ctx.violation('fastdiag-sparse-input' if anysp else 'diagonal-size-1' if one else 'fastdiag-raise',
                          'fastdiag_solver(KM)%s raised %s' % (' with scipy.sparse (K, M) pairs' if anysp else '.dot(x)', type(ex).__name__),
                          {'KM': [(a.tolist(), b.tolist()) for a, b in zip(*dn)], 'x': x.tolist(), 'error': str(ex)[:300]}, True)
            continue
        for (Kd, Md), k0, m0 in zip(KM, *dn):
            kn = Kd.toarray() if sp.issparse(Kd) else np.asarray(Kd); mn = Md.toarray() if sp.issparse(Md) else np.asarray(Md)
            if not (np.array_equal(kn, k0) and np.array_equal(mn, m0)):
                ctx.violation('solver-input-mutated', 'fastdiag_solver modified its input matrices',
                              {'KM': [(a.tolist(), b.tolist()) for a, b in zip(*dn)], 'after': [kn.tolist(), mn.tolist()]}, True)
                break
        condA = float(np.linalg.cond(A))
        res = np.abs(A @ y - x).max() if y.shape == x.shape else np.inf
        bound = 256.0 * N * eps * condA * float(np.abs(A).sum(1).max()) * max(float(np.abs(y).max()), 1e-300)
        if not res <= bound:
            nres_bad += 1
            ctx.violation('fastdiag-residual', 'fastdiag_solver: residual |A y - x| = %g exceeds the conditioning bound %g' % (res, bound),
                          {'KM': [(a.tolist(), b.tolist()) for a, b in zip(*dn)], 'x': x.tolist(), 'y': y.tolist()}, True)
        # tie to the model: same eigh call, eigenpairs passed as the exact rationals of the doubles
        EV = [scipy.linalg.eigh(a, b) for a, b in zip(*dn)]
        # contract of the parameter (spot check, labelled): K U = M U diag(lam), U^T M U = 1
        for (lam, U), a, b in zip(EV, *dn):
            # relative scales (the problems are rescaled by powers of two): |K U|, |M U Lam| for the first identity, 1 for the second
            s1 = (float(np.abs(a).max()) + float(np.abs(b).max()) * float(np.abs(lam).max())) * float(np.abs(U).max()) * len(lam)
            if np.abs(a @ U - b @ U * lam).max() > 1e-9 * s1 or np.abs(U.T @ b @ U - np.eye(len(lam))).max() > 1e-9 * len(lam):
                ctx.notes.append('eigh contract spot check failed (parameter, not pyiga)')
        diags = []
        for d in range(dim):
            Dl = [np.ones(len(EV[j][0])) for j in range(dim)]
            Dl[d] = EV[d][0]
            diags.append(reduce(np.kron, Dl))
        diag = sum(diags)
        Us = [U for _, U in EV]
        absb = reduce(np.kron, [np.abs(U) for U in Us]) @ (np.abs(1.0 / diag)[(slice(None),) + (None,) * (x.ndim - 1)]
                                                           * (reduce(np.kron, [np.abs(U.T) for U in Us]) @ np.abs(x)))
        t = 8.0 * (2 * sum(U.shape[0] for U in Us) + 4) * eps * absb
        req.append('fdiag %s %s %s' % (fmt_ops(['d'] * dim, Us), plist((1.0 / diag).tolist(), frac), fmt_tensor(x)))
        impl.append(y); tol.append(t); meta.append({'op': 'fastdiag', 'dim': dim})
        # the diagonal itself: sum of <= 3 doubles, exact up to 2 roundings
        req.append('fdd %s' % plist([lam.tolist() for lam, _ in EV], lambda l: plist(l, frac)))
        impl.append(diag); tol.append(4 * eps * sum(np.abs(dg) for dg in diags)); meta.append({'op': 'fastdiag-diag', 'dim': dim})
    got = ctx.model('drv_c16', req)
    nbad = 0
    for r, y, t, g, m in zip(req, impl, tol, got, meta):
        toks = g.split()
        ok = False
        if toks and not toks[0].startswith('err') and toks[0] not in ('bad-request', 'singular'):
            if m['op'] == 'fastdiag-diag':
                vals = [Fraction(v) for v in toks[1:]]
                shape = (len(vals),)
            else:
                nd = int(toks[0]); shape = tuple(int(v) for v in toks[1:1 + nd])
                vals = [Fraction(v) for v in toks[2 + nd:]]
            if shape == y.shape:
                err = np.array([abs(float(Fraction(float(a)) - b)) for a, b in zip(y.ravel().tolist(), vals)]).reshape(y.shape)
                ok = bool(np.all(err <= np.broadcast_to(t, y.shape)))
        if not ok:
            nbad += 1
            if nbad <= 10:
                ctx.violation('solver-corr:' + m['op'], 'implementation differs from the exact rational model result by more than the derived bound',
                              {'request': r[:3000], 'implementation': np.asarray(y).tolist(), 'model': g[:2000],
                               'bound': np.broadcast_to(t, y.shape).tolist(), 'meta': m}, False)
    ctx.obligation('solver streams: %d requests within the derived forward-error bound of the exact model' % len(req), nbad == 0, '%d outside' % nbad)
    ctx.obligation('solver residuals within the conditioning bound', nres_bad == 0, '%d failures' % nres_bad)
    ctx.extra['solver_requests'] = len(req)
