"""
C05 — every transfer between nested spline spaces preserves the function (DESIGN.md §6/C05).

tie: hand-written Lean model (Pyiga.Model.TransferKnots / Transfer, driver drv_c05) vs
     pyiga.bspline.knot_insertion / prolongation / KnotVector.refine and
     pyiga.hierarchical.HSpace.{represent_fine, truncate_one_level, thb_to_hb, hb_to_thb,
     virtual_hierarchy_prolongators, prolongate_to, coeffs_to_levelwise_funcs, boundary}
     on the same inputs.  The model computes in exact Rat on the doubles the implementation
     uses; values are compared within a bound derived from the operation (see `tol_*`).
theorems: Pyiga.Props.C05.*
search (model-free): Cox-de Boor in Fractions at p+1 points per fine span (1-D transfers);
     the library's own evaluators on tensor grids with p+1 points per finest span and the
     matrix identity  I_fine · P = T · I_coarse  (hierarchical transfers).
"""
import itertools
from fractions import Fraction

import numpy as np
import scipy.sparse

from .common import plist, frac

EPS = 2.0 ** -52

THEOREMS = [
    'Pyiga.Props.C05.pw_poly_eq_of_samples',
    'Pyiga.Props.C05.boehm', 'Pyiga.Props.C05.boehm_matrix',
    'Pyiga.Props.C05.prolongation_structure',
    'Pyiga.Props.C05.represent_fine_rec', 'Pyiga.Props.C05.virtual_composition',
    'Pyiga.Props.C05.levelwise_eval', 'Pyiga.Props.C05.prolongate_to_spec',
    'Pyiga.Props.C05.prolongate_to_disparity_irrelevant', 'Pyiga.Props.C05.prolongate_to_inf',
    'Pyiga.Props.C05.represent_fine_rows', 'Pyiga.Props.C05.represent_fine_rows_entries',
    'Pyiga.Props.C05.boundary_map', 'Pyiga.Props.C05.face_index_order',
    'Pyiga.Props.C05.thb_virtual_prolongators_wrong', 'Pyiga.Props.C05.prolongate_to_finite_disparity_wrong',
    'Pyiga.Props.C05.prolongate_to_fixed_witness',
]
MODULES = ['Pyiga.Model.TransferKnots', 'Pyiga.Model.Transfer', 'Pyiga.Model.TransferBoundary', 'Pyiga.Proofs.TransferRows', 'Pyiga.Proofs.TransferBoundary', 'Pyiga.Proofs.CoxDeBoor', 'Pyiga.Proofs.Boehm',
           'Pyiga.Proofs.Transfer', 'Pyiga.Proofs.ProlongateTo', 'Pyiga.Props.C05']

KEY_D9 = 'thb-virtual-prolongators-ge3-levels'
KEY_D13 = 'prolongate_to-finite-disparity-deeper-than-d'
KEY_D18 = 'prolongation-single-coarse-dof-row-vector'


# ----------------------------------------------------------------------------- formatting
def fmt_mat_in(A):
    A = scipy.sparse.coo_matrix(A)
    A.sum_duplicates()
    trip = [(int(i), int(j), v) for i, j, v in zip(A.row, A.col, A.data) if v != 0.0]
    return '%d %d %s' % (A.shape[0], A.shape[1], plist(trip, lambda t: '%d %d %s' % (t[0], t[1], frac(t[2]))))


def fmt_space(hs):
    L = hs.numlevels
    IA = hs.active_indices(); ID = hs.deactivated_indices()
    parts = [str(L)]
    for l in range(L):
        parts.append('%d %s %s' % (int(hs.mesh(l).numbf), plist(int(i) for i in IA[l]), plist(int(i) for i in ID[l])))
    for l in range(L - 1):
        parts.append(plist(hs.hmesh.P[l], fmt_mat_in))
    return ' '.join(parts)


def parse_mat(s):
    toks = s.split()
    m, n, nnz = int(toks[0]), int(toks[1]), int(toks[2])
    M = {}
    for t in toks[3:3 + nnz]:
        i, j, v = t.split(',')
        M[(int(i), int(j))] = Fraction(v)
    return (m, n, M)


def mat_diff(model, impl):
    """model: (m,n,dict of Fractions); impl: array-like.  Returns (shape_ok, max abs diff, inf-norm of model)."""
    m, n, M = model
    A = np.asarray(impl.toarray() if scipy.sparse.issparse(impl) else impl, dtype=float)
    if A.ndim == 1:
        A = A.reshape(-1, 1)
    if A.shape != (m, n):
        return False, float('inf'), 0.0
    D = np.zeros((m, n))
    for (i, j), v in M.items():
        D[i, j] = float(v)
    nrm = float(np.abs(D).sum(axis=1).max()) if D.size else 0.0
    return True, (float(np.abs(D - A).max()) if D.size else 0.0), nrm


# ----------------------------------------------------------------------------- oracles (model-free)
def cox(kv, p, i, x):
    """Cox-de Boor recursion in exact arithmetic (0/0 := 0), right-continuous."""
    if p == 0:
        return Fraction(1) if kv[i] <= x < kv[i + 1] else Fraction(0)
    r = Fraction(0)
    d1 = kv[i + p] - kv[i]
    if d1 != 0:
        r += (x - kv[i]) / d1 * cox(kv, p - 1, i, x)
    d2 = kv[i + p + 1] - kv[i + 1]
    if d2 != 0:
        r += (kv[i + p + 1] - x) / d2 * cox(kv, p - 1, i + 1, x)
    return r


def sample_points(kvf, p):
    """p+1 distinct rational points strictly inside every non-empty span of the fine knot list"""
    pts = []
    mesh = sorted(set(kvf))
    for a, b in zip(mesh[:-1], mesh[1:]):
        for r in range(p + 1):
            pts.append(a + (b - a) * Fraction(2 * r + 1, 2 * p + 2))
    return pts


def oracle_transfer_1d(kv1, kv2, p, P, tol):
    """max_x max_i | N_i^{kv1}(x) - sum_j P[j,i] N_j^{kv2}(x) | over p+1 points per span, in Fractions"""
    kv1 = [Fraction(float(t)) for t in kv1]; kv2 = [Fraction(float(t)) for t in kv2]
    n1 = len(kv1) - p - 1; n2 = len(kv2) - p - 1
    P = np.asarray(P, dtype=float)
    if P.shape != (n2, n1):
        return 'transfer matrix has shape %s, expected %s' % (P.shape, (n2, n1))
    Pf = {(j, i): Fraction(float(P[j, i])) for j in range(n2) for i in range(n1) if P[j, i] != 0.0}
    worst = Fraction(0); where = None
    for x in sample_points(kv2, p):
        N2 = [cox(kv2, p, j, x) for j in range(n2)]
        for i in range(n1):
            lhs = cox(kv1, p, i, x)
            rhs = sum((Pf[(j, i)] * N2[j] for j in range(n2) if (j, i) in Pf and N2[j] != 0), Fraction(0))
            d = abs(lhs - rhs)
            if d > worst:
                worst = d; where = (i, float(x))
    if worst > tol:
        return 'coarse basis function %d differs from its transferred representation by %.3e at x=%r (bound %.2e)' % (
            where[0], float(worst), where[1], tol)
    return None


def tp_between(hs, l0, l1):
    T = scipy.sparse.identity(int(hs.mesh(l0).numbf), format='csr')
    for l in range(l0, l1):
        T = hs.tp_prolongation(l, kron=True) @ T
    return T


def grid_for(hs, lv=None):
    """p+1 points strictly inside every span of the finest level, per axis"""
    lv = hs.numlevels - 1 if lv is None else lv
    axes = []
    for kv in hs.knotvectors(lv):
        m = kv.mesh; p = kv.p
        t = (2 * np.arange(p + 1) + 1) / (2 * p + 2)
        axes.append((m[:-1, None] + (m[1:] - m[:-1])[:, None] * t[None, :]).ravel())
    return axes


def oracle_represent_fine(hs):
    """HB columns of represent_fine are the level-wise B-splines, by evaluation on the finest grid"""
    from pyiga import bspline
    L = hs.numlevels
    I = hs.represent_fine(truncate=False).toarray()
    grid = grid_for(hs)
    Cf = [bspline.collocation(kv, g).toarray() for kv, g in zip(hs.knotvectors(L - 1), grid)]
    col = 0
    worst = 0.0
    IA = hs.active_indices()
    for l in range(L):
        Cl = [bspline.collocation(kv, g).toarray() for kv, g in zip(hs.knotvectors(l), grid)]
        dims = hs.mesh(l).numdofs
        for r in IA[l]:
            mi = np.unravel_index(int(r), dims)
            coarse = Cl[0][:, mi[0]]
            for d in range(1, hs.dim):
                coarse = np.multiply.outer(coarse, Cl[d][:, mi[d]])
            coef = I[:, col].reshape(hs.mesh(L - 1).numdofs)
            fine = coef
            for d in range(hs.dim):
                fine = np.tensordot(Cf[d], fine, axes=(1, d)) if False else np.moveaxis(np.tensordot(Cf[d], fine, axes=(1, d)), 0, d)
            worst = max(worst, float(np.abs(fine - coarse).max()))
            col += 1
    return worst



# ----------------------------------------------------------------------------- call-history stream (HSplineFunc / BSplineFunc)
def cox_all(t, p, x):
    """values of all B-splines of degree p with knot array t at the points x (own Cox-de Boor, floats), shape (len(x), n)"""
    t = np.asarray(t, float); x = np.asarray(x, float)
    B = np.zeros((len(t) - 1, len(x)))
    for i in range(len(t) - 1):
        if t[i] < t[i + 1]:
            B[i] = (t[i] <= x) & (x < t[i + 1])
    for q in range(1, p + 1):
        Bn = np.zeros((len(t) - 1 - q, len(x)))
        for i in range(len(t) - 1 - q):
            if t[i + q] > t[i]:
                Bn[i] += (x - t[i]) / (t[i + q] - t[i]) * B[i]
            if t[i + q + 1] > t[i + 1]:
                Bn[i] += (t[i + q + 1] - x) / (t[i + q + 1] - t[i + 1]) * B[i + 1]
        B = Bn
    return B.T


def tp_eval(kvs, coeffs, grid):
    """tensor-product spline on a grid from own Cox-de Boor collocation matrices"""
    out = np.asarray(coeffs, float).reshape([kv.numdofs for kv in kvs])
    for d, (kv, g) in enumerate(zip(kvs, grid)):
        C = cox_all(kv.kv, kv.p, g)
        out = np.moveaxis(np.tensordot(C, out, axes=(1, d)), 0, d)
    return out


def history_checks(hs, desc, rng):
    """A function object must denote the function of its CURRENT data after any call history: evaluate all routes, edit the
    coefficient array in place / by rebinding, toggle truncate, evaluate again; compare with a fresh object built from the
    current data and (values) with own Cox-de Boor evaluation of represent_fine(current truncate) @ current coefficients."""
    from pyiga import bspline, hierarchical
    out = []
    L = hs.numlevels
    grid = grid_for(hs)
    if hs.dim >= 2:
        grid = [g[:: max(1, len(g) // 9)] for g in grid]
    fk = hs.knotvectors(L - 1)
    pts = [tuple(float(g[int(rng.integers(0, len(g)))]) for g in grid) for _ in range(3)]
    u = rng.integers(-8, 9, size=hs.numdofs).astype(float)
    f = hierarchical.HSplineFunc(hs, u)
    ops = []

    def check(step):
        cur = np.array(f.coeffs, dtype=float)
        fresh = hierarchical.HSplineFunc(hs, cur.copy(), truncate=f.truncate)
        ref = tp_eval(fk, hs.represent_fine(truncate=f.truncate) @ cur, grid)
        mag = max(1.0, float(np.abs(ref).max()))
        tol = 256 * EPS * mag * (L + 1)
        for name in ('grid_eval', 'grid_jacobian', 'grid_hessian'):
            a = getattr(f, name)(grid); b = getattr(fresh, name)(grid)
            scale = max(1.0, float(np.abs(b).max()))
            if a.shape != b.shape or np.abs(a - b).max() > 256 * EPS * scale * (L + 1):
                return ('HSplineFunc.%s after the call history %s differs from a fresh HSplineFunc built from the current coefficients '
                        '(truncate=%s) by %.3e' % (name, ops, f.truncate, np.abs(a - b).max() if a.shape == b.shape else np.inf))
            if name == 'grid_eval' and np.abs(a - ref).max() > tol * 4:
                return ('HSplineFunc.grid_eval after the call history %s differs from the Cox-de Boor evaluation of '
                        'represent_fine @ coeffs by %.3e' % (ops, np.abs(a - ref).max()))
        for pt in pts:
            a = f(*reversed(pt)); b = fresh(*reversed(pt))
            if abs(a - b) > 256 * EPS * mag * (L + 1):
                return 'HSplineFunc.eval%r after the call history %s = %r, fresh object gives %r' % (pt, ops, a, b)
        return None

    def step(op, fn):
        fn(); ops.append(op)
        r = check(op)
        if r:
            out.append(('hsplinefunc-call-history', r, {'case': desc, 'ops': list(ops), 'failing_step': len(ops) - 1}))
        return r is None

    try:
        ok = step('construct+evaluate', lambda: None)
        seq = [('u *= 2 (caller array, in place)', lambda: u.__imul__(2.0)),
               ('u[:] = new values (in place)', lambda: u.__setitem__(slice(None), rng.integers(-8, 9, size=hs.numdofs).astype(float))),
               ('f.coeffs[:] = new values (in place)', lambda: f.coeffs.__setitem__(slice(None), rng.integers(-8, 9, size=hs.numdofs).astype(float))),
               ('f.truncate toggled', lambda: setattr(f, 'truncate', not f.truncate)),
               ('f.coeffs[0] += 1 (in place)', lambda: f.coeffs.__setitem__(0, f.coeffs[0] + 1.0)),
               ('f.coeffs = new array (rebound)', lambda: setattr(f, 'coeffs', rng.integers(-8, 9, size=hs.numdofs).astype(float))),
               ('f.coeffs *= -1 (in place, after rebinding)', lambda: f.coeffs.__imul__(-1.0)),
               ('f.truncate toggled back', lambda: setattr(f, 'truncate', not f.truncate))]
        for (op, fn) in seq:
            if not ok:
                break
            ok = step(op, fn)
        # level functions (BSplineFunc): edit the coefficient array in place
        lf = hs.coeffs_to_levelwise_funcs(rng.integers(-8, 9, size=hs.numdofs).astype(float), truncate=False)
        for l, g in enumerate(lf):
            gl = grid
            v0 = g.grid_eval(gl); g.grid_jacobian(gl)
            g.coeffs[...] = g.coeffs * 3.0 + 1.0
            fresh = bspline.BSplineFunc(hs.knotvectors(l), np.array(g.coeffs))
            ref = tp_eval(hs.knotvectors(l), g.coeffs, gl)
            for name in ('grid_eval', 'grid_jacobian', 'grid_hessian'):
                a = getattr(g, name)(gl); b = getattr(fresh, name)(gl)
                scale = max(1.0, float(np.abs(b).max()))
                if np.abs(a - b).max() > 256 * EPS * scale * 4 or (name == 'grid_eval' and np.abs(a - ref).max() > 256 * EPS * scale * 4):
                    out.append(('bsplinefunc-call-history', 'level-%d BSplineFunc.%s after an in-place edit of its coefficients differs from a '
                                'fresh object / Cox-de Boor by %.3e' % (l, name, max(np.abs(a - b).max(), np.abs(a - ref).max() if name == 'grid_eval' else 0.0)),
                                {'case': desc, 'ops': ['evaluate', 'coeffs[...] = 3*coeffs+1', name]}))
                    break
    except Exception as ex:
        out.append(('call-history-raises', 'call history %s raised %s: %s' % (ops, type(ex).__name__, str(ex)[:200]), {'case': desc, 'ops': list(ops)}))
    return out


# ----------------------------------------------------------------------------- generators
def rand_kv(rng, p, nspan, scale_mix=False, maxmult=None):
    """open knot vector with dyadic breakpoints and random interior multiplicities <= p"""
    from pyiga import bspline
    if scale_mix:
        steps = [2.0 ** int(rng.choice([-20, -10, -3, 0, 0, 2])) * int(rng.integers(1, 4)) for _ in range(nspan)]
    else:
        steps = [int(rng.integers(1, 9)) / 8.0 for _ in range(nspan)]
    brk = np.concatenate(([0.0], np.cumsum(steps)))
    mm = max(1, p if maxmult is None else maxmult)
    mult = [int(rng.integers(1, mm + 1)) if rng.integers(0, 3) == 0 else 1 for _ in range(nspan - 1)]
    kv = np.concatenate(([brk[0]] * (p + 1), np.repeat(brk[1:-1], mult), [brk[-1]] * (p + 1)))
    return bspline.KnotVector(kv, p)


def rand_new_knots(rng, kv, k):
    """k new knots: midpoints/quarter points of spans or repeats of existing interior knots (keeping mult <= p)"""
    p = kv.p
    cur = list(kv.kv)
    out = []
    for _ in range(k):
        mesh = sorted(set(cur))
        if rng.integers(0, 3) == 0 and len(mesh) > 2 and p >= 1:
            cand = [t for t in mesh[1:-1] if cur.count(t) < p]
            if cand:
                u = float(cand[int(rng.integers(0, len(cand)))])
                out.append(u); cur.append(u); cur.sort(); continue
        s = int(rng.integers(0, len(mesh) - 1))
        w = float(rng.choice([0.5, 0.25, 0.75, 0.125]))
        u = mesh[s] + (mesh[s + 1] - mesh[s]) * w
        if not (mesh[s] < u < mesh[s + 1]):
            continue
        out.append(float(u)); cur.append(float(u)); cur.sort()
    return out


def aniso_kvs(rng, dim, p):
    """tensor-product basis whose directions have EQUAL degree and EQUAL numdofs (4 + p) but different knots:
    uniform / graded towards 0 / graded towards 1 / three spans with one doubled interior knot (p >= 2); dyadic data"""
    from pyiga import bspline
    table = {
        'uniform': ([0.0, 0.25, 0.5, 0.75, 1.0], [1, 1, 1]),
        'graded0': ([0.0, 0.125, 0.25, 0.5, 1.0], [1, 1, 1]),
        'graded1': ([0.0, 0.5, 0.75, 0.875, 1.0], [1, 1, 1]),
        'repeat_a': ([0.0, 0.25, 0.5, 1.0], [2, 1]),
        'repeat_b': ([0.0, 0.5, 0.75, 1.0], [1, 2]),
    }
    kinds = ['uniform', 'graded0', 'graded1'] + (['repeat_a', 'repeat_b'] if p >= 2 else [])
    order = [kinds[int(i)] for i in rng.permutation(len(kinds))][:dim]
    kvs = []
    for kind in order:
        brk, mult = table[kind]
        kv = np.concatenate(([brk[0]] * (p + 1), np.repeat(brk[1:-1], mult), [brk[-1]] * (p + 1)))
        kvs.append(bspline.KnotVector(kv, p))
    assert len({k.numdofs for k in kvs}) == 1 and len({tuple(k.kv) for k in kvs}) == dim
    return tuple(kvs), order


def gen_space(rng, dim, p, n0, nref, disparity, truncate, maxlevels=4, kvs=None):
    from pyiga import bspline, hierarchical
    if kvs is None:
        kvs = tuple(bspline.make_knots(p, 0.0, 1.0, n) for n in n0)
    hs = hierarchical.HSpace(kvs, truncate=truncate, disparity=disparity)
    hist = []
    for _ in range(nref):
        lvls = [l for l in range(hs.numlevels) if hs.active_cells(l) and l < maxlevels - 1]
        if not lvls:
            break
        marked = {}
        for l in ([lvls[-1]] if rng.integers(0, 3) else list(rng.choice(lvls, size=min(len(lvls), 2), replace=False))):
            l = int(l)
            cells = sorted(hs.active_cells(l))
            k = int(rng.integers(1, max(2, min(len(cells), 4) + 1)))
            start = int(rng.integers(0, len(cells)))
            pick = [cells[(start + q) % len(cells)] for q in range(k)] if rng.integers(0, 2) else \
                   [cells[int(q)] for q in rng.choice(len(cells), size=min(k, len(cells)), replace=False)]
            marked[l] = set(pick)
        hist.append({int(l): sorted(c) for l, c in marked.items()})
        hs.refine(marked)
        if hs.numlevels > maxlevels:
            break
    return hs, hist


def model_units(hs):
    """cost of one exact `representFine` of the finest level in the Lean model: the literal product eye(N_k) @ T_{k-1} @ ...
    costs N_k^2 N_{k-1} exact rational additions per level (measured ~1.7e-7 s each)"""
    N = [int(hs.mesh(k).numbf) for k in range(hs.numlevels)]
    return sum(N[-1] * N[k] * N[k - 1] for k in range(1, len(N)))


class Budget:
    """keeps the exact-arithmetic model work of a run bounded: a space is generated with fewer levels until one
    representFine costs at most `per_space` units, and once `total` units are spent only cheap spaces are admitted"""
    def __init__(self, per_space, total, cheap=3e6):
        self.per_space = per_space; self.total = total; self.cheap = cheap; self.spent = 0.0

    def cap(self):
        return self.per_space if self.spent < self.total else self.cheap

    def generate(self, make, maxlev):
        hs = hist = None
        for ml in range(maxlev, 0, -1):
            hs, hist = make(ml)
            if model_units(hs) <= self.cap():
                break
        self.spent += model_units(hs)
        return hs, hist


def describe(dim, p, n0, disparity, truncate, hist):
    return {'dim': dim, 'p': p, 'n0': list(n0), 'disparity': (None if disparity == np.inf else int(disparity)),
            'truncate': bool(truncate), 'refine_history': hist}


# ----------------------------------------------------------------------------- the check
def run(ctx):
    ctx.build_repo()
    from pyiga import bspline, hierarchical
    ctx.require_lean(['Pyiga.Props.C05', 'drv_c05'])
    ctx.audit(['Pyiga.Props.C05'], THEOREMS, MODULES)
    if ctx.tier == 'thorough':
        ctx.leanchecker(MODULES)
    rng = ctx.rng
    quick = ctx.tier == 'quick'
    ctx.trusted += ['scipy.sparse products/indexing/resize/bmat and numpy fancy indexing modelled by their documented behaviour',
                    'oracle: exact Cox-de Boor recursion in Python Fractions; pyiga collocation/BSplineFunc evaluators for the hierarchical streams']
    ctx.assumptions += ['knot data dyadic, so knot differences are exact in double; Boehm coefficients compared within 4 eps',
                        'bspline.prolongation (Greville collocation solve + 1e-15 pruning) compared within 1e-15 + 64 eps cond_inf(C2) |P|_inf',
                        'hierarchical matrices: exact Rat on the implementation\'s own per-axis prolongation factors, bound 64 eps L |M|_inf',
                        'per-level index sets and TP prolongations are inputs of the model (refinement itself is C04)']
    ctx.rule = ('kins: random open knot vectors p 0..8, 1..7 spans, interior multiplicities up to p, dyadic and mixed-scale breakpoints, '
                'inserted knot inside a span or on an existing knot (multiplicity kept <= p); prol: kv2 = kv1 + 1..6 such knots, '
                'kv.refine() and kv.refine(new_knots); hprol: random refinement histories 1-D (2..6 cells) and 2-D (2..3 cells/axis), '
                'p 1..3, <= 4 levels, disparity 1/2/inf, HB and THB; per space all virtual levels, both truncate flags, rows/restrict variants, '
                'further-refined fine spaces for prolongate_to, all faces for boundary(); anisotropic 2-D/3-D spaces whose directions have equal '
                'degree and equal numdofs but different knots (uniform / graded / doubled interior knot), with the per-axis factors HMesh.P[l][d] '
                'compared with the exact prolongation of that axis\' knot vectors; call histories on HSplineFunc and level BSplineFuncs '
                '(evaluate all routes, in-place edits through the caller\'s array and f.coeffs, rebinding, truncate toggles) compared with a '
                'fresh object and own Cox-de Boor evaluation; non-trivial = >= 2 levels or >= 1 inserted knot')

    req, exp, meta = [], [], []

    def add(r, thunk, m):
        try:
            e = thunk()
        except AssertionError:
            e = 'err-assertion'; ctx.count('err-assertion')
        except Exception as ex:
            e = 'err-' + type(ex).__name__; ctx.count(e)
        req.append(r); exp.append(e); meta.append(m)

    # ------------------------------------------------------------ stream kins
    nk = 500 if quick else 6000
    for it in range(nk):
        p = int(rng.choice([0, 1, 1, 2, 2, 3, 3, 4, 5, 6, 8])) if it % 4 else int(rng.integers(0, 9))
        kv = rand_kv(rng, p, int(rng.integers(1, 8)), scale_mix=(it % 5 == 0))
        us = rand_new_knots(rng, kv, 1)
        if not us:
            continue
        u = us[0]
        kvd = plist(kv.kv.tolist(), frac)
        ctx.case(('kins', p, tuple(kv.kv.tolist()), u)); ctx.count('kins p=%d' % p)
        add('kins %d %s %s' % (p, kvd, frac(u)),
            lambda: (int(kv.findspan(u)), bspline.knot_insertion(kv, u).toarray()),
            ('kins', p, kv.kv.tolist(), u))
    # ------------------------------------------------------------ stream prol
    npr = 250 if quick else 3000
    for it in range(npr):
        p = int(rng.choice([0, 1, 2, 2, 3, 3, 4, 5, 6, 8])) if it % 3 else int(rng.integers(0, 9))
        kv1 = rand_kv(rng, p, int(rng.integers(1, 7)), scale_mix=(it % 6 == 0))
        mode = int(rng.integers(0, 3))
        if mode == 0:
            kv2 = kv1.refine(); ctx.count('prol refine()')
        else:
            new = rand_new_knots(rng, kv1, int(rng.integers(1, 7)))
            if not new:
                continue
            kv2 = kv1.refine(np.array(new)) if mode == 1 else bspline.KnotVector(np.sort(np.concatenate((kv1.kv, new))), p)
            ctx.count('prol refine(new_knots)' if mode == 1 else 'prol explicit')
        ctx.case(('prol', p, tuple(kv1.kv.tolist()), tuple(kv2.kv.tolist()))); ctx.count('prol p=%d' % p)

        def f(kv1=kv1, kv2=kv2):
            P = bspline.prolongation(kv1, kv2).toarray()
            C2 = bspline.collocation(kv2, kv2.greville()).toarray()
            return ('ok', P, float(np.linalg.cond(C2, np.inf)))
        add('prol %d %s %s' % (p, plist(kv1.kv.tolist(), frac), plist(kv2.kv.tolist(), frac)), f,
            ('prol', p, kv1.kv.tolist(), kv2.kv.tolist()))

    # ------------------------------------------------------------ stream hprol
    spaces = []
    nsp = 36 if quick else 400
    # ~14 representFine-equivalents are requested per space: quick <= ~40 s, thorough <= ~10 min of model time
    budget = Budget(per_space=7e7, total=3e8) if quick else Budget(per_space=6e7, total=3e8, cheap=4e6)
    for it in range(nsp):
        dim = 1 if it % 3 else 2
        p = int(rng.integers(1, 4)) if dim == 1 else int(rng.integers(1, 3 if quick else 4))
        n0 = tuple(int(rng.integers(2, 7)) for _ in range(dim)) if dim == 1 else tuple(int(rng.integers(2, 4)) for _ in range(dim))
        disparity = [1, 2, np.inf][int(rng.integers(0, 3))]
        truncate = bool(rng.integers(0, 2))
        maxlev = 4 if dim == 1 else (3 if quick else 4)
        try:
            nref = int(rng.integers(1, 5))
            hs, hist = budget.generate(lambda ml: gen_space(rng, dim, p, n0, nref, disparity, truncate, ml), maxlev)
        except Exception as ex:   # a mutated tree may raise here: treated as disagreement of stream `hier-gen`
            ctx.violation('hprol:generate', 'refinement raised %s' % type(ex).__name__, {'dim': dim, 'p': p, 'n0': n0}, False)
            continue
        spaces.append((hs, describe(dim, p, n0, disparity, truncate, hist)))
    # anisotropic spaces: equal degree and equal numdofs per direction, different knots (uniform x graded x repeated)
    naniso = 8 if quick else 60
    for it in range(naniso):
        dim = 3 if it % 4 == 3 else 2
        p = 1 if dim == 3 else int(rng.integers(1, 4))
        disparity = [1, 2, np.inf][int(rng.integers(0, 3))]
        truncate = bool(rng.integers(0, 2))
        try:
            kvs, order = aniso_kvs(rng, dim, p)
            nref = int(rng.integers(1, 4))
            hs, hist = budget.generate(lambda ml: gen_space(rng, dim, p, None, nref, disparity, truncate, ml, kvs=kvs),
                                       (2 if quick else 3) if dim == 3 else 3)
        except Exception as ex:
            ctx.violation('hprol:generate', 'refinement raised %s: %s' % (type(ex).__name__, ex), {'dim': dim, 'p': p, 'anisotropic': True}, False)
            continue
        d = describe(dim, p, [int(k.numspans) for k in kvs], disparity, truncate, hist)
        d['anisotropic_knots'] = [k.kv.tolist() for k in kvs]; d['axis_kinds'] = order
        spaces.append((hs, d)); ctx.count('space anisotropic dim=%d' % dim)
    # the two recorded witnesses always run
    w9 = hierarchical.HSpace((bspline.make_knots(2, 0.0, 1.0, 4),), truncate=True)
    w9.refine({0: [(0,), (1,)]}); w9.refine({1: [(0,), (1,)]})
    spaces.append((w9, describe(1, 2, (4,), np.inf, True, [{0: [(0,), (1,)]}, {1: [(0,), (1,)]}])))

    hier_cases = []
    for (hs, desc) in spaces:
        L = hs.numlevels
        sp = fmt_space(hs)
        ctx.case(('space', repr(desc)), nontrivial=L >= 2)
        ctx.count('space dim=%d' % hs.dim); ctx.count('space levels=%d' % L); ctx.count('space disparity=%s' % desc['disparity'])
        ctx.count('space truncate=%s' % desc['truncate'])
        if len(ctx.samples) < 5 and L >= 3:
            ctx.sample(desc)
        IA = hs.active_indices()
        for lv in range(L - 1):
            for ax in range(hs.dim):
                k0 = hs.knotvectors(lv)[ax]; k1 = hs.knotvectors(lv + 1)[ax]

                def fT(lv=lv, ax=ax, k1=k1):
                    C2 = bspline.collocation(k1, k1.greville()).toarray()
                    return ('ok', hs.hmesh.P[lv][ax].toarray(), float(np.linalg.cond(C2, np.inf)))
                add('prol %d %s %s' % (k0.p, plist(k0.kv.tolist(), frac), plist(k1.kv.tolist(), frac)), fT,
                    ('hT', k0.p, k0.kv.tolist(), k1.kv.tolist(), desc, lv, ax))
        for lv in range(L):
            for tr in (False, True):
                add('repfine %s %d %d 0 0 0' % (sp, lv, tr), lambda lv=lv, tr=tr: hs.represent_fine(lv=lv, truncate=tr),
                    ('repfine', desc, L, lv, tr))
        if L >= 2:
            lv = int(rng.integers(0, L)); N = int(hs.mesh(lv).numbf)
            rows = sorted(int(r) for r in rng.choice(N, size=int(rng.integers(1, N + 1)), replace=False))
            for restrict in (False, True):
                tr = bool(rng.integers(0, 2))
                add('repfine %s %d %d 1 %s %d' % (sp, lv, tr, plist(rows), restrict),
                    lambda lv=lv, tr=tr, restrict=restrict: hs.represent_fine(lv=lv, truncate=tr, rows=np.array(rows), restrict=restrict),
                    ('repfine-rows', desc, L, lv, tr, rows, restrict))
            for k in range(L - 1):
                inv = bool(rng.integers(0, 2))
                add('trunc1 %s %d %d %d' % (sp, k, hs.numdofs, inv), lambda k=k, inv=inv: hs.truncate_one_level(k, inverse=inv),
                    ('trunc1', desc, L, k, inv))
            add('thb2hb ' + sp, lambda: hs.thb_to_hb(), ('thb2hb', desc, L))
            add('hb2thb ' + sp, lambda: hs.hb_to_thb(), ('hb2thb', desc, L))
            for tr in (False, True):
                add('vprol %s %d' % (sp, tr), lambda tr=tr: hs.virtual_hierarchy_prolongators(truncate=tr), ('vprol', desc, L, tr))
        # level-wise coefficients
        c = rng.integers(-8, 9, size=hs.numdofs).astype(float)
        chb = hs.thb_to_hb() @ c if hs.truncate else c
        add('lvlw %s %s' % (sp, plist(chb.tolist(), frac)),
            lambda c=c: [f.coeffs.ravel() for f in hs.coeffs_to_levelwise_funcs(c)], ('lvlw', desc, L, c.tolist()))
        # boundary(): index map and the per-level index sets of the boundary space, every face
        if hs.dim >= 2:
            dims = [[int(n) for n in hs.mesh(l).numdofs] for l in range(L)]
            ID = hs.deactivated_indices()
            IAs = plist(IA, lambda a: plist(int(i) for i in a)); IDs = plist(ID, lambda a: plist(int(i) for i in a))
            for ax in range(hs.dim):
                for side in range(2):
                    add('bdmap %s %s %d %d' % (IAs, plist(dims, plist), ax, side),
                        lambda ax=ax, side=side: plist(int(i) for i in hs.boundary((ax, side))[1]), ('bdmap', desc, L, ax, side))

                    def fb(ax=ax, side=side):
                        bhs = hs.boundary((ax, side))[0]
                        a = bhs.active_indices(); d = bhs.deactivated_indices()
                        return [(plist(int(i) for i in a[l]), plist(int(i) for i in d[l])) for l in range(bhs.numlevels)]
                    add('bdspace %s %s %s %d %d' % (IAs, IDs, plist(dims, plist), ax, side), fb, ('bdspace', desc, L, ax, side))
        hier_cases.append((hs, desc))

    # prolongate_to pairs
    pairs = []
    npairs = 40 if quick else 500
    for it in range(npairs):
        dim = 1 if it % 4 else 2
        p = int(rng.integers(1, 4)) if dim == 1 else int(rng.integers(1, 3))
        n0 = tuple(int(rng.integers(2, 7)) for _ in range(dim)) if dim == 1 else tuple(int(rng.integers(2, 4)) for _ in range(dim))
        disparity = [1, 2, np.inf][int(rng.integers(0, 3))]
        try:
            akvs = None
            if dim == 2 and it % 8 == 0:
                akvs, order = aniso_kvs(rng, 2, p); n0 = tuple(int(k.numspans) for k in akvs)
            c, hist = gen_space(rng, dim, p, n0, int(rng.integers(0, 3)), disparity, False, 3, kvs=akvs)
            f = c.copy()
            hist2 = []
            for _ in range(int(rng.integers(1, 4))):
                lvls = [l for l in range(f.numlevels) if f.active_cells(l) and l < (3 if dim == 1 else 2)]
                if not lvls:
                    break
                l = int(rng.choice(lvls)); cells = sorted(f.active_cells(l))
                pick = {cells[int(q)] for q in rng.choice(len(cells), size=min(len(cells), int(rng.integers(1, 3))), replace=False)}
                hist2.append({l: sorted(pick)}); f.refine({l: pick})
        except Exception as ex:
            ctx.violation('hprol:generate', 'refinement raised %s' % type(ex).__name__, {'dim': dim, 'p': p, 'n0': n0}, False)
            continue
        d = describe(dim, p, n0, disparity, False, hist); d['fine_extra_history'] = hist2
        if akvs is not None:
            d['anisotropic_knots'] = [k.kv.tolist() for k in akvs]; ctx.count('pair anisotropic')
        pairs.append((c, f, d))
    # D13 witness
    c13 = hierarchical.HSpace((bspline.make_knots(2, 0.0, 1.0, 6),), disparity=1)
    f13 = c13.copy(); f13.refine({0: [(5,)]}); f13.refine({1: [(11,)]})
    d13 = describe(1, 2, (6,), 1, False, []); d13['fine_extra_history'] = [{0: [(5,)]}, {1: [(11,)]}]
    pairs.append((c13, f13, d13))
    for (c, f, d) in pairs:
        disp = max(c.disparity, f.disparity)
        ctx.case(('pair', repr(d)), nontrivial=f.numlevels >= 2)
        ctx.count('pair disparity=%s' % d['disparity']); ctx.count('pair fine levels=%d' % f.numlevels)
        add('prolto %s %s %d 0' % (fmt_space(c), fmt_space(f), -1 if disp == np.inf else int(disp)),
            lambda c=c, f=f: c.prolongate_to(f), ('prolto', d, c, f))

    # ------------------------------------------------------------ run the model, diff
    got = ctx.model('drv_c05', req)
    ndis = 0
    nknown = [0]
    nreq = {}

    def disagree(key, what, replay, found):
        ctx.violation(key, what, replay, found)

    for r, e, g, m in zip(req, exp, got, meta):
        kind = m[0]
        nreq[kind] = nreq.get(kind, 0) + 1
        bad = None
        try:
            if isinstance(e, str) and e.startswith('err-'):
                bad = 'implementation raised %s' % e[4:]
            elif g == 'bad-request':
                bad = 'model rejected the request'
            elif kind == 'kins':
                k, M = g.split(' ', 1)
                ok, d, nrm = mat_diff(parse_mat(M), e[1])
                if int(k) != e[0]:
                    bad = 'findspan: implementation %d, model %s' % (e[0], k)
                elif not ok or d > 4 * EPS:
                    bad = 'knot_insertion matrix differs from the coded Boehm coefficients in exact arithmetic by %.3e (bound 4 eps)' % d
            elif kind in ('prol', 'hT'):
                flag, M = g.split(' ', 1)
                ok, d, nrm = mat_diff(parse_mat(M), e[1])
                tol = 1e-15 + 64 * EPS * max(1.0, e[2]) * max(1.0, nrm)
                if flag != 'ok':
                    bad = 'model: inserting the missing knots does not reproduce kv2'
                elif not ok or d > tol:
                    bad = '%s differs from the exact composition of Boehm insertions by %.3e (bound %.2e)' % (
                        'prolongation' if kind == 'prol' else 'HMesh.P[%d][%d] (level %d -> %d, axis %d)' % (m[5], m[6], m[5], m[5] + 1, m[6]), d, tol)
            elif kind in ('repfine', 'repfine-rows', 'trunc1', 'thb2hb', 'hb2thb', 'prolto'):
                L = m[2] if kind != 'prolto' else m[3].numlevels
                ok, d, nrm = mat_diff(parse_mat(g), e)
                tol = 64 * EPS * (L + 1) * max(1.0, nrm)
                if not ok or d > tol:
                    bad = '%s differs from the exact model on the same inputs by %.3e (bound %.2e)' % (kind, d, tol)
            elif kind == 'vprol':
                parts = g.split(' | ')
                if int(parts[0]) != len(e):
                    bad = 'number of prolongators differs'
                else:
                    for q, (pm, pi) in enumerate(zip(parts[1:], e)):
                        ok, d, nrm = mat_diff(parse_mat(pm), pi)
                        tol = 64 * EPS * (m[2] + 1) * max(1.0, nrm)
                        if not ok or d > tol:
                            bad = 'virtual prolongator %d differs from the exact model by %.3e (bound %.2e)' % (q, d, tol)
            elif kind == 'lvlw':
                parts = g.split(' | ')
                for q, (pm, pi) in enumerate(zip(parts, e)):
                    vals = [float(Fraction(t)) for t in pm.split()[1:]]
                    if len(vals) != len(pi) or (len(vals) and np.abs(np.array(vals) - pi).max() > 0):
                        bad = 'level %d coefficient vector differs' % q
                if len(parts) != len(e):
                    bad = 'number of levels differs'
            elif kind == 'bdspace':
                lv = [tuple(x.strip() for x in part.split(';')) for part in g.split(' | ')]
                if lv[:len(e)] != [tuple(x) for x in e]:
                    bad = 'index sets of the boundary space differ: implementation %s, model %s' % (str(e)[:120], str(lv)[:120])
                elif any(x[0] != '0' for x in lv[len(e):]):
                    bad = 'boundary() cropped a level that still carries active functions on the face: model %s' % str(lv[len(e):])[:120]
            elif kind == 'bdmap':
                if g != e:
                    bad = 'boundary index map: implementation %s, model %s' % (e[:80], g[:80])
        except Exception as ex:
            bad = 'comparison failed: %s %s' % (type(ex).__name__, ex)
        if bad:
            ndis += 1
            if ndis > 12:
                continue
            found = search(ctx, m, e)
            known = found[0] if found else None
            key = known if known in (KEY_D9, KEY_D13, KEY_D18) else 'c05-corr:' + kind
            if key in ctx.known_keys() and found is not None:
                nknown[0] += 1
            disagree(key, 'model and implementation disagree on `%s`: %s%s' % (kind, bad, ('; oracle: ' + found[1]) if found else ''),
                     {'request': r[:3000], 'model': g[:1500], 'case': m[4] if kind == 'hT' else (m[1] if kind not in ('kins', 'prol') else list(m[1:])),
                      'oracle': found[1] if found else None, 'stream': 'kins/hprol (drv_c05)'}, found is not None)
    ctx.obligation('correspondence streams kins/prol/hprol: %d requests, model == implementation within the derived bounds' % len(req),
                   ndis - nknown[0] == 0, '%d disagreements, %d of them reproduced by the oracle as listed known findings' % (ndis, nknown[0]))
    ctx.extra['requests'] = len(req)
    ctx.extra['requests_by_kind'] = nreq
    ctx.extra['model_units_spent'] = budget.spent

    # ------------------------------------------------------------ model-free oracle on the implementation (the property itself)
    orng = np.random.default_rng(ctx.seed + 11)
    n_or = 0
    # 1-D transfers
    sel = [q for q, m in enumerate(meta) if m[0] in ('kins', 'prol')]
    for q in (orng.permutation(sel)[: (120 if quick else 1500)] if sel else []):
        m = meta[q]; e = exp[q]
        if isinstance(e, str):
            continue
        if m[0] == 'kins' and m[1] > 5 or m[0] == 'prol' and m[1] > 4 and quick:
            continue
        f = search(ctx, m, e)
        n_or += 1
        if f:
            ctx.violation(f[0] or ('c05-oracle:' + m[0]), f[1], {'case': list(m[1:])}, True)
    # hierarchical transfers
    nhist = 0; nhist_bad = 0
    for (hs, desc) in hier_cases:
        for f in oracle_space(hs, desc, orng):
            ctx.violation(f[0], f[1], {'case': desc, 'oracle': f[1]}, True)
        n_or += 1
        if hs.dim <= 2 or hs.mesh(hs.numlevels - 1).numbf <= 1000:
            nhist += 1
            for (key, what, rep) in history_checks(hs, desc, orng):
                nhist_bad += 1
                ctx.violation(key, what, rep, True)
    ctx.obligation('call-history stream: %d HSplineFunc/BSplineFunc histories (in-place edits, rebinding, truncate toggles) denote their '
                   'current data' % nhist, nhist_bad == 0, '%d failing histories' % nhist_bad)
    ctx.extra['call_histories'] = nhist
    for (c, f, d) in pairs:
        r = oracle_pair(c, f)
        n_or += 1
        if r:
            ctx.violation(r[0], r[1], {'case': d, 'oracle': r[1]}, True)
    ctx.extra['oracle_checks'] = n_or


def search(ctx, m, e=None):
    """model-free search starting from the disagreeing case.  Returns (key-or-None, description) or None."""
    from pyiga import bspline
    kind = m[0]
    try:
        if kind == 'kins':
            p, kv, u = m[1], m[2], m[3]
            K = bspline.KnotVector(np.array(kv), p)
            P = bspline.knot_insertion(K, u).toarray()
            kv2 = sorted(kv + [u])
            d = oracle_transfer_1d(kv, kv2, p, P, 8 * EPS * (p + 1))
            return (None, 'knot_insertion: ' + d) if d else None
        if kind == 'prol':
            p, kv1, kv2 = m[1], m[2], m[3]
            K1 = bspline.KnotVector(np.array(kv1), p); K2 = bspline.KnotVector(np.array(kv2), p)
            P = bspline.prolongation(K1, K2).toarray()
            if K1.numdofs == 1 and K2.numdofs > 1 and P.shape == (1, K2.numdofs):
                # (repaired by 107e802; probe kept) spsolve returns a 1-D array for a single right-hand side; csr_matrix() makes it a row
                return (KEY_D18, 'prolongation(kv1, kv2) with kv1.numdofs == 1 returns a 1 x %d row vector instead of the %d x 1 '
                        'prolongation matrix (p=%d, kv1=%s, kv2=%s)' % (K2.numdofs, K2.numdofs, p, kv1, kv2))
            cond = float(np.linalg.cond(bspline.collocation(K2, K2.greville()).toarray(), np.inf))
            tol = 1e-15 * P.shape[1] + 64 * EPS * max(1.0, cond) * (p + 1)
            d = oracle_transfer_1d(kv1, kv2, p, P, tol)
            return (None, 'prolongation: ' + d) if d else None
        if kind == 'hT':
            p, kv1, kv2 = m[1], m[2], m[3]
            if e is None or isinstance(e, str):
                return None
            P = e[1]
            tol = 1e-15 * P.shape[1] + 64 * EPS * max(1.0, e[2]) * (p + 1)
            d = oracle_transfer_1d(kv1, kv2, p, P, tol)
            return (None, 'tensor-product prolongation factor of the hierarchical mesh (level %d, axis %d): %s' % (m[5], m[6], d)) if d else None
        if kind == 'prolto':
            return oracle_pair(m[2], m[3])
        if kind in ('repfine', 'repfine-rows', 'trunc1', 'thb2hb', 'hb2thb', 'vprol', 'lvlw', 'bdmap', 'bdspace'):
            return None   # decided by oracle_space below (runs on every space anyway)
    except Exception as ex:
        return (None, 'implementation raised %s: %s' % (type(ex).__name__, str(ex)[:200]))
    return None


def oracle_pair(c, f):
    """I_f · P = T · I_c  with the implementation's own HB representation matrices (checked separately by evaluation)"""
    try:
        P = c.prolongate_to(f)
        If = f.represent_fine(truncate=False); Ic = c.represent_fine(truncate=False)
        T = tp_between(f, c.numlevels - 1, f.numlevels - 1)
        R = (If @ P - T @ Ic)
        d = float(abs(R).max()) if R.nnz else 0.0
        tol = 64 * EPS * (f.numlevels + 1)
        if d > tol:
            disp = max(c.disparity, f.disparity)
            # D13 (repaired in /repo by 6ce171d; listed as `fixed`, so a recurrence is a VIOLATION under this key):
            # finite disparity and the fine space more than `disparity` levels deeper than a replaced function
            deeper = disp < np.inf and any(
                (c.actfun[lv] - f.actfun[lv]) and f.numlevels > lv + disp + 1 for lv in range(c.numlevels))
            key = KEY_D13 if deeper else 'prolongate_to-not-function-preserving'
            return (key, 'prolongate_to: |I_f P - T I_c|_inf = %.4g (bound %.1e), disparity=%s, coarse levels=%d, fine levels=%d' % (
                d, tol, disp, c.numlevels, f.numlevels))
    except Exception as ex:
        return ('prolongate_to-raises', 'prolongate_to raised %s: %s' % (type(ex).__name__, str(ex)[:200]))
    return None


def oracle_space(hs, desc, rng):
    """the transfers of one hierarchical space, evaluated on the implementation only"""
    from pyiga import bspline, hierarchical
    out = []
    L = hs.numlevels
    tolL = 64 * EPS * (L + 1)
    try:
        # (a) HB representation = the level-wise B-splines (by evaluation, p+1 points per finest span)
        d = oracle_represent_fine(hs)
        if d > tolL * 4:
            out.append(('represent_fine-evaluation', 'represent_fine(HB): a column evaluated on the finest level differs from the '
                        'active B-spline it represents by %.3e' % d))
        Ihb = hs.represent_fine(truncate=False); Ithb = hs.represent_fine(truncate=True)
        # (b) THB and HB representations describe the same functions through thb_to_hb
        R = Ithb - Ihb @ hs.thb_to_hb()
        if R.nnz and abs(R).max() > tolL * 4:
            out.append(('thb-hb-representation', 'represent_fine(truncate=True) != represent_fine(truncate=False) @ thb_to_hb(): %.3e' % abs(R).max()))
        R = hs.thb_to_hb() @ hs.hb_to_thb() - scipy.sparse.identity(hs.numdofs)
        if R.nnz and abs(R).max() > tolL * 4:
            out.append(('thb-hb-inverse', 'thb_to_hb() @ hb_to_thb() != I: %.3e' % abs(R).max()))
        # (c) virtual hierarchy: composition from every level l reproduces T_{l->L-1} · (basis of virtual level l)
        for tr in (False, True):
            Ps = hs.virtual_hierarchy_prolongators(truncate=tr)
            I = hs.represent_fine(truncate=tr)
            M = I
            for l in reversed(range(L - 1)):
                M = M @ Ps[l]
                want = tp_between(hs, l, L - 1) @ hs.represent_fine(lv=l, truncate=tr)
                R = M - want
                d = float(abs(R).max()) if R.nnz else 0.0
                if d > tolL * 4:
                    ge3 = tr and L >= 3
                    out.append((KEY_D9 if ge3 else 'virtual-prolongators-not-function-preserving',
                                'virtual_hierarchy_prolongators(truncate=%s): represent_fine · P_%d..P_%d differs from the TP prolongation of '
                                'virtual level %d by %.4g (levels=%d)' % (tr, L - 2, l, l, d, L)))
                    break
        # (d) level-wise evaluation = evaluation of the finest TP representation (values, Jacobians, Hessians; grid and points)
        c = rng.integers(-8, 9, size=hs.numdofs).astype(float)
        grid = grid_for(hs)
        if hs.dim == 2 and len(grid[0]) * len(grid[1]) > 40000:
            grid = [g[::3] for g in grid]
        u = hierarchical.HSplineFunc(hs, c)
        fine = bspline.BSplineFunc(hs.knotvectors(L - 1), hs.represent_fine() @ c)
        scale = 8.0 * (2.0 ** (L - 1)) ** 2 * max(len(k.kv) for k in hs.knotvectors(0)) ** 2
        for name in ('grid_eval', 'grid_jacobian', 'grid_hessian'):
            a = getattr(u, name)(grid); b = getattr(fine, name)(grid)
            d = float(np.abs(a - b).max())
            mag = max(1.0, float(np.abs(b).max()))
            if d > 256 * EPS * mag * (L + 1):
                out.append(('levelwise-' + name, 'HSplineFunc.%s differs from the finest-level TP representation by %.3e (magnitude %.3g)' % (name, d, mag)))
        pts = [tuple(float(g[int(rng.integers(0, len(g)))]) for g in grid) for _ in range(5)]
        for pt in pts:
            a = u(*reversed(pt)); b = fine(*reversed(pt))
            if abs(a - b) > 256 * EPS * max(1.0, abs(b)) * (L + 1):
                out.append(('levelwise-eval-point', 'HSplineFunc.eval%r = %r, TP representation gives %r' % (pt, a, b)))
                break
        # (e) boundary restriction: u restricted to a face = boundary-space function with coefficients c[map]
        if hs.dim == 2:
            for ax in range(2):
                for side in range(2):
                    bhs, idx = hs.boundary((ax, side))
                    ub = hierarchical.HSplineFunc(bhs, c[idx])
                    g2 = list(grid)
                    kv = hs.knotvectors(0)[ax]
                    g2[ax] = np.array([kv.kv[0] if side == 0 else kv.kv[-1]])
                    a = u.grid_eval(g2).ravel()
                    b = ub.grid_eval([g2[1 - ax]]).ravel()
                    if a.shape != b.shape or np.abs(a - b).max() > 256 * EPS * max(1.0, np.abs(b).max()) * (L + 1):
                        out.append(('boundary-restriction', 'restriction to face (axis %d, side %d) differs from the boundary HSpace function '
                                    'with the mapped coefficients by %.3e' % (ax, side, np.abs(a - b).max() if a.shape == b.shape else np.inf)))
    except Exception as ex:
        out.append(('hprol-raises', 'a transfer operation raised %s: %s' % (type(ex).__name__, str(ex)[:200])))
    return out
