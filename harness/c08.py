"""
C08 — assembly is independent of symmetry flag, sparse format, vector layout, subset of entries /
rows / bounding box, update of fields / parameters, reuse, thread count and chunking (DESIGN §6/C08).

tie:  hand-written Lean model (Pyiga.Model.Assembler, driver drv_c08; bbox entries via drv_c01)
      stream `cfg`: for compiled + shipped assemblers on random spaces the entries `asm.entry(i,j)`
      (blocks `asm.multi_blocks([(i,j)])`) are sent as the oracle; the model predicts the matrix of
      every configuration symmetric x {csr,csc,coo,bsr,mlb} x {blocked,packed}; the implementation's
      matrix is compared *exactly* (same doubles in the same places).  chunk_tasks / multi_entries
      ordering / worker write-sets exactly.  Thread counts 1,2,3,5,8,16 in fresh subprocesses:
      bitwise equality of every result across n.
theorems: Pyiga.Props.C08.*
search (model-free): dense toarray() comparison between configurations and entry-by-entry asm.entry.
"""
import hashlib
import json
import os
import pickle
import sys
import time
from fractions import Fraction

import numpy as np

from .common import plist, frac
from . import c01

THEOREMS = [
    'Pyiga.Props.C08.chunks_partition', 'Pyiga.Props.C08.chunks_same_cuts', 'Pyiga.Props.C08.chunks_at_most_k',
    'Pyiga.Props.C08.multi_entries_any_thread_count', 'Pyiga.Props.C08.writes_commute',
    'Pyiga.Props.C08.schedule_independent',
    'Pyiga.Props.C08.sym_equiv', 'Pyiga.Props.C08.vec_skip_is_upper', 'Pyiga.Props.C08.block_transpose',
    'Pyiga.Props.C08.format_layout_index', 'Pyiga.Props.C08.format_layout_perm_bijective', 'Pyiga.Props.C08.format_layout_entry',
    'Pyiga.Props.C08.format_layout_maps', 'Pyiga.Props.C08.format_layout_maps_entrywise', 'Pyiga.Props.C08.format_layout_loop_rotation',
    'Pyiga.Props.C08.subset_restriction', 'Pyiga.Props.C08.subset_bbox', 'Pyiga.Props.C08.subset_bbox_full_sum',
    'Pyiga.Props.C08.update_equiv', 'Pyiga.Props.C08.update_equiv_repaired', 'Pyiga.Props.C08.precompute_rule_before_after', 'Pyiga.Props.C08.precompute_rule_parameters',
    'Pyiga.Props.C08.update_needs_independence', 'Pyiga.Props.C08.update_params_slots',
]
MODULES = ['Pyiga.Model.Index', 'Pyiga.Model.MLMatrix', 'Pyiga.Model.Layout', 'Pyiga.Model.Assembler', 'Pyiga.Proofs.Index',
           'Pyiga.Proofs.Layout', 'Pyiga.Proofs.Chunks', 'Pyiga.Proofs.AsmSym', 'Pyiga.Proofs.AsmFormat', 'Pyiga.Proofs.AsmSum',
           'Pyiga.Proofs.AsmUpdate', 'Pyiga.Proofs.AsmBbox', 'Pyiga.Proofs.AsmFormatMaps', 'Pyiga.Props.C08']

# (form of c01.FORMS, is the form symmetric?)
CFG_FORMS = [('lapl_c', True), ('mass2', True), ('stiff3', True), ('conv1d', False), ('pg', False),
             ('vec22', True), ('vec21', False), ('divdiv2', True), ('matpar', False), ('divdiv3', True), ('pg_mult', False)]
THREAD_COUNTS = [1, 2, 3, 5, 8, 16]
UPD_FORM = 'f*u*v*dx + c*inner(grad(u),grad(v))*dx'
UPD2_FORM = 'f*u*v*dx + inner(grad(f),grad(u))*v*dx + c*inner(grad(f),grad(f))*u*v*dx'     # updatable field at two derivative orders
SYM_TOL = 8 * 4.0 * 8200 * 2.0 ** -53     # 8 x the C01 forward-error factor for <= 8000 nodes, relative to max|entry|
STALE_FORM = 'f*f*f*f*u*v*dx + f*f*f*f*inner(grad(u),grad(v))*dx + f*u*v*dx'
STALE_FORM2 = 'f*f*f*f*u*v*dx + f*f*f*f*inner(grad(u),grad(v))*dx'     # every use of f goes through the common subexpression
PRECOMP_PARAM_FORMS = ['c*c*c*c*u*v*dx + c*c*c*c*inner(grad(u),grad(v))*dx', 'exp(c*f+1)*u*v*dx + exp(c*f+1)*inner(grad(u),grad(v))*dx', 'c*f*u*v*dx']
PRECOMP_FORMS = [UPD_FORM.replace('c*', ''), STALE_FORM, STALE_FORM2, 'exp(f*f+1)*u*v*dx + exp(f*f+1)*f*inner(grad(u),grad(v))*dx',
                 'f*u*v*dx', 'inner(grad(f),grad(f))*u*v*dx + inner(grad(f),grad(f))*inner(grad(u),grad(v))*dx', 'u*v*dx',
                 'f*u*v*dx + inner(grad(f),grad(u))*v*dx', UPD2_FORM.replace('c*', '')]


def canon(A):
    """canonical triples of a scipy sparse matrix / dense array: sorted, duplicates summed, exact zeros dropped"""
    import scipy.sparse
    A = scipy.sparse.coo_matrix(A)
    A.sum_duplicates()
    t = sorted((int(i), int(j), float(v)) for i, j, v in zip(A.row, A.col, A.data) if v != 0.0)
    return plist(t, lambda x: '%d,%d,%s' % (x[0], x[1], frac(x[2])))


def fmt_pairs(I, J):
    return plist(zip(I, J), lambda p: '%d %d' % (int(p[0]), int(p[1])))


def guard(f):
    try:
        return f()
    except AssertionError:
        return 'err-assertion'
    except KeyError:
        return 'err-key'
    except BaseException as ex:
        return 'err-' + type(ex).__name__


def worker_cfg(name, symform, seed, tier):
    import pyiga
    from pyiga import assemble, mlmatrix, _hdiscr, assemble_tools
    pyiga.set_max_threads(1)
    out = {'name': name, 'status': 'ok', 'violations': [], 'reqs': [], 'counts': {}}
    case = c01.make_case(name, seed, tier)
    asm = c01.instantiate(name, case)
    kvs0, kvs1 = asm.kvs
    rng = case['rng']
    dim = case['dim']
    S = mlmatrix.MLStructure.from_kvs(kvs0, kvs1)
    I, J = S.nonzero()
    I = I.astype(np.int64); J = J.astype(np.int64)
    is_vec = hasattr(asm, 'num_components')
    desc = {'form': str(c01.FORMS[name][2]), 'seed': seed, 'kvs0': [(kv.kv.tolist(), kv.p) for kv in kvs0],
            'kvs1': [(kv.kv.tolist(), kv.p) for kv in kvs1], 'geometry': case['gkind']}
    out['desc'] = desc
    bs = plist(S.bs, lambda b: '%d %d' % tuple(b))
    bidx = plist(S.bidx, lambda p: plist(p.tolist(), lambda e: '%d %d' % tuple(e)))
    nzs = fmt_pairs(I, J)
    square = S.shape[0] == S.shape[1]
    if not is_vec:
        vals = [float(asm.entry(int(i), int(j))) for i, j in zip(I, J)]
        dense = np.zeros(S.shape); dense[I, J] = vals
        vs = plist(vals, frac)
        for sym in ([False, True] if square else [False]):
            if sym and not symform:
                continue
            for fmt in ('csr', 'csc', 'coo', 'bsr'):
                got = guard(lambda: canon(assemble.assemble_entries(asm, symmetric=sym, format=fmt)))
                out['reqs'].append(('drv_c08', 'asm %d %d %s %s' % (sym, dim, nzs, vs), got, 'asm sym=%s fmt=%s' % (sym, fmt)))
                if not got.startswith('err'):
                    A = assemble.assemble_entries(asm, symmetric=sym, format=fmt).toarray()
                    # symmetric=True copies e(i,j) into (j,i): equal to e(j,i) only to rounding accuracy (both within the C01 bound)
                    tol = 0.0 if not sym else SYM_TOL * float(np.max(np.abs(dense)))
                    if np.max(np.abs(A - dense)) > tol:
                        out['violations'].append(('cfg-oracle:' + name, 'assemble_entries(symmetric=%s, format=%s) differs from the matrix of asm.entry(i,j) by %g' % (sym, fmt, float(np.max(np.abs(A - dense)))), desc, True))
        if dim == 1:
            # symmetric=True in 1-D: MLStructure.nonzero(lower_tri=True) refuses explicitly ('Lower triangular part not
            # implemented in 1D'); an explicit assertion, recorded as an observation (docs/C08.md), modelled as err-assertion
            got = guard(lambda: canon(assemble.assemble_entries(asm, symmetric=True, format='csr')))
            out['reqs'].append(('drv_c08', 'asm 1 1 %s %s' % (nzs, vs), got, 'asm 1-D symmetric=True'))
            out['counts']['1-D symmetric probes'] = 1
        # entry() for ALL index pairs vs the assembled matrix: independent of the sparsity pattern the assembly enumerates
        if S.shape[0] * S.shape[1] <= 6000:
            full = np.array([[asm.entry(i, j) for j in range(S.shape[1])] for i in range(S.shape[0])])
            Afull = assemble.assemble_entries(asm, symmetric=False, format='csr').toarray()
            out['counts']['full entry() tables'] = 1
            if not np.array_equal(full, Afull):
                k = np.argwhere(full != Afull)[0]
                out['violations'].append(('pattern:' + name, 'assembled matrix differs from asm.entry(i,j) over ALL index pairs: entry(%d,%d) = %r but the assembled matrix has %r there (%d positions differ: the enumerated sparsity pattern misses non-zero entries)'
                                          % (k[0], k[1], float(full[k[0], k[1]]), float(Afull[k[0], k[1]]), int(np.sum(full != Afull))), desc, True))
        # symmetric flag on a symmetric form vs entry symmetry itself (hypothesis of sym_equiv)
        if symform and square:
            asym = np.max(np.abs(dense - dense.T)) if dense.size else 0.0
            out['counts']['max |e(i,j)-e(j,i)| (symmetric forms)'] = float(asym)
        # subsets of entries
        M, N = S.shape
        for _ in range(6):
            k = int(rng.choice([0, 1, 2, 3, 7, 15, 40]))
            idx = np.stack([rng.integers(0, M, size=k), rng.integers(0, N, size=k)], axis=1).astype(np.uintp) if k else np.zeros((0, 2), dtype=np.uintp)
            r = guard(lambda: np.asarray(asm.multi_entries(idx)).tolist())
            want = [float(asm.entry(int(a), int(b))) for a, b in idx]
            out['counts']['subset calls'] = out['counts'].get('subset calls', 0) + 1
            if r != want:
                out['violations'].append(('subset:' + name, 'multi_entries(S) != [entry(i,j) for (i,j) in S] for S=%s: %s' % (idx.tolist()[:6], str(r)[:100]), desc, True))
        # also as an iterator of pairs
        it = [(int(a), int(b)) for a, b in zip(I[:5], J[:5])]
        r = guard(lambda: np.asarray(asm.multi_entries(iter(it))).tolist())
        if r != [float(asm.entry(a, b)) for a, b in it]:
            out['violations'].append(('subset:' + name, 'multi_entries(iterator) != entries', desc, True))
        # row subsets
        for _ in range(3):
            k = int(rng.integers(1, min(M, 6) + 1))
            R = [int(x) for x in rng.permutation(M)[:k]]
            got = guard(lambda: canon(_hdiscr._assemble_partial_rows(asm, np.array(R))))
            out['reqs'].append(('drv_c08', 'rows %s %s %s %s %s' % (bs, bidx, plist(R), nzs, vs), got, 'rows %s' % R))
            sub = np.zeros_like(dense); sub[R, :] = dense[R, :]
            if not got.startswith('err') and got != canon(sub):
                out['violations'].append(('rows:' + name, '_assemble_partial_rows(rows=%s) is not the restriction of the full matrix' % R, desc, True))
    else:
        nc0, nc1 = asm.num_components()
        blocks = [np.asarray(asm.multi_blocks(np.array([[i, j]], dtype=np.uintp)))[0] for i, j in zip(I, J)]   # (nc0? x nc1?) as returned
        flat = [b.ravel().tolist() for b in blocks]
        bl = plist(flat, lambda b: plist(b, frac))
        M, N = S.shape
        # dense references from the blocks: block (I,J) is a (nc1 x nc0) = (test x trial) matrix in row-major order
        packed = np.zeros((M * nc1, N * nc0)); blocked = np.zeros((M * nc1, N * nc0))
        for (i, j, b) in zip(I, J, flat):
            B = np.array(b).reshape(nc1, nc0)
            packed[i * nc1:(i + 1) * nc1, j * nc0:(j + 1) * nc0] = B
            for r in range(nc1):
                for c in range(nc0):
                    blocked[r * M + i, c * N + j] = B[r, c]
        cfgs = [(l, f) for l in ('packed', 'blocked') for f in ('csr', 'csc', 'coo', 'bsr', 'mlb')]
        if dim == 3:     # large matrices: the distinct code paths only
            cfgs = [('packed', 'bsr'), ('packed', 'csr'), ('blocked', 'csr'), ('blocked', 'mlb')]
        if square and symform:
            # which blocks does the symmetric core compute, which does it fill by mirroring?  (model: vecSkip = J > I lexicographically)
            core = getattr(assemble_tools, 'generic_assemble_core_vec_%dd' % dim)
            raw = guard(lambda: np.asarray(core(asm, S.bidx[:dim], True)).reshape(len(I), nc1 * nc0))
            if isinstance(raw, str):
                out['violations'].append(('vec-core:' + name, 'generic_assemble_core_vec_%dd(symmetric=True) raised %s' % (dim, raw), desc, True))
            else:
                pos = {(int(i), int(j)): k for k, (i, j) in enumerate(zip(I, J))}
                skipped = []
                ndet = 0
                for k, (i, j) in enumerate(zip(I, J)):
                    B = np.array(flat[k]); BT = np.array(flat[pos[(int(j), int(i))]]).reshape(nc1, nc0).T.ravel()
                    if i == j or np.array_equal(B, BT):
                        # computed or mirrored cannot be told apart (diagonal, or bitwise symmetric) - but it must be that block
                        skipped.append('?' if np.array_equal(raw[k], B) else 'x')
                    elif np.array_equal(raw[k], B):
                        skipped.append('0'); ndet += 1
                    elif np.array_equal(raw[k], BT):
                        skipped.append('1'); ndet += 1
                    else:
                        skipped.append('x')          # neither the block nor the mirrored one
                out['counts']['skip-set: determined blocks'] = ndet
                out['reqs'].append(('drv_c08', 'skipset %s' % plist(S.bidx, lambda p: plist(p.tolist(), lambda e: '%d %d' % tuple(e))), ('skip', skipped), 'vector core skip set'))
                if 'x' in skipped:
                    k = skipped.index('x')
                    out['violations'].append(('vec-core:' + name, 'symmetric vector core: block (%d,%d) is neither asm.multi_blocks (i,j) nor the transposed (j,i) block (e.g. left zero)' % (I[k], J[k]), desc, True))
        for sym in ([False, True] if (square and symform) else [False]):
            for (layout, fmt) in cfgs:
                if True:
                    def f():
                        A = assemble.assemble_entries(asm, symmetric=sym, format=fmt, layout=layout)
                        if fmt == 'mlb':
                            # the operator itself (ml_matvec_2d/3d for <= 3 levels) against its own sparse form
                            v = rng.integers(-2, 3, size=A.shape[1]).astype(float)
                            Am = A.asmatrix()
                            y = np.asarray(A @ v).ravel()
                            bound = 64 * 2.0 ** -53 * (abs(Am) @ np.abs(v)) + 1e-300
                            if y.shape != (A.shape[0],) or np.any(np.abs(y - Am @ v) > bound):
                                out['violations'].append(('mlb-matvec:' + name, 'MLMatrix (format=mlb, layout=%s, %dx%d component blocks) applied to a vector differs from its asmatrix() times the vector' % (layout, nc1, nc0), desc, True))
                            A = Am
                        return canon(A)
                    got = guard(f)
                    if layout == 'packed' and fmt == 'bsr':
                        req = 'vecbsr %d %d %d %d %s %s' % (sym, dim, nc1, nc0, nzs, bl)
                    else:
                        req = 'vecgen %d %d %d %d %s %s %s %s' % (sym, layout == 'blocked', nc0, nc1, bs, bidx, nzs, bl)
                    if got.startswith('err') and not sym:
                        key = 'bsr-nonsquare-blocks' if (layout == 'packed' and fmt == 'bsr' and nc0 != nc1) else 'cfg-raises:' + name
                        out['violations'].append((key, 'assemble_entries(symmetric=False, format=%s, layout=%s) raised %s for a form with %dx%d component blocks' % (fmt, layout, got, nc1, nc0), desc, True))
                        continue
                    out['reqs'].append(('drv_c08', req, got, 'vec sym=%s layout=%s fmt=%s' % (sym, layout, fmt)))
                    ref = packed if layout == 'packed' else blocked
                    if sym and not got.startswith('err'):
                        Ad = assemble.assemble_entries(asm, symmetric=sym, format='csr', layout=layout).toarray()
                        if np.max(np.abs(Ad - ref)) > SYM_TOL * float(np.max(np.abs(ref))):
                            out['violations'].append(('cfg-oracle:' + name, 'assemble_entries(symmetric=True, layout=%s) differs from the matrix of the blocks by %g' % (layout, float(np.max(np.abs(Ad - ref)))), desc, True))
                    elif not got.startswith('err') and got != canon(ref):
                        out['violations'].append(('cfg-oracle:' + name, 'assemble_entries(symmetric=%s, format=%s, layout=%s) differs from the matrix of the blocks asm.multi_blocks([(i,j)])'
                                                  % (sym, fmt, layout), desc, True))
        if nc0 != nc1:
            # symmetric=True with non-square component blocks: the BSR path must refuse explicitly
            got = guard(lambda: canon(assemble.assemble_entries(asm, symmetric=True, format='bsr', layout='packed')))
            out['counts']['nonsquare+symmetric bsr probes'] = 1
            out['reqs'].append(('drv_c08', 'vecbsr 1 %d %d %d %s %s' % (dim, nc1, nc0, nzs, bl), got, 'vec nonsquare symmetric bsr'))
            if not got.startswith('err'):
                out['violations'].append(('nonsquare-symmetric-accepted', 'symmetric=True with %dx%d component blocks was accepted on the BSR path' % (nc1, nc0), desc, True))
        # subsets of blocks
        for _ in range(4):
            k = int(rng.choice([0, 1, 2, 5, 17]))
            idx = np.stack([rng.integers(0, M, size=k), rng.integers(0, N, size=k)], axis=1).astype(np.uintp) if k else np.zeros((0, 2), dtype=np.uintp)
            r = guard(lambda: np.asarray(asm.multi_blocks(idx)).tolist())
            want = [np.asarray(asm.multi_blocks(np.array([[a, b]], dtype=np.uintp)))[0].tolist() for a, b in idx]
            out['counts']['subset calls'] = out['counts'].get('subset calls', 0) + 1
            if r != want:
                out['violations'].append(('subset:' + name, 'multi_blocks(S) != blocks one by one', desc, True))
    # reuse: assembling twice with the same object gives the same matrix
    a1 = guard(lambda: canon(assemble.assemble_entries(asm) if not is_vec else assemble.assemble_entries(asm, layout='packed')))
    a2 = guard(lambda: canon(assemble.assemble_entries(asm) if not is_vec else assemble.assemble_entries(asm, layout='packed')))
    if a1 != a2:
        out['violations'].append(('reuse:' + name, 'assembling twice with the same assembler object gives different matrices', desc, True))
    out['counts']['cfg instances'] = 1
    out['counts']['nnz'] = int(len(I))
    return out


def worker_bbox(seed, tier):
    """on-demand assembler restricted to a bounding box vs the full assembler (and the Lean model with bbox offsets)"""
    import pyiga
    from pyiga import compile, vform, mlmatrix
    pyiga.set_max_threads(1)
    name = 'lapl_c'
    out = {'name': 'bbox', 'status': 'ok', 'violations': [], 'reqs': [], 'counts': {}}
    case = c01.make_case(name, seed, tier)
    asm = c01.instantiate(name, case)
    kvs = case['kvs0']; dim = 2
    problem = c01.FORMS[name][2]
    vf = vform.parse_vf(problem, kvs, args=case['args'])
    cls = c01.quiet_call(lambda: compile.compile_vform(vf, on_demand=True))
    o, nqp, grid, gw = c01.build_oracle(name, case)
    terms = c01.FORMS[name][6](o)
    terms_abs = c01.FORMS[name][6](c01.AbsOracle(o))
    rng = case['rng']
    desc = {'form': problem, 'seed': seed, 'kvs0': [(kv.kv.tolist(), kv.p) for kv in kvs], 'geometry': case['gkind']}
    out['desc'] = desc
    cfac = 4.0 * (o.nn + 40 * (dim * dim + len(terms))) * c01.EPS
    ms = [kv.mesh_support_idx_all() for kv in kvs]
    nd = [kv.numdofs for kv in kvs]
    ncell = [len(kv.mesh) - 1 for kv in kvs]
    Ng = [len(g) for g in grid]
    for _ in range(6):
        bbox = []
        for k in range(dim):
            a = int(rng.integers(0, ncell[k])); b = int(rng.integers(a + 1, ncell[k] + 1))
            bbox.append((a, b))
        bbox = tuple(bbox)
        inst = c01.guard_call(lambda: cls(kvs, bbox=bbox, **case['args']))
        if isinstance(inst, str):
            out['violations'].append(('bbox-build', 'on-demand assembler could not be instantiated for bbox %s: %s' % (bbox, inst), desc, True))
            continue
        # functions whose support lies inside the bbox
        inside = [[i for i in range(nd[k]) if bbox[k][0] <= ms[k][i, 0] and ms[k][i, 1] <= bbox[k][1]] for k in range(dim)]
        if any(len(x) == 0 for x in inside):
            continue
        supp = lambda: plist([(nqp * m).tolist() for m in ms], lambda t: plist(t, lambda e: '%d %d' % tuple(e)))
        for _ in range(10):
            Ii = [int(rng.choice(inside[k])) for k in range(dim)]; Jj = [int(rng.choice(inside[k])) for k in range(dim)]
            i = int(np.ravel_multi_index(Ii, nd)); j = int(np.ravel_multi_index(Jj, nd))
            v_od = float(inst.entry(i, j)); v_full = float(asm.entry(i, j))
            F = np.zeros(o.nn); Fa = np.zeros(o.nn)
            for (bi, bj, V, U, coef) in terms:
                F += np.asarray(coef) * o.W * V[:, i] * U[:, j]
            for (bi, bj, V, U, coef) in terms_abs:
                Fa += np.abs(coef) * o.W * V[:, i] * U[:, j]
            tol = cfac * float(Fa.sum()) + 1e-300
            out['counts']['bbox entries'] = out['counts'].get('bbox entries', 0) + 1
            if abs(v_od - v_full) > 2 * tol:
                out['violations'].append(('bbox', 'on-demand assembler with bbox %s: entry(%d,%d) = %r, full assembler %r (tolerance %g)' % (bbox, i, j, v_od, v_full, 2 * tol), desc, True))
            # Lean model with the bbox offset: local table = global table restricted to the bbox nodes
            Floc = F.reshape(Ng)[tuple(slice(nqp * bb[0], nqp * bb[1]) for bb in bbox)]
            req = 'entry2 %s %s %s %s %s %d %d %s %s' % (plist(nd), plist(nd), supp(), supp(), plist([nqp * bb[0] for bb in bbox]), i, j,
                                                         plist(Floc.shape), plist(Floc.ravel().tolist(), frac))
            out['reqs'].append(('drv_c01', req, ('num', v_od, tol), 'bbox %s entry (%d,%d)' % (bbox, i, j)))
    return out


def _field(kvs, rng, lo=0.5, hi=1.5):
    from pyiga import bspline
    fk = tuple(bspline.make_knots(2, 0.0, 1.0, 2) for _ in kvs)
    return bspline.BSplineFunc(fk, rng.uniform(lo, hi, size=tuple(kv.numdofs for kv in fk)))


def worker_update(seed, tier, stale, form2=False, two_orders=False):
    """update(f=...) / update_params vs constructing afresh; reuse of one assembler object"""
    import pyiga
    from pyiga import assemble
    pyiga.set_max_threads(1)
    out = {'name': 'update-stale' if stale else 'update', 'status': 'ok', 'violations': [], 'reqs': [], 'counts': {}}
    case = c01.make_case('lapl_c', seed, tier)
    kvs = case['kvs0']; geo = case['geo']; rng = case['rng']
    form = (STALE_FORM2 if form2 else STALE_FORM) if stale else (UPD2_FORM if two_orders else UPD_FORM)
    desc = {'form': form, 'updatable': ['f'], 'seed': seed, 'kvs0': [(kv.kv.tolist(), kv.p) for kv in kvs], 'geometry': case['gkind']}
    out['desc'] = desc
    f0 = _field(kvs, rng)
    args = {'geo': geo, 'f': f0} if stale else {'geo': geo, 'f': f0, 'c': 1.5}
    try:
        a = c01.quiet_call(lambda: assemble.Assembler(form, kvs, args=dict(args), updatable=['f']))
    except AssertionError as ex:
        # before 5ff56ef generate_update refused this form ('only global array vars can be updated'); since the fix it must build
        out['violations'].append(('update-stale-precomputed', 'Assembler with an updatable field used only through a common subexpression does not build: AssertionError %s' % str(ex)[:200], desc, True))
        return out
    def fresh_updatable(args_k):
        # constructing afresh = a new Assembler of the same (updatable) class with the new inputs: bitwise
        return c01.quiet_call(lambda: assemble.Assembler(form, kvs, args=dict(args_k), updatable=['f'])).assemble()

    def close(A, B):
        # a non-updatable assembler of the same form is a different kernel (precomputes more): equal to rounding accuracy
        d = abs(A - B)
        return (d.max() if d.nnz else 0.0) <= SYM_TOL * max(abs(B).max(), 1e-300)

    A0 = a.assemble()
    if (A0 != fresh_updatable(args)).nnz:
        out['violations'].append(('update-init', 'two Assembler objects constructed with the same inputs assemble different matrices', desc, True))
    if not close(A0, c01.quiet_call(lambda: assemble.assemble(form, kvs, args=dict(args)))):
        out['violations'].append(('update-init', 'Assembler(..., updatable=[f]).assemble() differs from assemble(...) beyond rounding accuracy', desc, True))
    fs = [_field(kvs, rng) for _ in range(int(rng.integers(2, 5)))]
    for step, fk in enumerate(fs):
        if rng.integers(0, 2) == 0:
            a.update(f=fk); A = a.assemble()
        else:
            A = a.assemble(f=fk)
        args_k = dict(args); args_k['f'] = fk
        fresh = fresh_updatable(args_k)
        plain = c01.quiet_call(lambda: assemble.assemble(form, kvs, args=args_k))
        out['counts']['update steps'] = out['counts'].get('update steps', 0) + 1
        d = abs(A - fresh)
        if (d.nnz and d.max() > 0) or not close(A, plain):
            rel = float(max(d.max() if d.nnz else 0.0, abs(A - plain).max()) / max(abs(plain).max(), 1e-300))
            key = 'update-stale-precomputed' if stale else 'update'
            out['violations'].append((key, 'Assembler.update(f=…) then assemble() differs from constructing afresh with the new field (max rel. difference %.3g at update step %d; '
                                      'bitwise vs a new updatable Assembler, rounding accuracy vs assemble())' % (rel, step),
                                      dict(desc, f_coeffs=np.asarray(fk.coeffs).tolist()), True))
            break
        A2 = a.assemble()      # reuse without update
        if (A2 != A).nnz:
            out['violations'].append(('reuse', 'assembling again with the same Assembler object changes the matrix', desc, True))
    if not stale:
        # parameters: update_params(c=...) vs fresh
        for cv in (0.25, 3.0):
            a.asm.update_params(c=cv)
            A = a.assemble()
            args_k = dict(args); args_k['f'] = fs[-1]; args_k['c'] = cv
            fresh = fresh_updatable(args_k)
            out['counts']['update_params steps'] = out['counts'].get('update_params steps', 0) + 1
            if (A != fresh).nnz or not close(A, c01.quiet_call(lambda: assemble.assemble(form, kvs, args=args_k))):
                out['violations'].append(('update-params', 'update_params(c=%r) then assemble() differs from constructing afresh' % cv, desc, True))
        # malformed: non-updatable name / wrong shape
        r = guard(lambda: a.update(geo=geo))
        out['reqs'].append((None, 'update of a non-updatable argument', r, 'err-RuntimeError'))
        r = guard(lambda: a.asm.update_params(c=np.zeros(2)))
        out['reqs'].append((None, 'update_params with wrong shape', r, 'err-TypeError'))
    return out


UPDPAR_FORMS = ['c*c*c*c*u*v*dx + c*c*c*c*inner(grad(u),grad(v))*dx',           # CSE extracts the constant c^4
                'exp(c*f+1)*u*v*dx + exp(c*f+1)*inner(grad(u),grad(v))*dx',             # CSE extracts a FIELD-scope expression of the parameter
                'let']                                                              # vf.let('k', c*c); k*u*v*dx + c*inner(grad u, grad v)*dx


def worker_updparams(which, seed, tier):
    """update_params() vs constructing afresh for constants / precomputed fields DERIVED from a parameter"""
    import pyiga
    from pyiga import assemble, vform, compile
    pyiga.set_max_threads(1)
    out = {'name': 'updparams%d' % which, 'status': 'ok', 'violations': [], 'reqs': [], 'counts': {}}
    case = c01.make_case('lapl_c', seed, tier)
    kvs = case['kvs0']; geo = case['geo']; rng = case['rng']
    form = UPDPAR_FORMS[which]
    f = _field(kvs, rng)
    desc = {'form': form if form != 'let' else "vf.let('k', c*c); vf.add(k*u*v*dx + c*inner(grad(u),grad(v))*dx)", 'seed': seed,
            'kvs0': [(kv.kv.tolist(), kv.p) for kv in kvs], 'geometry': case['gkind']}
    out['desc'] = desc
    if form == 'let':
        def mk():
            vf = vform.VForm(2)
            u, v = vf.basisfuns()
            c = vf.parameter('c')
            k = vf.let('k', c * c)
            vf.add(k * u * v * vform.dx + c * vform.inner(vform.grad(u), vform.grad(v)) * vform.dx)
            return vf
        cls = c01.quiet_call(lambda: compile.compile_vform(mk()))
        new = lambda cv: cls(kvs, geo=geo, c=cv)
    else:
        args = {'geo': geo, 'c': 1.0, 'f': f}
        def new(cv):
            a = dict(args); a['c'] = cv
            return c01.quiet_call(lambda: assemble.instantiate_assembler(form, kvs, a, None))
    cvals = [float(x) for x in rng.integers(1, 9, size=4) / 4.0]
    asm = new(cvals[0])
    for step, cv in enumerate(cvals[1:] + [cvals[0]]):      # ... and back to the first value
        asm.update_params(c=cv)
        A = assemble.assemble_entries(asm)
        fresh = assemble.assemble_entries(new(cv))
        out['counts']['update_params (derived) steps'] = out['counts'].get('update_params (derived) steps', 0) + 1
        d = abs(A - fresh)
        if d.nnz and d.max() > 0:
            out['violations'].append(('update-params-derived-constants',
                                      'update_params(c=%r) then assemble() differs from constructing afresh with c=%r (max rel. difference %.3g at step %d): '
                                      'a constant / precomputed field derived from the parameter is computed once at construction and not refreshed'
                                      % (cv, cv, float(d.max() / max(abs(fresh).max(), 1e-300)), step), dict(desc, c_sequence=cvals), True))
            break
    return out


ASMCLASS_UPD_FORM = 'f*inner(u,v)*dx + div(u)*div(v)*dx'


def worker_asmclass(seed, tier, updatable):
    """the Assembler-class route for vector-valued forms: ONE reused object, every format x layout (and field updates
    in between), each result against the model fed with the blocks of the underlying assembler"""
    import pyiga
    from pyiga import assemble, mlmatrix
    pyiga.set_max_threads(1)
    out = {'name': 'asmclass' + ('-upd' if updatable else ''), 'status': 'ok', 'violations': [], 'reqs': [], 'counts': {}}
    case = c01.make_case('vec22', seed, tier)
    kvs = case['kvs0']; geo = case['geo']; rng = case['rng']; dim = 2
    form = ASMCLASS_UPD_FORM if updatable else c01.FORMS['vec22'][2]
    bfuns = [('u', 2), ('v', 2)]
    desc = {'form': form, 'bfuns': bfuns, 'route': 'assemble.Assembler(...).assemble(format, layout)', 'seed': seed,
            'kvs0': [(kv.kv.tolist(), kv.p) for kv in kvs], 'geometry': case['gkind']}
    out['desc'] = desc
    fields = [_field(kvs, rng) for _ in range(3)]
    for sym in (False, True):
        args = {'geo': geo}
        if updatable:
            args['f'] = fields[0]
        a = c01.quiet_call(lambda: assemble.Assembler(form, kvs, args=dict(args), bfuns=bfuns, symmetric=sym, updatable=['f'] if updatable else []))
        asm = a.asm
        S = mlmatrix.MLStructure.from_kvs(*asm.kvs)
        I, J = S.nonzero(); I = I.astype(np.int64); J = J.astype(np.int64)
        M, N = S.shape
        nc0, nc1 = asm.num_components()
        bs = plist(S.bs, lambda b: '%d %d' % tuple(b))
        bidx = plist(S.bidx, lambda p: plist(p.tolist(), lambda e: '%d %d' % tuple(e)))
        nzs = fmt_pairs(I, J)
        cfgs = [(l, f) for l in ('packed', 'blocked') for f in ('csr', 'csc', 'coo', 'bsr', 'mlb')]
        for rnd in range(3 if updatable else 1):
            upd = {}
            if updatable and rnd > 0:
                if rnd == 1:
                    a.update(f=fields[1])
                else:
                    upd = {'f': fields[2]}          # passed through assemble(**upd_fields) with the first configuration
            order = [cfgs[int(k)] for k in rng.permutation(len(cfgs))]
            first = True
            flat = None
            for (layout, fmt) in order:
                kw = upd if first else {}
                def f():
                    A = a.assemble(format=fmt, layout=layout, **kw)
                    return canon(A.asmatrix() if fmt == 'mlb' else A)
                got = guard(f)
                first = False
                if flat is None:       # blocks of the (updated) underlying assembler: the oracle
                    flat = [np.asarray(asm.multi_blocks(np.array([[i, j]], dtype=np.uintp)))[0].ravel().tolist() for i, j in zip(I, J)]
                    bl = plist(flat, lambda b: plist(b, frac))
                    packed = np.zeros((M * nc1, N * nc0)); blocked = np.zeros((M * nc1, N * nc0))
                    for (i, j, b) in zip(I, J, flat):
                        B = np.array(b).reshape(nc1, nc0)
                        packed[i * nc1:(i + 1) * nc1, j * nc0:(j + 1) * nc0] = B
                        for r in range(nc1):
                            for c in range(nc0):
                                blocked[r * M + i, c * N + j] = B[r, c]
                out['counts']['Assembler-class configurations'] = out['counts'].get('Assembler-class configurations', 0) + 1
                if got.startswith('err'):
                    out['violations'].append(('asmclass-raises', 'Assembler.assemble(format=%s, layout=%s) raised %s (symmetric=%s, round %d)' % (fmt, layout, got, sym, rnd), desc, True))
                    continue
                if layout == 'packed' and fmt == 'bsr':
                    req = 'vecbsr %d %d %d %d %s %s' % (sym, dim, nc1, nc0, nzs, bl)
                else:
                    req = 'vecgen %d %d %d %d %s %s %s %s' % (sym, layout == 'blocked', nc0, nc1, bs, bidx, nzs, bl)
                out['reqs'].append(('drv_c08', req, got, 'Assembler class sym=%s layout=%s fmt=%s round=%d' % (sym, layout, fmt, rnd)))
                # model-free: dense reference of that layout from the blocks
                ref = packed if layout == 'packed' else blocked
                Ad = a.assemble(format='csr', layout=layout).toarray()
                tol = (SYM_TOL if sym else 0.0) * float(np.max(np.abs(ref)))
                if Ad.shape != ref.shape or np.max(np.abs(Ad - ref)) > tol:
                    out['violations'].append(('asmclass-layout', 'Assembler(...).assemble(layout=%r) (symmetric=%s, after %d updates) is not the %s matrix of the assembler\'s blocks (max |diff| %.3g)'
                                              % (layout, sym, rnd, layout, float(np.max(np.abs(Ad - ref))) if Ad.shape == ref.shape else float('nan')), desc, True))
    return out


def worker_threads(nthreads, seed, tier):
    """everything again with a given thread count: returns digests of the raw result arrays"""
    import pyiga
    pyiga.set_max_threads(nthreads)
    from pyiga import assemble, mlmatrix, assemble_tools
    out = {'name': 'threads%d' % nthreads, 'status': 'ok', 'violations': [], 'reqs': [], 'counts': {}, 'digests': {}}
    assert pyiga.get_max_threads() == nthreads

    def dig(*arrs):
        h = hashlib.sha256()
        for a in arrs:
            a = np.ascontiguousarray(a)
            h.update(str(a.shape).encode()); h.update(a.tobytes())
        return h.hexdigest()[:24]

    # chunk_tasks itself
    for n in list(range(0, 40)) + [100, 257]:
        for k in THREAD_COUNTS:
            out['digests']['chunk %d %d' % (n, k)] = guard(lambda: plist([len(c) for c in assemble_tools.chunk_tasks(np.arange(n), k)]))
    for (name, symform) in [('lapl_c', True), ('vec22', True), ('stiff3', True), ('vec21', False)]:
        case = c01.make_case(name, seed, tier)
        asm = c01.instantiate(name, case)
        kvs0, kvs1 = asm.kvs
        rng = np.random.default_rng(seed + 17)
        S = mlmatrix.MLStructure.from_kvs(kvs0, kvs1)
        M, N = S.shape
        is_vec = hasattr(asm, 'num_components')
        for rep in range(2):
            for sym in ([False, True] if symform else [False]):
                if is_vec:
                    nsq = asm.num_components()[0] != asm.num_components()[1]
                    for layout, fmt in (('packed', 'bsr'), ('blocked', 'csr'), ('packed', 'csr')):
                        def f():
                            A = assemble.assemble_entries(asm, symmetric=sym, format=fmt, layout=layout)
                            A.sort_indices()
                            return dig(A.data, A.indices, A.indptr)
                        out['digests']['%s sym=%s %s %s rep%d' % (name, sym, layout, fmt, rep)] = guard(f)
                else:
                    def f():
                        A = assemble.assemble_entries(asm, symmetric=sym, format='csr')
                        A.sort_indices()
                        return dig(A.data, A.indices, A.indptr)
                    out['digests']['%s sym=%s csr rep%d' % (name, sym, rep)] = guard(f)
        for k in (0, 1, 2, 3, 4, 7, 9, 15, 17, 33, 64, 200):
            idx = np.stack([rng.integers(0, M, size=k), rng.integers(0, N, size=k)], axis=1).astype(np.uintp) if k else np.zeros((0, 2), dtype=np.uintp)
            if is_vec:
                out['digests']['%s multi_blocks %d' % (name, k)] = guard(lambda: dig(np.asarray(asm.multi_blocks(idx))))
            else:
                out['digests']['%s multi_entries %d' % (name, k)] = guard(lambda: dig(np.asarray(asm.multi_entries(idx))))
    return out


def worker(name, seed, tier, **kw):
    if name == 'bbox':
        return worker_bbox(seed, tier)
    if name == 'update':
        return worker_update(seed, tier, False)
    if name == 'update-stale':
        return worker_update(seed, tier, True)
    if name == 'asmclass':
        return worker_asmclass(seed, tier, False)
    if name == 'asmclass-upd':
        return worker_asmclass(seed, tier, True)
    if name == 'bdhist':
        # boundary assemblies for different sides (and a volume assembly) sharing one args dict (oracle: C01)
        return c01.worker('bdhist', seed, tier)
    if name == 'parlay':
        # parameters of shape (d,), (d,d) in every memory layout, at construction and through update_params (oracle: C01)
        return c01.worker('parlay', seed, tier)
    if name.startswith('updparams'):
        return worker_updparams(int(name[9:]), seed, tier)
    if name == 'update2':
        return worker_update(seed, tier, False, two_orders=True)
    if name == 'update-stale2':
        return worker_update(seed, tier, True, form2=True)
    if name.startswith('threads'):
        return worker_threads(int(name[7:]), seed, tier)
    return worker_cfg(name, dict(CFG_FORMS)[name], seed, tier)


def worker_main():
    spec = json.loads(sys.argv[1])
    os.environ['XDG_CACHE_HOME'] = spec['xdg']
    try:
        res = worker(spec['name'], spec['seed'], spec['tier'])
    except BaseException:
        import traceback
        res = {'name': spec['name'], 'status': 'worker-exception', 'trace': traceback.format_exc()[-3000:], 'violations': [], 'reqs': [], 'counts': {}}
    with open(spec['out'], 'wb') as fh:
        pickle.dump(res, fh)


def micro_stream(ctx):
    """chunk_tasks / multi_entries order / worker write-sets: exact, in-process"""
    from pyiga import assemble_tools
    req, exp = [], []
    ns = list(range(0, 70)) + [99, 100, 101, 255, 256, 1000]
    ks = list(range(1, 20)) + [32, 64]
    for n in ns:
        for k in ks:
            tasks = np.arange(n)
            def f():
                ch = list(assemble_tools.chunk_tasks(tasks, k))
                return ch
            try:
                ch = f()
                e = plist([len(c) for c in ch])
                flat = np.concatenate(ch).tolist() if ch else []
                e2 = plist(flat)
                e3 = plist([plist(c.tolist()) for c in ch] + [plist([])] * (k - len(ch))) if len(ch) <= k else 'too-many-chunks'
            except Exception as ex:
                e = e2 = e3 = 'err-' + type(ex).__name__
            req += ['chunk %d %d' % (n, k), 'ment %d %d' % (n, max(k, 2)), 'wsets %d %d' % (n, k)]
            exp += [e, e2 if k >= 2 else plist(range(n)), e3]
            # model-free: the chunks are consecutive slices and their concatenation is the input
            if not e.startswith('err') and flat != list(range(n)):
                ctx.violation('chunk-oracle', 'chunk_tasks(range(%d), %d) does not concatenate to the input' % (n, k), {'n': n, 'k': k}, True)
            if e.startswith('err'):
                ctx.violation('chunk-oracle', 'chunk_tasks(range(%d), %d) raised %s' % (n, k, e), {'n': n, 'k': k}, True)
    got = ctx.model('drv_c08', req)
    nd = 0
    for r, e, g in zip(req, exp, got):
        if e != g:
            nd += 1
            if nd <= 3:
                ctx.violation('chunk-corr', 'model and chunk_tasks disagree on `%s`: implementation %s, model %s' % (r, e[:200], g[:200]),
                              {'request': r, 'implementation': e, 'model': g}, False)
    ctx.count('chunk requests', len(req))
    ctx.obligation('chunk stream: %d requests, model == implementation' % len(req), nd == 0, '%d disagreements' % nd)
    return len(req)


def precomp_stream(ctx):
    """VForm.dependency_analysis: which variables are precomputed (no C compiler needed): the real
    finalize() against Layout.precompRule on the dumped dependency graph"""
    from pyiga import vform, bspline, geometry
    kvs = (bspline.make_knots(2, 0.0, 1.0, 2), bspline.make_knots(1, 0.0, 1.0, 2))
    geo = geometry.unit_square()
    f = bspline.BSplineFunc(kvs, np.ones((4, 3)))
    req, exp, stale_par = [], [], []
    for expr in PRECOMP_FORMS + PRECOMP_PARAM_FORMS:
        for upd in ([], ['f'], ['geo'], ['f', 'geo']):
            args = {'geo': geo, 'f': f, 'c': 1.5}
            try:
                vf = vform.parse_vf(expr, kvs, args=args, updatable=upd)
                vf.finalize()
            except Exception as ex:
                ctx.count('precomp: finalize raised ' + type(ex).__name__)
                continue
            lin = list(vf.linear_deps)
            num = {id(v): k for k, v in enumerate(lin)}
            deps = []
            for v in lin:
                e = getattr(v, 'expr', None)
                deps.append(sorted(num[id(d)] for d in e.depends() if id(d) in num) if e else [])
            isupd = [int(isinstance(v, vform.AsmVar) and isinstance(v.src, vform.InputField) and v.src.updatable) for v in lin]
            ispar = [int(isinstance(v, vform.AsmVar) and isinstance(v.src, vform.Parameter)) for v in lin]
            basis = [int(v.scope == vform.Scope.BASISFUN) for v in lin]
            got = plist(num[id(v)] for v in vf.precomp)
            # the rule as coded since /repo dde8508: "updatable" = updatable input fields AND parameters
            # (everything update()/update_params() can rewrite)
            updp = [int(a or b) for a, b in zip(isupd, ispar)]
            req.append('precomp 1 %d %s %s %s %s' % (len(lin), plist(range(len(lin))), plist(deps, plist), plist(updp), plist(basis)))
            exp.append(got)
            # model-free: no precomputed variable may (transitively) depend on an updatable-sourced variable
            def reach(k, seen):
                for w in deps[k]:
                    if w not in seen:
                        seen.add(w); reach(w, seen)
                return seen
            for v in vf.precomp:
                anc = reach(num[id(v)], set())
                if any(ispar[w] for w in anc) and not stale_par:
                    stale_par.append(1)
                    ctx.violation('update-params-derived-constants', 'dependency_analysis precomputes `%s`, which depends on a parameter; update_params() only rewrites the parameter slots (form %s)' % (v.name, expr),
                                  {'form': expr, 'var': v.name, 'replay': "asm = instantiate_assembler(form, kvs, {'geo': geo, 'c': 2.0}); asm.update_params(c=3.0); assemble_entries(asm) vs fresh with c=3.0"}, True)
                if any(isupd[w] for w in anc):
                    ctx.violation('update-stale-precomputed', 'dependency_analysis precomputes `%s`, which depends on an updatable input field (form %s, updatable=%s)' % (v.name, expr, upd),
                                  {'form': expr, 'updatable': upd, 'var': v.name}, True)
            ctx.count('precomp requests')
    # generated update(): every field array fed by an updatable input must be re-assigned (text of the generated
    # source, no C compiler): assignments of __init__ that read input f  ==  assignments under `if f:` in update()
    import re
    from pyiga import compile as pcompile
    rhs_pat = [(re.compile(r'grid_eval\((\w+),'), 0), (re.compile(r'grid_eval_transformed\((\w+),'), 0),
               (re.compile(r'(\w+)\.grid_jacobian\('), 1), (re.compile(r'(\w+)\.grid_hessian\('), 2)]
    asg = re.compile(r'self\.fields\.base\[.*?(\d+):(\d+)\] = (.*)\.reshape')
    for expr in PRECOMP_FORMS:
        for upd in (['f'], ['f', 'geo']):
            try:
                src = pcompile.generate(vform.parse_vf(expr, kvs, args={'geo': geo, 'f': f}, updatable=upd))
            except AssertionError:
                ctx.count('genupdate: generate refused (AssertionError)')
                continue
            except Exception as ex:
                ctx.count('genupdate: generate raised ' + type(ex).__name__)
                continue
            if 'def update(self' not in src:
                continue
            init_part, upd_part = src.split('def update(self', 1)
            upd_part = upd_part.split('\n    def ', 1)[0].split('\n    @', 1)[0]
            names = sorted(set(upd))
            def classify(rhs):
                for pat, d in rhs_pat:
                    mo = pat.search(rhs)
                    if mo:
                        return mo.group(1), d
                return None, None
            info = []
            for mo in asg.finditer(init_part):
                a, b, rhs = int(mo.group(1)), int(mo.group(2)), mo.group(3)
                nm, d = classify(rhs)
                if nm is None:
                    continue
                gi = names.index(nm) if nm in names else 99
                info.append('1 %d %d %d %d' % (gi, d, b - a, a))
            for gi, nm in enumerate(names):
                blk = re.search(r'if %s:\n((?:\s+self\.fields.*\n?)*)' % nm, upd_part)
                got_rng = []
                if blk:
                    for mo in asg.finditer(blk.group(1)):
                        _, d = classify(mo.group(3))
                        got_rng.append('%d:%d:%d' % (int(mo.group(1)), int(mo.group(2)), d))
                # several `if f:` blocks (one per variable) are what the code generates: collect all of them
                got_rng = []
                for blk in re.finditer(r'if %s:\n((?:[ ]+self\.fields.*\n?)+)' % nm, upd_part):
                    for mo in asg.finditer(blk.group(1)):
                        _, d = classify(mo.group(3))
                        got_rng.append('%d:%d:%d' % (int(mo.group(1)), int(mo.group(2)), d))
                req.append('updslots %d %s' % (gi, plist(info)))
                exp.append(plist(got_rng))
                ctx.count('genupdate requests')
    got = ctx.model('drv_c08', req)
    nd = sum(1 for e, g in zip(exp, got) if e != g)
    for r, e, g in zip(req, exp, got):
        if e != g and r.startswith('updslots'):
            ctx.violation('update-slots', 'generated update() does not re-assign every field array fed by the updatable input: update() assigns %s, __init__ fills %s from that input' % (e, g),
                          {'request': r, 'generated update()': e, 'model (all arrays of the input)': g}, False)
            break
    for r, e, g in zip(req, exp, got):
        if e != g and not r.startswith('updslots'):
            ctx.violation('precomp-corr', 'model and dependency_analysis disagree on self.precomp: implementation %s, model %s' % (e, g), {'request': r, 'implementation': e, 'model': g}, False)
            break
    ctx.obligation('precomp/genupdate stream: %d requests (dependency graphs; slot ranges of generated update()), model == implementation' % len(req), nd == 0 and len(req) > 0, '%d disagreements' % nd)
    return len(req)


def make_jobs(ctx):
    jobs = []
    for k, (name, symform) in enumerate(CFG_FORMS):
        jobs.append({'name': name, 'seed': int(ctx.seed * 1000003 + 7919 + k), 'tier': ctx.tier})
    jobs += [{'name': 'bbox', 'seed': int(ctx.seed * 1000003 + 31), 'tier': ctx.tier},
             {'name': 'update', 'seed': int(ctx.seed * 1000003 + 32), 'tier': ctx.tier},
             {'name': 'update2', 'seed': int(ctx.seed * 1000003 + 35), 'tier': ctx.tier},
             {'name': 'parlay', 'seed': int(ctx.seed * 1000003 + 39), 'tier': ctx.tier},
             {'name': 'bdhist', 'seed': int(ctx.seed * 1000003 + 42), 'tier': ctx.tier},
             {'name': 'asmclass', 'seed': int(ctx.seed * 1000003 + 40), 'tier': ctx.tier},
             {'name': 'asmclass-upd', 'seed': int(ctx.seed * 1000003 + 41), 'tier': ctx.tier},
             {'name': 'updparams0', 'seed': int(ctx.seed * 1000003 + 36), 'tier': ctx.tier},
             {'name': 'updparams1', 'seed': int(ctx.seed * 1000003 + 37), 'tier': ctx.tier},
             {'name': 'updparams2', 'seed': int(ctx.seed * 1000003 + 38), 'tier': ctx.tier},
             {'name': 'update-stale', 'seed': int(ctx.seed * 1000003 + 33), 'tier': ctx.tier},
             {'name': 'update-stale2', 'seed': int(ctx.seed * 1000003 + 34), 'tier': ctx.tier}]
    # compiled things first
    order = {'bbox': 0, 'update': 0, 'update2': 0, 'update-stale': 0, 'update-stale2': 0, 'updparams0': 0, 'updparams1': 0, 'updparams2': 0, 'parlay': 0, 'asmclass': 0, 'asmclass-upd': 0, 'bdhist': 0}
    jobs.sort(key=lambda j: order.get(j['name'], 0 if isinstance(c01.FORMS.get(j['name'], (0, 0, ''))[2], str) else 1))
    tjobs = [{'name': 'threads%d' % n, 'seed': int(ctx.seed * 1000003 + 555), 'tier': ctx.tier} for n in THREAD_COUNTS]
    return jobs, tjobs


def run(ctx):
    ctx.build_repo()
    os.environ['XDG_CACHE_HOME'] = ctx.xdg_cache()
    jobs, tjobs = make_jobs(ctx)
    # one pool, started before the Lean build/audit: compiled-module publication is atomic since /repo bd865f5,
    # so concurrent workers may meet a cold cache
    join = c01.start_workers(ctx, jobs + tjobs, module='c08', nproc=15)
    ctx.require_lean(['Pyiga.Props.C08', 'drv_c08', 'drv_c01'])
    ctx.audit(['Pyiga.Props.C08'], THEOREMS, MODULES)
    if ctx.tier == 'thorough':
        ctx.leanchecker(MODULES)
    ctx.level = 'proof (partial)'
    ctx.trusted += ['scipy.sparse COO->CSR duplicate summation / asformat / bsr_matrix modelled by their documented behaviour (finite map with summed duplicates)',
                    'real thread interleavings, OpenMP scheduling and the memory model are not modelled: the theorem is about the bookkeeping (disjoint write-sets); 6 thread counts are run in fresh processes']
    ctx.assumptions += ['entries asm.entry(i,j) / blocks asm.multi_blocks([(i,j)]) are the oracle of this property (their value is C01)',
                        'symmetric=True is exercised only for symmetric forms on square matrices; non-square component blocks + symmetric=True must raise on the BSR path, the generic path is outside the property (not run: out-of-bounds writes)',
                        'update_equiv: the independence hypothesis (no precomputed variable depends on the updated field or parameter) is established by the repaired dependency_analysis rule (/repo 5ff56ef, dde8508; theorem update_equiv_repaired); the rule itself is tied by the `precomp` stream and the former failing forms are re-run (fixed finding update-stale-precomputed)']
    ctx.rule = ('9 assembler instances per seed (scalar 1D/2D/3D, two-space rectangular, 2x2 and 2x1 component forms; random degrees/knots/geometry as in C01) x symmetric x '
                '{csr,csc,coo,bsr,mlb} x {blocked,packed}: exact comparison with the Lean model fed with asm.entry; random entry subsets (sizes 0..40, outside the pattern, iterator input), '
                'row subsets, 6 random bounding boxes x 10 entries (on-demand assembler; Lean model with bbox offsets), update sequences of length 2-4 + update_params, reuse; '
                'thread counts 1,2,3,5,8,16 in fresh subprocesses, bitwise equality of all results; chunk_tasks for n<=69,+6 large x k<=19,+2; non-trivial = every instance')
    nmicro = micro_stream(ctx) + precomp_stream(ctx)
    allres = join()
    results, tresults = allres[:len(jobs)], allres[len(jobs):]
    for k, res in enumerate(tresults):
        # a cold module cache makes parallel workers race on the same generated module (that race is C20's subject): retry alone
        if res is None or res.get('status') != 'ok':
            tresults[k] = c01.run_workers(ctx, [tjobs[k]], module='c08', nproc=1)[0]
            ctx.count('thread workers retried')
    reqs = {'drv_c08': [], 'drv_c01': []}
    nok = 0
    for job, res in zip(jobs + tjobs, results + tresults):
        name = job['name']
        if res is not None and res.get('status') == 'timeout':
            from .common import InfraError
            raise InfraError('worker %s timed out (machine overloaded?)' % name)
        if res is not None and str(res.get('status', '')).startswith('crashed rc=-'):
            import signal as _sig
            sg = int(res['status'].split('rc=-')[1])
            ctx.violation('impl-crash:%s' % (_sig.Signals(sg).name if sg in [x.value for x in _sig.Signals] else sg),
                          'the interpreter was taken down by native code in worker %s (seed %s)' % (name, job['seed']),
                          {'worker': name, 'seed': job['seed'], 'stderr': (res.get('trace') or '')[-800:]}, True)
            continue
        if res is None or res.get('status') != 'ok':
            ctx.obligation('worker %s' % name, False, str((res or {}).get('status')) + ' ' + str((res or {}).get('trace', ''))[-600:])
            ctx.violation('worker:' + name, 'harness worker %s failed: %s' % (name, (res or {}).get('status')), {'trace': (res or {}).get('trace', '')}, False)
            continue
        nok += 1
        for (key, what, desc, found) in res['violations']:
            ctx.violation(key, what, {'instance': desc, 'stream': 'cfg'}, found)
        for k, v in res['counts'].items():
            if isinstance(v, float):
                ctx.extra.setdefault('measures', {})[name + ': ' + k] = v
            else:
                ctx.count(k, v)
        ctx.case((name, job['seed']), True)
        if 'desc' in res:
            ctx.sample({'worker': name, 'form': res['desc'].get('form'), 'degrees': [kv[1] for kv in res['desc'].get('kvs0', [])]})
        for (drv, req, got, what) in res['reqs']:
            if drv is None:
                ctx.count('malformed update calls')
                if got != what:
                    ctx.violation('update-errors', '%s: expected %s, got %s' % (req, what, got), {'stream': 'cfg'}, True)
                continue
            reqs[drv].append((req, got, what, name, res.get('desc')))
    ctx.obligation('all %d workers completed' % len(jobs + tjobs), nok == len(jobs + tjobs), '%d ok' % nok)
    ndis = 0
    for drv in ('drv_c08', 'drv_c01'):
        if not reqs[drv]:
            continue
        got = ctx.model(drv, [r[0] for r in reqs[drv]])
        for g, (req, impl, what, name, desc) in zip(got, reqs[drv]):
            ctx.count('model requests ' + drv)
            ok = True
            if isinstance(impl, tuple) and impl[0] == 'skip':
                mod = g.split()[1:]
                ok = len(mod) == len(impl[1]) and all(a in ('?', 'x') or a == b for a, b in zip(impl[1], mod))
            elif isinstance(impl, tuple):
                _, v, tol = impl
                toks = g.split()
                if toks[0] == 'box':
                    ok = abs(Fraction(v) - Fraction(toks[1])) <= tol and Fraction(toks[1]) == Fraction(toks[4])
                elif toks[0] == 'empty':
                    ok = (v == 0.0)
                else:
                    ok = False
            else:
                ok = (g == impl)
            if not ok:
                ndis += 1
                if ndis <= 5:
                    ctx.violation('cfg-corr:' + name, 'model and implementation disagree on %s (%s): implementation %s, model %s' % (what, name, str(impl)[:150], g[:150]),
                                  {'instance': desc, 'request': req[:3000], 'implementation': str(impl)[:3000], 'model': g[:3000], 'stream': 'cfg (%s)' % drv}, False)
    ntot = len(reqs['drv_c08']) + len(reqs['drv_c01'])
    ctx.obligation('stream cfg: %d configurations/entries, model == implementation (exact)' % ntot, ndis == 0, '%d disagreements' % ndis)
    # thread counts: bitwise equality
    base = None; nthreadbad = 0; ncmp = 0
    for job, res in zip(tjobs, tresults):
        if res is None or res.get('status') != 'ok':
            continue
        if base is None:
            base = (job['name'], res['digests'])
            continue
        for k, v in res['digests'].items():
            ncmp += 1
            if base[1].get(k) != v or str(v).startswith('err'):
                nthreadbad += 1
                if nthreadbad <= 3:
                    ctx.violation('threads', 'result `%s` differs between %s (%s) and %s (%s)' % (k, base[0], base[1].get(k), job['name'], v),
                                  {'what': k, 'seed': job['seed'], 'stream': 'cfg/threads'}, True)
    if base is not None:
        for k, v in base[1].items():
            if str(v).startswith('err'):
                ctx.violation('threads', 'result `%s` raised with %s: %s' % (k, base[0], v), {'what': k}, True)
    ctx.count('thread-count comparisons', ncmp)
    ctx.obligation('bitwise equality across thread counts %s: %d results' % (THREAD_COUNTS, ncmp), nthreadbad == 0 and ncmp > 0, '%d differ' % nthreadbad)
    ctx.extra['requests'] = nmicro + ntot
