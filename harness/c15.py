"""
C15 — multi-level structured matrices (DESIGN.md §6/C15).

tie: hand-written Lean model (Pyiga.Model.Index / MLMatrix, driver drv_c15)
     vs pyiga.mlmatrix / mlmatrix_cy on the same structures (exact diff, order included)
theorems: Pyiga.Props.C15.*
search (model-free): numpy.kron of the level patterns / of integer level matrices
"""
import itertools
from functools import reduce

import numpy as np

from .common import plist

THEOREMS = [
    'Pyiga.Props.C15.seq_bijection_left', 'Pyiga.Props.C15.seq_bijection_right',
    'Pyiga.Props.C15.seq_range', 'Pyiga.Props.C15.seq_digits_range',
    'Pyiga.Props.C15.odometer_refines', 'Pyiga.Props.C15.odometer_as_coded_wrong',
    'Pyiga.Props.C15.nonzero_2d_refines', 'Pyiga.Props.C15.nonzero_3d_refines',
    'Pyiga.Props.C15.nonzero_spec_product', 'Pyiga.Props.C15.lower_tri_subset',
    'Pyiga.Props.C15.nonzero_support_kron', 'Pyiga.Props.C15.nonzero_dispatch',
    'Pyiga.Props.C15.transpose_nonzero', 'Pyiga.Props.C15.reindex_inverse',
    'Pyiga.Props.C15.reindex_from_reordered_two_level', 'Pyiga.Props.C15.raveled_cartesian_product_refines',
    'Pyiga.Props.C15.row_spec', 'Pyiga.Props.C15.rows_spec', 'Pyiga.Props.C15.kron_partial_spec',
    'Pyiga.Props.C15.sparsity_from_kvs',
    'Pyiga.Props.C15.generator_entry_spec', 'Pyiga.Props.C15.generator_entry_2_spec',
    'Pyiga.Props.C15.sequential_bidx_as_coded_wrong', 'Pyiga.Props.C15.reorder_entry',
    'Pyiga.Props.C15.kron_data_layout',
    'Pyiga.Props.C15.matvec_refines', 'Pyiga.Props.C15.asmatrix_preserves_matvec', 'Pyiga.Props.C15.matvec_length',
]
MODULES = ['Pyiga.Model.Index', 'Pyiga.Model.MLMatrix', 'Pyiga.Proofs.Index', 'Pyiga.Proofs.MLMatrix',
           'Pyiga.Proofs.MLMatrix2', 'Pyiga.Proofs.MLRows', 'Pyiga.Proofs.MLSparsity', 'Pyiga.Proofs.MLMatvec', 'Pyiga.Proofs.MLGenerator', 'Pyiga.Proofs.MLKron', 'Pyiga.Props.C15']


def fmt_pairs(I, J):
    return plist(zip(I, J), lambda p: '%d,%d' % (int(p[0]), int(p[1])))


def fmt_struct(bs, bidx):
    return plist(bs, lambda b: '%d %d' % b) + ' ' + plist(bidx, lambda p: plist(p, lambda e: '%d %d' % e))


def mk_struct(bs, bidx):
    from pyiga import mlmatrix
    return mlmatrix.MLStructure(tuple(bs), tuple(np.array(p, dtype=np.uint32).reshape(-1, 2) for p in bidx))


def dense_of(bs, bidx, data):
    """dense matrix denoted by a data tensor over the level patterns (model-free, position by position)"""
    rowsz = [b[0] for b in bs]; colsz = [b[1] for b in bs]
    D = np.zeros((int(np.prod(rowsz)), int(np.prod(colsz))))
    for mu in np.ndindex(*data.shape):
        I = int(np.ravel_multi_index([bidx[k][mu[k]][0] for k in range(len(mu))], rowsz))
        J = int(np.ravel_multi_index([bidx[k][mu[k]][1] for k in range(len(mu))], colsz))
        D[I, J] += data[mu]
    return D


def rand_pattern(rng, m, n, dup=False):
    cells = [(i, j) for i in range(m) for j in range(n)]
    k = int(rng.integers(1, len(cells) + 1))
    idx = rng.permutation(len(cells))[:k]
    pat = [cells[i] for i in idx]
    mode = rng.integers(0, 3)
    if mode == 0:
        pat.sort()
    elif mode == 1:
        pat.sort(key=lambda e: (e[1], e[0]))
    if dup and rng.integers(0, 8) == 0:
        pat.append(pat[0])
    return pat


def gen_structs(ctx):
    rng = ctx.rng
    out = []
    # exhaustive: every non-empty (sorted) pattern of 2x2 blocks for 2 levels, sampled third level
    cells = [(0, 0), (0, 1), (1, 0), (1, 1)]
    pats22 = [[c for c, b in zip(cells, bits) if b] for bits in itertools.product([0, 1], repeat=4) if any(bits)]
    for p1 in pats22:
        for p2 in pats22:
            out.append(([(2, 2), (2, 2)], [p1, p2], 'exh2'))
    n3 = 300 if ctx.tier == 'quick' else 3375
    all3 = list(itertools.product(pats22, repeat=3))
    for i in rng.permutation(len(all3))[:n3]:
        out.append(([(2, 2)] * 3, list(all3[i]), 'exh3'))
    nrand = 1500 if ctx.tier == 'quick' else 20000
    for _ in range(nrand):
        L = int(rng.choice([1, 2, 3, 4, 4, 5, 6])) if ctx.tier == 'quick' else int(rng.integers(1, 8))
        mx = 3 if L <= 4 else 2
        bs = [(int(rng.integers(1, mx + 1)), int(rng.integers(1, mx + 1))) for _ in range(L)]
        bidx = [rand_pattern(rng, m, n) for (m, n) in bs]
        out.append((bs, bidx, 'rand%d' % L))
    return out


def oracle_struct(bs, bidx, rng):
    """model-free: the property itself on the implementation.  Returns None or a description."""
    try:
        return _oracle_struct(bs, bidx, rng)
    except Exception as ex:
        return 'implementation raised %s: %s' % (type(ex).__name__, str(ex)[:200])


def _oracle_struct(bs, bidx, rng):
    from pyiga import mlmatrix
    S = mk_struct(bs, bidx)
    if any(len(set(p)) != len(p) for p in bidx):
        return None
    A = []
    for (m, n), p in zip(bs, bidx):
        a = np.zeros((m, n), dtype=np.int64)
        for (i, j) in p:
            a[i, j] = int(rng.integers(1, 6))
        A.append(a)
    K = reduce(np.kron, A)
    want = set(zip(*[x.tolist() for x in np.nonzero(K)]))
    L = len(bs)
    I, J = S.nonzero()
    got = list(zip(I.tolist(), J.tolist()))
    if set(got) != want or len(got) != len(set(got)):
        return 'nonzero() positions %s differ from support of numpy.kron %s' % (sorted(got)[:8], sorted(want)[:8])
    if L >= 2:
        It, Jt = S.nonzero(lower_tri=True)
        gl = list(zip(It.tolist(), Jt.tolist()))
        if gl != [p for p in got if p[1] <= p[0]]:
            return 'nonzero(lower_tri=True) is not the J<=I subsequence'
    # data layout: X[mu] = prod_k A_k[bidx_k[mu_k]]
    vals = [np.array([a[i, j] for (i, j) in p], dtype=float) for a, p in zip(A, bidx)]
    X = reduce(np.multiply.outer, vals)
    M = mlmatrix.MLMatrix(structure=S, data=X)
    D = M.asmatrix().toarray()
    if not np.array_equal(D, K):
        return 'asmatrix() of the compact data differs from numpy.kron of the level matrices'
    x = rng.integers(-3, 4, size=K.shape[1]).astype(float)
    if True:
        y = M._matvec(x) if L in (2, 3) else M.dot(x)
        if not np.array_equal(np.asarray(y).ravel(), K.dot(x)):
            return 'matvec differs from dense Kronecker product times x'
    # element generators: generated from an entry function of K they must reproduce the compact data of K
    def entries(indices):
        return np.array([K[i, j] for (i, j) in indices], dtype=float)
    G = mlmatrix.ReorderedTensorGenerator(entries, S)
    if tuple(G.shape) != X.shape or not np.array_equal(np.asarray(G.asarray()), X):
        return 'ReorderedTensorGenerator over the entries of numpy.kron does not generate the compact data tensor'
    if L == 2:
        G2 = mlmatrix.ReorderedMatrixGenerator(entries, S)
        if tuple(G2.shape) != X.shape or not np.array_equal(np.asarray(G2.asarray()), X):
            return 'ReorderedMatrixGenerator over the entries of numpy.kron does not generate the compact data tensor'
    # rows / columns
    R = [int(r) for r in rng.permutation(K.shape[0])[:max(1, K.shape[0] // 2)]]
    Ir, Jr = S.nonzeros_for_rows(R)
    wantr = [(r, c) for r in R for c in sorted(np.nonzero(K[r])[0].tolist())]
    if sorted(zip(Ir.tolist(), Jr.tolist())) != sorted(wantr):
        return 'nonzeros_for_rows(%s) differs from rows of numpy.kron' % R
    C = [int(c) for c in rng.permutation(K.shape[1])[:max(1, K.shape[1] // 2)]]
    Ic, Jc = S.nonzeros_for_columns(C)
    wantc = [(r, c) for c in C for r in np.nonzero(K[:, c])[0].tolist()]
    if sorted(zip(Ic.tolist(), Jc.tolist())) != sorted(wantc):
        return 'nonzeros_for_columns(%s) differs from columns of numpy.kron' % C
    # transpose
    T = S.transpose()
    It, Jt = T.nonzero()
    if set(zip(It.tolist(), Jt.tolist())) != set((j, i) for (i, j) in want):
        return 'transpose().nonzero() is not the transposed support'
    return None


def run(ctx):
    ctx.build_repo()
    from pyiga import mlmatrix, bspline
    ctx.require_lean(['Pyiga.Props.C15', 'drv_c15'])
    ctx.audit(['Pyiga.Props.C15'], THEOREMS, MODULES)
    if ctx.tier == 'thorough':
        ctx.leanchecker(MODULES)
    ctx.trusted += ['model of numpy.unravel_index / np.repeat / np.concatenate / scipy COO->CSR duplicate summation by their documented behaviour',
                    'modelled, not verified: size_t/unsigned overflow beyond 2^32 (model uses Nat)']
    ctx.rule = ('structures: all pairs of non-empty 2x2 patterns (2 levels, exhaustive), sampled triples, random 1-6(7) levels with '
                'rectangular blocks <=3x3 and patterns in row-major/column-major/shuffled stored order; per structure: nonzero (both flags), '
                'rows/columns subsets (unsorted, empty), transpose, asmatrix and matvec with integer data, reorder; plus index-map requests. '
                'non-trivial = structure with >=2 levels and >=2 stored entries; distinct by (bs,bidx)')
    rng = ctx.rng
    req, exp, meta = [], [], []

    def add(r, e, m):
        # e: expected answer string, or a thunk calling the implementation (exceptions -> error kind)
        if callable(e):
            ctx.mark(r)
            try:
                e = e()
            except AssertionError:
                e = 'err-assertion'; ctx.count('err-assertion')
            except Exception as ex:
                e = 'err-' + type(ex).__name__; ctx.count(e)
        req.append(r); exp.append(e); meta.append(m)

    structs = gen_structs(ctx)
    for (bs, bidx, kind) in structs:
        S = mk_struct(bs, bidx)
        L = len(bs)
        sdesc = fmt_struct(bs, bidx)
        ctx.case((tuple(bs), tuple(map(tuple, bidx))), nontrivial=(L >= 2 and sum(map(len, bidx)) > L))
        ctx.count('levels=%d' % L); ctx.count('kind=' + kind[:4])
        for lower in (False, True):
            def f(lower=lower):
                I, J = S.nonzero(lower_tri=lower)
                return fmt_pairs(I.tolist(), J.tolist())
            add('nonzero %d %s' % (lower, sdesc), f, ('nonzero', bs, bidx, lower))
        M, N = S.shape
        # rows
        k = int(rng.integers(0, M + 1))
        R = [int(r) for r in rng.permutation(M)[:k]]
        def f():
            Ir, Jr, Rr = S.nonzeros_for_rows(R, renumber_rows=True)
            return plist(zip(Ir.tolist(), Jr.tolist(), Rr.tolist()), lambda t: '%d,%d,%d' % t)
        add('rows %s %s' % (sdesc, plist(R)), f, ('rows', bs, bidx, R))
        k = int(rng.integers(0, N + 1))
        C = [int(c) for c in rng.permutation(N)[:k]]
        def f():
            Ic, Jc = S.nonzeros_for_columns(C)
            return fmt_pairs(Ic.tolist(), Jc.tolist())
        add('cols %s %s' % (sdesc, plist(C)), f, ('cols', bs, bidx, C))
        # data: asmatrix + matvec
        shape = tuple(len(p) for p in bidx)
        X = rng.integers(-4, 5, size=shape).astype(float)
        Mx = mlmatrix.MLMatrix(structure=S, data=X)
        def f():
            A = Mx.asmatrix('coo').tocsr()
            A.sum_duplicates(); A.eliminate_zeros()
            Ac = A.tocoo()
            trip = sorted(zip(Ac.row.tolist(), Ac.col.tolist(), Ac.data.tolist()))
            return plist(trip, lambda t: '%d,%d,%d' % (t[0], t[1], int(t[2])))
        add('asmat %s %s' % (sdesc, plist(X.ravel().astype(int).tolist())), f, ('asmat', bs, bidx, X.ravel().tolist()))
        if True:
            # rectangular shapes included (the len(x)-sized result of ml_matvec_2d/3d was repaired in /repo)
            x = rng.integers(-3, 4, size=N).astype(float)
            def f():
                y = Mx._matvec(x)
                return plist(np.asarray(y).ravel().astype(int).tolist())
            add('matvec %s %s %s' % (sdesc, plist(X.ravel().astype(int).tolist()), plist(x.astype(int).tolist())),
                f, ('matvec', bs, bidx))
            # results handed out belong to the caller: two products with the same matrix, the first result is
            # kept and must still be what it was; the data tensor is
            # given Fortran-ordered / as a transposed-back view
            x2 = rng.integers(-3, 4, size=N).astype(float)
            # (x itself stays C-contiguous: the 2/3-level kernels are typed `double[::1]` and refuse a strided
            #  vector with a clear ValueError -- observed, not a wrong answer, not reported)
            Xl = np.asfortranarray(X) if rng.integers(0, 2) else np.ascontiguousarray(X.T).T

            def f():
                Ml = mlmatrix.MLMatrix(structure=S, data=Xl)
                y1 = Ml.dot(x); keep = np.array(y1, copy=True)
                y2 = Ml.dot(x2)
                if not np.array_equal(np.asarray(y1), keep):
                    return 'err-first-result-changed-by-second-product'
                return plist(np.asarray(y2).ravel().astype(int).tolist())
            add('matvec %s %s %s' % (sdesc, plist(X.ravel().astype(int).tolist()), plist(x2.astype(int).tolist())),
                f, ('matvec', bs, bidx))
        # MLMatrix(structure, matrix=A): the data tensor is A at the layout positions, whatever the stored order of
        # the patterns (dense and sparse initialisers; patterns without repeated positions)
        if all(len(set(p)) == len(p) for p in bidx):
            Aden = dense_of(bs, bidx, X)
            for sparse_init in (False, True):
                def f(sparse_init=sparse_init):
                    import scipy.sparse
                    Ain = scipy.sparse.csr_matrix(Aden) if sparse_init else Aden
                    if sparse_init and rng.integers(0, 2):
                        Ain = Ain.tocoo()
                        perm = rng.permutation(Ain.nnz)
                        Ain = scipy.sparse.coo_matrix((Ain.data[perm], (Ain.row[perm], Ain.col[perm])), shape=Ain.shape).tocsr()
                    Mm = mlmatrix.MLMatrix(structure=S, matrix=Ain)
                    if tuple(Mm.data.shape) != shape:
                        return 'err-datashape'
                    if not np.array_equal(np.asarray(Mm.data, dtype=float), X):
                        return 'err-data-tensor-is-not-the-matrix-at-the-layout-positions'
                    A = Mm.asmatrix('coo').tocsr(); A.sum_duplicates(); A.eliminate_zeros(); Ac = A.tocoo()
                    return plist(sorted(zip(Ac.row.tolist(), Ac.col.tolist(), Ac.data.tolist())), lambda t: '%d,%d,%d' % (t[0], t[1], int(t[2])))
                add('asmat %s %s' % (sdesc, plist(X.ravel().astype(int).tolist())), f, ('asmat-from-matrix', bs, bidx, X.ravel().tolist()))
        # reorder / transpose at structure level: compare their nonzero() with the model applied to permuted input
        if L >= 2:
            axes = [int(a) for a in rng.permutation(L)]
            S2 = S.reorder(axes)
            I, J = S2.nonzero()
            add('nonzero 0 %s' % fmt_struct([bs[a] for a in axes], [bidx[a] for a in axes]), fmt_pairs(I.tolist(), J.tolist()),
                ('reorder', bs, bidx, axes))
        T = S.transpose()
        if L >= 2 or True:
            I, J = T.nonzero()
            add('nonzero 0 %s' % fmt_struct([(b[1], b[0]) for b in bs], [[(e[1], e[0]) for e in p] for p in bidx]),
                fmt_pairs(I.tolist(), J.tolist()), ('transpose', bs, bidx))
        # sequential per-level numbering and the element generators built on it: which matrix positions does
        # ReorderedTensorGenerator / ReorderedMatrixGenerator ask the assembler for?
        def f():
            return plist([sb.tolist() for sb in S.sequential_bidx()], plist)
        add('sbidx %s' % sdesc, f, ('sbidx', bs, bidx))
        nmu = min(6, int(np.prod(shape)))
        mus = [[int(rng.integers(0, n)) for n in shape] for _ in range(nmu)]

        def f():
            asked = []
            def multiasm(indices):
                asked.extend((int(i), int(j)) for (i, j) in indices)
                return np.zeros(len(indices))
            G = mlmatrix.ReorderedTensorGenerator(multiasm, S)
            if tuple(G.shape) != shape:
                return 'err-shape'
            G.compute_entries([tuple(mu) for mu in mus])
            return plist(asked, lambda t: '%d,%d' % t)
        add('gent %s %s' % (sdesc, plist(mus, plist)), f, ('gent', bs, bidx, mus))
        if L == 2:
            def f():
                asked = []
                def multiasm(indices):
                    asked.extend((int(i), int(j)) for (i, j) in indices)
                    return np.zeros(len(indices))
                G = mlmatrix.ReorderedMatrixGenerator(multiasm, S)
                if tuple(G.shape) != shape:
                    return 'err-shape'
                G.compute_entries([tuple(mu) for mu in mus])
                return plist(asked, lambda t: '%d,%d' % t)
            add('gent2 %s %s' % (sdesc, plist(mus, lambda m: '%d %d' % tuple(m))), f, ('gent2', bs, bidx, mus))
        if len(ctx.samples) < 4 and L >= 3:
            ctx.sample({'bs': bs, 'bidx': bidx, 'nonzero': req[-1][:120]})

    # call histories on ONE MLMatrix object: apply, assign a new data tensor, apply again, convert;
    # every answer is compared with the (stateless) model of the current data
    nhist = 250 if ctx.tier == 'quick' else 3000
    hist_structs = [s for s in structs if s[2].startswith('rand')][:nhist]
    for (bs, bidx, kind) in hist_structs:
        S = mk_struct(bs, bidx)
        M_, N_ = S.shape
        shape = tuple(len(p) for p in bidx)
        sdesc = fmt_struct(bs, bidx)
        X1 = rng.integers(-4, 5, size=shape).astype(float)
        Mx = mlmatrix.MLMatrix(structure=S, data=X1.copy())
        xs = [rng.integers(-3, 4, size=N_).astype(float) for _ in range(3)]
        datas = [X1, rng.integers(-4, 5, size=shape).astype(float), rng.integers(-4, 5, size=shape).astype(float)]
        for step in range(3):
            Xd = datas[step]
            if step > 0:
                def setdata(Xd=Xd):
                    Mx.data = Xd.copy()
                    return None
                try:
                    setdata()
                except Exception:
                    pass
            x = xs[step]

            def f(x=x):
                y = Mx.dot(x.copy())
                return plist(np.asarray(y).ravel().astype(int).tolist())
            add('matvec %s %s %s' % (sdesc, plist(Xd.ravel().astype(int).tolist()), plist(x.astype(int).tolist())),
                f, ('matvec-history', bs, bidx, step, [d.tolist() for d in datas], [v.tolist() for v in xs]))

            def g():
                A = Mx.asmatrix('coo').tocsr()
                A.sum_duplicates(); A.eliminate_zeros()
                Ac = A.tocoo()
                trip = sorted(zip(Ac.row.tolist(), Ac.col.tolist(), Ac.data.tolist()))
                return plist(trip, lambda t: '%d,%d,%d' % (t[0], t[1], int(t[2])))
            add('asmat %s %s' % (sdesc, plist(Xd.ravel().astype(int).tolist())), g, ('asmat-history', bs, bidx, step))

            # a matrix handed out by asmatrix() belongs to the caller: editing it in place must not
            # change what the MLMatrix returns or applies afterwards
            def h():
                # ('coo' is left out: for one level asmatrix('coo') wraps the data tensor without a
                #  copy — scipy's coo_matrix keeps the array it is given — which the property does not
                #  forbid; recorded as an observation in docs/C15.md)
                for fmt in ('csr', 'csc'):
                    A0 = Mx.asmatrix(fmt)
                    A0.data *= 3.0
                    A0.data += 1.0
                A = Mx.asmatrix('csr').tocoo(copy=True).tocsr()
                A.sum_duplicates(); A.eliminate_zeros()
                Ac = A.tocoo()
                trip = sorted(zip(Ac.row.tolist(), Ac.col.tolist(), Ac.data.tolist()))
                return plist(trip, lambda t: '%d,%d,%d' % (t[0], t[1], int(t[2])))
            add('asmat %s %s' % (sdesc, plist(Xd.ravel().astype(int).tolist())), h, ('asmat-alias', bs, bidx, step))
        ctx.count('data-assignment histories')

    # direct ml_nonzero_nd on 2-3 level structures too (public cpdef)
    for (bs, bidx, kind) in structs[:400]:
        S = mk_struct(bs, bidx)
        for lower in (False, True):
            IJ = mlmatrix.ml_nonzero_nd(S.bidx, S._bs_arr, lower_tri=lower)
            add('nznd %d %s' % (lower, fmt_struct(bs, bidx)), fmt_pairs(IJ[0].tolist(), IJ[1].tolist()), ('nznd', bs, bidx, lower))

    # index maps
    nidx = 2000 if ctx.tier == 'quick' else 30000
    for _ in range(nidx):
        L = int(rng.integers(1, 7))
        dims = [int(rng.integers(1, 6)) for _ in range(L)]
        N = int(np.prod(dims))
        i = int(rng.integers(0, N))
        Ii = mlmatrix.from_seq(i, dims)
        assert list(np.unravel_index(i, dims)) == [int(a) for a in Ii]
        add('fromseq %d %s' % (i, plist(dims)), plist(int(a) for a in Ii), ('fromseq', i, dims))
        I2 = [int(rng.integers(0, d)) for d in dims]
        add('toseq %s %s' % (plist(I2), plist(dims)), str(int(mlmatrix.to_seq(I2, dims))), ('toseq', I2, dims))
        bs = np.array([(int(rng.integers(1, 5)), int(rng.integers(1, 5))) for _ in range(L)])
        i = int(rng.integers(0, int(np.prod(bs[:, 0])))); j = int(rng.integers(0, int(np.prod(bs[:, 1]))))
        Mi = mlmatrix.reindex_to_multilevel(i, j, bs)
        bsd = plist(bs.tolist(), lambda b: '%d %d' % tuple(b))
        add('r2ml %d %d %s' % (i, j, bsd), plist(int(a) for a in Mi), ('r2ml', i, j, bs.tolist()))
        back = mlmatrix.reindex_from_multilevel([int(a) for a in Mi], bs.astype(np.int64))
        add('rfml %s %s' % (plist(int(a) for a in Mi), bsd), '%d %d' % (int(back[0]), int(back[1])), ('rfml', Mi, bs.tolist()))
        if (int(back[0]), int(back[1])) != (i, j):
            ctx.violation('reindex-roundtrip', 'reindex_from_multilevel(reindex_to_multilevel(i,j)) != (i,j)',
                          {'i': i, 'j': j, 'bs': bs.tolist(), 'got': [int(back[0]), int(back[1])]}, True)
        m1, n1, m2, n2 = [int(rng.integers(1, 5)) for _ in range(4)]
        i = int(rng.integers(0, m1 * n1)); j = int(rng.integers(0, m2 * n2))
        r = mlmatrix.reindex_from_reordered(i, j, m1, n1, m2, n2)
        add('rfr %d %d %d %d %d %d' % (i, j, m1, n1, m2, n2), '%d %d' % (int(r[0]), int(r[1])), ('rfr',))
        ctx.count('index-map requests', 5)
    # banded / dense / transpose idx
    for n in range(1, 9):
        for bw in range(0, 5):
            b = mlmatrix.compute_banded_sparsity_ij(n, bw)
            add('banded %d %d' % (n, bw), fmt_pairs(b[:, 0].tolist(), b[:, 1].tolist()), ('banded', n, bw))
            t = mlmatrix.get_transpose_idx_for_bidx(b)
            add('tidx %s' % plist(b.tolist(), lambda e: '%d %d' % tuple(e)), plist(int(a) for a in t), ('tidx', n, bw))
    for m in range(1, 5):
        for n in range(1, 5):
            b = mlmatrix.compute_dense_ij(m, n)
            add('dense %d %d' % (m, n), fmt_pairs(b[:, 0].tolist(), b[:, 1].tolist()), ('dense', m, n))
    # sparsity from knot vectors
    nkv = 150 if ctx.tier == 'quick' else 2000
    kv_cases = []
    for _ in range(nkv):
        def rkv():
            p = int(rng.integers(0, 5)); n = int(rng.integers(1, 7))
            brk = np.cumsum(np.concatenate(([0.0], rng.integers(1, 5, size=n).astype(float))))
            mult = [int(rng.integers(1, p + 1)) if p >= 1 else 1 for _ in range(n - 1)]
            kv = np.concatenate(([brk[0]] * (p + 1), np.repeat(brk[1:-1], mult), [brk[-1]] * (p + 1)))
            return bspline.KnotVector(kv, p)
        kv1 = rkv()
        # second kv on the same interval (rescale)
        kv2 = rkv()
        kv2 = bspline.KnotVector(kv2.kv * (kv1.kv[-1] / kv2.kv[-1]), kv2.p)
        ms1 = kv1.mesh_support_idx_all(); ms2 = kv2.mesh_support_idx_all()
        # the model works on mesh indices of a common mesh only if meshes coincide; use kv2 := refined kv1 or same mesh
        if rng.integers(0, 2) == 0:
            kv2 = bspline.KnotVector(np.sort(np.concatenate((kv1.kv, kv1.mesh[1:-1][: int(rng.integers(0, 3))]))), kv1.p)
            if len(kv2.kv) > 2 and np.max(np.unique(kv2.kv[1:-1], return_counts=True)[1]) > kv2.p + 1:
                continue
        else:
            q = int(rng.integers(0, 5))
            inner = kv1.mesh[1:-1]
            mult = [int(rng.integers(1, q + 1)) if q >= 1 else 1 for _ in inner]
            kv2 = bspline.KnotVector(np.concatenate(([kv1.mesh[0]] * (q + 1), np.repeat(inner, mult), [kv1.mesh[-1]] * (q + 1))), q)
        ms1 = kv1.mesh_support_idx_all(); ms2 = kv2.mesh_support_idx_all()
        b = mlmatrix.compute_sparsity_ij(kv1, kv2)
        add('spars %s %s' % (plist(ms1.tolist(), lambda e: '%d %d' % tuple(e)), plist(ms2.tolist(), lambda e: '%d %d' % tuple(e))),
            fmt_pairs(b[:, 0].tolist(), b[:, 1].tolist()) if len(b) else '0', ('spars', kv1.kv.tolist(), kv1.p, kv2.kv.tolist(), kv2.p))
        # hypothesis of theorem sparsity_from_kvs, re-checked on every table sent to the model
        mono = (np.all(np.diff(ms1[:, 0]) >= 0) and np.all(np.diff(ms1[:, 1]) >= 0)
                and np.all(ms1[:, 0] < ms1[:, 1]) and np.all(ms2[:, 0] < ms2[:, 1]))
        if not mono:
            ctx.violation('ml-monosupp', 'mesh_support_idx_all is not monotone with non-empty supports '
                          '(hypothesis MonoSupp of theorem sparsity_from_kvs)',
                          {'kv1': kv1.kv.tolist(), 'p1': kv1.p, 'kv2': kv2.kv.tolist(), 'p2': kv2.p,
                           'ms1': ms1.tolist(), 'ms2': ms2.tolist()}, False)
        kv_cases.append((kv1, kv2, b))
        ctx.count('kv-pairs')

    # utils.kron_partial: selected rows of the full Kronecker product
    import scipy.sparse
    from pyiga import utils
    nkp = 300 if ctx.tier == 'quick' else 4000
    for _ in range(nkp):
        L = int(rng.integers(1, 4))
        As = []
        for _k in range(L):
            m, n = int(rng.integers(1, 4)), int(rng.integers(1, 4))
            a = rng.integers(-3, 4, size=(m, n)) * (rng.random((m, n)) < 0.6)
            if not a.any():
                a[int(rng.integers(0, m)), int(rng.integers(0, n))] = 1
            As.append(scipy.sparse.csr_matrix(a.astype(float)))
        M = int(np.prod([A.shape[0] for A in As]))
        k = int(rng.integers(0, M + 1))
        rows = [int(r) for r in rng.permutation(M)[:k]]
        restrict = bool(rng.integers(0, 2))

        def enc(A):
            c = A.tocoo()
            t = sorted(zip(c.row.tolist(), c.col.tolist(), c.data.tolist()))
            return '%d %d %s' % (A.shape[0], A.shape[1], plist(t, lambda e: '%d %d %d' % (e[0], e[1], int(e[2]))))

        def f(As=As, rows=rows, restrict=restrict):
            X = utils.kron_partial(As, rows, restrict=restrict).tocsr()
            X.sum_duplicates(); X.eliminate_zeros()
            c = X.tocoo()
            return plist(sorted(zip(c.row.tolist(), c.col.tolist(), c.data.tolist())), lambda t: '%d,%d,%d' % (t[0], t[1], int(t[2])))
        add('kronp %d %s %s' % (restrict, plist(As, enc), plist(rows)), f,
            ('kronp', [A.toarray().astype(int).tolist() for A in As], rows, restrict))
        ctx.count('kron_partial')

    # constructors and structure algebra of the library itself (the streams above build structures from raw
    # (bs, bidx)): multi_banded / dense / from_kvs / from_matrix / from_kronecker / join / slice /
    # make_mlmatrix(matrix=) / MLMatrix.reorder / the dense Van Loan-Pitsianis reorder()
    def sfmt(S):
        return fmt_struct([tuple(int(v) for v in b) for b in S.bs], [[(int(e[0]), int(e[1])) for e in p] for p in S.bidx])

    def nz(S, lower=False):
        def f():
            I, J = S.nonzero(lower_tri=lower)
            return fmt_pairs(I.tolist(), J.tolist())
        return f
    nct = 120 if ctx.tier == 'quick' else 1500
    for _ in range(nct):
        L = int(rng.integers(1, 5))
        # multi_banded: per level the banded pattern of the model, sizes (n, n)
        ns = [int(rng.integers(1, 5)) for _ in range(L)]; bws = [int(rng.integers(0, 4)) for _ in range(L)]
        Sb = mlmatrix.MLStructure.multi_banded(ns, bws)
        if [tuple(int(v) for v in b) for b in Sb.bs] != [(n, n) for n in ns]:
            ctx.violation('ml-ctor:multi_banded', 'multi_banded block sizes %s for sizes %s' % (Sb.bs, ns), {'ns': ns, 'bws': bws}, True)
        for k in range(L):
            add('banded %d %d' % (ns[k], bws[k]), fmt_pairs(Sb.bidx[k][:, 0].tolist(), Sb.bidx[k][:, 1].tolist()), ('ctor-banded', ns, bws, k))
        if L >= 2:
            add('nonzero 0 %s' % sfmt(Sb), nz(Sb), ('nonzero', [(n, n) for n in ns], [[tuple(map(int, e)) for e in p] for p in Sb.bidx], False))
        # dense
        m, n = int(rng.integers(1, 5)), int(rng.integers(1, 5))
        Sd = mlmatrix.MLStructure.dense((m, n))
        add('dense %d %d' % (m, n), fmt_pairs(Sd.bidx[0][:, 0].tolist(), Sd.bidx[0][:, 1].tolist()), ('ctor-dense', m, n))
        # from_matrix / from_kronecker / join / slice on random sparse integer factors
        As = []
        for _k in range(L):
            mm, nn = int(rng.integers(1, 4)), int(rng.integers(1, 4))
            a = rng.integers(1, 4, size=(mm, nn)) * (rng.random((mm, nn)) < 0.6)
            if not a.any():
                a[int(rng.integers(0, mm)), int(rng.integers(0, nn))] = 1
            As.append(scipy.sparse.csr_matrix(a.astype(float)))
        raw_bs = [tuple(A.shape) for A in As]
        raw_bidx = [sorted(zip(*[v.tolist() for v in A.nonzero()])) for A in As]     # row-major = canonical CSR order
        Sk = mlmatrix.MLStructure.from_kronecker(As)
        if sfmt(Sk) != fmt_struct(raw_bs, raw_bidx):
            ctx.violation('ml-ctor:from_kronecker', 'from_kronecker(As) is not ((shape_k), (nonzero pattern of A_k in row-major order))',
                          {'As': [A.toarray().tolist() for A in As], 'got': sfmt(Sk), 'want': fmt_struct(raw_bs, raw_bidx)}, True)
        K = reduce(np.kron, [A.toarray() for A in As]) if L > 1 else As[0].toarray()
        if L >= 2:
            add('nonzero 0 %s' % fmt_struct(raw_bs, raw_bidx), nz(Sk), ('nonzero', raw_bs, raw_bidx, False))
            a0, a1 = sorted(int(v) for v in rng.integers(0, L + 1, size=2))
            if a0 < a1:
                Ssl = Sk.slice(a0, a1)
                if sfmt(Ssl) != fmt_struct(raw_bs[a0:a1], raw_bidx[a0:a1]):
                    ctx.violation('ml-ctor:slice', 'slice(%d,%d) is not the sub-list of levels' % (a0, a1),
                                  {'bs': raw_bs, 'bidx': raw_bidx, 'got': sfmt(Ssl)}, True)
                Sj = Ssl.join(Sk.slice(a1, L)) if a1 < L else Ssl
                if sfmt(Sj) != fmt_struct(raw_bs[a0:], raw_bidx[a0:]):
                    ctx.violation('ml-ctor:join', 'slice(%d,%d).join(slice(%d,%d)) is not the concatenation of the levels' % (a0, a1, a1, L),
                                  {'bs': raw_bs, 'bidx': raw_bidx, 'got': sfmt(Sj)}, True)
        # make_mlmatrix(matrix=K): the data tensor holds K at the layout positions; asmatrix gives K back
        def f(Sk=Sk, K=K):
            Mk = Sk.make_mlmatrix(matrix=scipy.sparse.csr_matrix(K) if rng.integers(0, 2) else K)
            A = Mk.asmatrix('coo').tocsr(); A.sum_duplicates(); A.eliminate_zeros(); Ac = A.tocoo()
            return plist(sorted(zip(Ac.row.tolist(), Ac.col.tolist(), Ac.data.tolist())), lambda t: '%d,%d,%d' % (t[0], t[1], int(t[2])))
        vals = [np.array([A[i, j] for (i, j) in p], dtype=float) for A, p in zip(As, raw_bidx)]
        Xk = reduce(np.multiply.outer, vals)
        add('asmat %s %s' % (fmt_struct(raw_bs, raw_bidx), plist(Xk.ravel().astype(int).tolist())), f, ('asmat', raw_bs, raw_bidx, Xk.ravel().tolist()))
        # MLMatrix.reorder(axes): levels and data axes permuted together
        if L >= 2:
            axes = [int(a) for a in rng.permutation(L)]
            Xr = rng.integers(-4, 5, size=Xk.shape).astype(float)

            def f(Sk=Sk, Xr=Xr, axes=axes):
                Mr = mlmatrix.MLMatrix(structure=Sk, data=Xr).reorder(axes)
                A = Mr.asmatrix('coo').tocsr(); A.sum_duplicates(); A.eliminate_zeros(); Ac = A.tocoo()
                return plist(sorted(zip(Ac.row.tolist(), Ac.col.tolist(), Ac.data.tolist())), lambda t: '%d,%d,%d' % (t[0], t[1], int(t[2])))
            add('asmat %s %s' % (fmt_struct([raw_bs[a] for a in axes], [raw_bidx[a] for a in axes]),
                                 plist(np.transpose(Xr, axes).ravel().astype(int).tolist())), f, ('mlreorder', raw_bs, raw_bidx, axes))
        # dense reorder(X, m1, n1): Y[i, j] = X[reindex_from_reordered(i, j)] (positions from the model)
        m1, n1, m2, n2 = (int(v) for v in rng.integers(1, 4, size=4))
        Xd = np.arange(m1 * m2 * n1 * n2, dtype=float).reshape(m1 * m2, n1 * n2)       # entry value = its ravelled position
        lay = int(rng.integers(0, 4))       # memory layout of the argument: C, Fortran, transposed view, strided view
        if lay == 1:
            Xd = np.asfortranarray(Xd)
        elif lay == 2:
            Xd = np.ascontiguousarray(Xd.T).T
        elif lay == 3:
            big = np.zeros((2 * Xd.shape[0], 3 * Xd.shape[1])); big[::2, ::3] = Xd; Xd = big[::2, ::3]
        ctx.count('vlp-reorder layout %d' % lay)
        Yd = mlmatrix.reorder(Xd, m1, n1)
        i, j = int(rng.integers(0, m1 * n1)), int(rng.integers(0, m2 * n2))
        pos = int(Yd[i, j]); add('rfr %d %d %d %d %d %d' % (i, j, m1, n1, m2, n2), '%d %d' % (pos // (n1 * n2), pos % (n1 * n2)), ('vlp-reorder', m1, n1, m2, n2, i, j))
        ctx.count('constructor cases')
    # from_kvs: block sizes (numdofs of the second, of the first space) and the knot-vector sparsity per level
    for (kv1, kv2, b) in kv_cases[:40]:
        Sf = mlmatrix.MLStructure.from_kvs((kv1,), (kv2,))
        want = fmt_struct([(int(kv2.numdofs), int(kv1.numdofs))], [[(int(e[0]), int(e[1])) for e in b]])
        if sfmt(Sf) != want:
            ctx.violation('ml-ctor:from_kvs', 'from_kvs is not ((kv1.numdofs, kv0.numdofs), compute_sparsity_ij(kv0, kv1))',
                          {'kv0': kv1.kv.tolist(), 'p0': kv1.p, 'kv1': kv2.kv.tolist(), 'p1': kv2.p, 'got': sfmt(Sf)[:400]}, True)

    got = ctx.model('drv_c15', req)
    ndis = 0
    for r, e, g, m in zip(req, exp, got, meta):
        if e != g:
            ndis += 1
            if ndis > 20:
                continue
            # search: model-free oracle on the implementation
            found = None
            if m[0] in ('nonzero', 'rows', 'cols', 'asmat', 'matvec', 'reorder', 'transpose', 'nznd', 'sbidx', 'gent', 'gent2', 'mlreorder'):
                found = oracle_struct(m[1], m[2], np.random.default_rng(1))
                if found is None and m[0] == 'nznd':
                    S = mk_struct(m[1], m[2])
                    IJ = mlmatrix.ml_nonzero_nd(S.bidx, S._bs_arr, lower_tri=False)
                    A = [np.zeros(b, dtype=int) for b in m[1]]
                    for a, p in zip(A, m[2]):
                        for (i, j) in p:
                            a[i, j] = 1
                    K = reduce(np.kron, A)
                    if set(zip(IJ[0].tolist(), IJ[1].tolist())) != set(zip(*[x.tolist() for x in np.nonzero(K)])):
                        found = 'ml_nonzero_nd positions differ from the support of numpy.kron'
            if m[0] == 'asmat-alias':
                try:
                    S = mk_struct(m[1], m[2])
                    shape_ = tuple(len(p) for p in m[2])
                    Xh = np.arange(1.0, 1.0 + int(np.prod(shape_))).reshape(shape_)
                    Mh = mlmatrix.MLMatrix(structure=S, data=Xh.copy())
                    A0 = Mh.asmatrix('csr'); A0.data *= 3.0
                    if not np.array_equal(Mh.asmatrix('csr').toarray(), dense_of(m[1], m[2], Xh)):
                        found = ('asmatrix() shares storage with a matrix handed out earlier: after the caller scaled that matrix in place, '
                                 'asmatrix() no longer equals the dense matrix of the data')
                except Exception as ex:
                    found = 'asmatrix alias replay raised %s' % type(ex).__name__
            if m[0] == 'matvec-history':
                try:
                    # replay the history on a fresh object; dense definition built position by position
                    S = mk_struct(m[1], m[2])
                    rowsz = [b[0] for b in m[1]]; colsz = [b[1] for b in m[1]]
                    datas_ = [np.array(d, dtype=float) for d in m[4]]; xs_ = [np.array(v, dtype=float) for v in m[5]]
                    Mh = mlmatrix.MLMatrix(structure=S, data=datas_[0].copy())
                    for st in range(m[3] + 1):
                        if st > 0:
                            Mh.data = datas_[st].copy()
                        y = np.asarray(Mh.dot(xs_[st].copy())).ravel()
                    D = np.zeros((int(np.prod(rowsz)), int(np.prod(colsz))))
                    for mu in np.ndindex(*datas_[m[3]].shape):
                        I = int(np.ravel_multi_index([m[2][k][mu[k]][0] for k in range(len(mu))], rowsz))
                        J = int(np.ravel_multi_index([m[2][k][mu[k]][1] for k in range(len(mu))], colsz))
                        D[I, J] += datas_[m[3]][mu]
                    if not np.array_equal(y, D.dot(xs_[m[3]])):
                        found = ('after %d assignment(s) of a new data tensor to the same MLMatrix object, dot() differs from the '
                                 'dense matrix of the current data' % m[3])
                except Exception as ex:
                    found = 'MLMatrix history raised %s' % type(ex).__name__
            if m[0] == 'spars':
                try:
                    k1 = bspline.KnotVector(np.array(m[1]), m[2]); k2 = bspline.KnotVector(np.array(m[3]), m[4])
                    b = mlmatrix.compute_sparsity_ij(k1, k2)
                    want = [(i, j) for i in range(k2.numdofs) for j in range(k1.numdofs)
                            if min(k2.kv[i + k2.p + 1], k1.kv[j + k1.p + 1]) > max(k2.kv[i], k1.kv[j])]
                    if [tuple(x) for x in b.tolist()] != want:
                        found = 'compute_sparsity_ij differs from the pairs of basis functions with overlapping support'
                except Exception as ex:
                    found = 'compute_sparsity_ij raised %s' % type(ex).__name__
            if m[0] == 'kronp':
                try:
                    Ad = [np.array(a, dtype=float) for a in m[1]]
                    K = reduce(np.kron, Ad)
                    X = utils.kron_partial([scipy.sparse.csr_matrix(a) for a in Ad], m[2], restrict=m[3]).toarray()
                    want = K[m[2], :] if m[3] else np.where(np.isin(np.arange(K.shape[0]), m[2])[:, None], K, 0)
                    if X.shape != want.shape or not np.array_equal(X, want):
                        found = 'kron_partial(rows=%s, restrict=%s) differs from the selected rows of numpy.kron' % (m[2], m[3])
                except Exception as ex:
                    found = 'kron_partial raised %s' % type(ex).__name__
            ctx.violation('ml-corr:' + m[0], 'model and implementation disagree on `%s`%s' % (m[0], (': ' + found) if found else ''),
                          {'request': r[:2000], 'implementation': e[:2000], 'model': g[:2000], 'oracle': found,
                           'stream': 'ml (drv_c15)', 'theorems': THEOREMS}, found is not None)
    ctx.obligation('correspondence stream ml: %d requests, model == implementation' % len(req), ndis == 0, '%d disagreements' % ndis)
    ctx.extra['requests'] = len(req)

    # direct oracle cross-check on a sample (model-free; supports the search, not the proof)
    nor = 300 if ctx.tier == 'quick' else 5000
    orng = np.random.default_rng(ctx.seed + 7)
    bad = 0
    for idx in orng.permutation(len(structs))[:nor]:
        bs, bidx, _ = structs[idx]
        d = oracle_struct(bs, bidx, orng)
        if d is not None:
            bad += 1
            ctx.violation('ml-oracle', d, {'bs': bs, 'bidx': bidx, 'oracle': d}, True)
    for kv1, kv2, b in kv_cases:
        want = [(i, j) for i in range(kv2.numdofs) for j in range(kv1.numdofs)
                if min(kv2.kv[i + kv2.p + 1], kv1.kv[j + kv1.p + 1]) > max(kv2.kv[i], kv1.kv[j])]
        if [tuple(e) for e in b.tolist()] != want:
            bad += 1
            ctx.violation('ml-oracle-spars', 'compute_sparsity_ij differs from the overlapping-support pairs',
                          {'kv1': kv1.kv.tolist(), 'p1': kv1.p, 'kv2': kv2.kv.tolist(), 'p2': kv2.p}, True)
    ctx.extra['oracle_cross_checks'] = int(nor + len(kv_cases))
    ctx.assumptions += ['patterns contain in-range entries (the C code does no bounds checks)',
                        ]
