"""entry point: `check <Cxx> [--tier quick|thorough] [--replay <file>]`"""
import argparse
import importlib
import os
import sys
import traceback

sys.path.insert(0, os.path.dirname(os.path.dirname(os.path.abspath(__file__))))
from harness import common


def main():
    ap = argparse.ArgumentParser()
    ap.add_argument('prop')
    ap.add_argument('--tier', default=os.environ.get('VERIF_TIER', 'quick'), choices=['quick', 'thorough'])
    ap.add_argument('--replay', default=None)
    a = ap.parse_args()
    pid = a.prop.upper()
    seed = int(os.environ.get('VERIF_SEED', '0'))
    os.environ.pop('PYIGA_VERIF', None)
    if a.replay:
        # a replay file names the seed, tier and the failing input / stream; the check is deterministic in
        # (seed, tier), so replaying = showing the recorded input and re-running the check with that seed
        import json
        try:
            rep = json.load(open(a.replay))
            seed = int(rep.get('seed', seed))
            a.tier = rep.get('tier', a.tier)
            print('REPLAY %s: key=%s seed=%d tier=%s found_failing_input=%s' % (
                a.replay, rep.get('key'), seed, a.tier, rep.get('found_failing_input')))
            print('  what: %s' % str(rep.get('what'))[:2000])
            print('  recorded input: %s' % json.dumps(rep.get('replay'), default=str)[:4000])
        except Exception as e:
            print('cannot read replay file %s: %s' % (a.replay, e))
    ctx = common.Ctx(pid, a.tier, seed)
    ctx.replay_file = a.replay
    try:
        mod = importlib.import_module('harness.' + pid.lower())
        mod.run(ctx)
        rc = ctx.finish()
    except common.InfraError as e:
        print('INFRASTRUCTURE-ERROR %s: %s' % (pid, e))
        sys.exit(2)
    except Exception:
        traceback.print_exc()
        print('INFRASTRUCTURE-ERROR %s: unexpected exception in the harness' % pid)
        sys.exit(2)
    sys.exit(rc)


if __name__ == '__main__':
    main()
