"""entry point: `check <Cxx> [--tier quick|thorough] [--replay <file>]`"""
import argparse
import importlib
import os
import sys
import traceback

sys.path.insert(0, os.path.dirname(os.path.dirname(os.path.abspath(__file__))))
from harness import common


def main():
    ap = argparse.ArgumentParser()
    ap.add_argument('prop')
    ap.add_argument('--tier', default=os.environ.get('VERIF_TIER', 'quick'), choices=['quick', 'thorough'])
    ap.add_argument('--replay', default=None)
    a = ap.parse_args()
    pid = a.prop.upper()
    seed = int(os.environ.get('VERIF_SEED', '0'))
    os.environ.pop('PYIGA_VERIF', None)
    ctx = common.Ctx(pid, a.tier, seed)
    ctx.replay_file = a.replay
    try:
        mod = importlib.import_module('harness.' + pid.lower())
        mod.run(ctx)
        rc = ctx.finish()
    except common.InfraError as e:
        print('INFRASTRUCTURE-ERROR %s: %s' % (pid, e))
        sys.exit(2)
    except Exception:
        traceback.print_exc()
        print('INFRASTRUCTURE-ERROR %s: unexpected exception in the harness' % pid)
        sys.exit(2)
    sys.exit(rc)


if __name__ == '__main__':
    main()
