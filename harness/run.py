"""entry point: `check <Cxx> [--tier quick|thorough] [--replay <file>]`"""
import argparse
import importlib
import os
import sys
import traceback

sys.path.insert(0, os.path.dirname(os.path.dirname(os.path.abspath(__file__))))
from harness import common


def supervise(pid, tier, seed, replay=None):
    """run the check in a child process: native code of the implementation under test may crash the interpreter
    (out-of-bounds writes behind boundscheck(False)); a crash is a behaviour of the implementation, so it is reported
    as a violation -- with the request the harness had marked last -- instead of taking the check down with it"""
    import json
    import signal
    import subprocess
    crash = {getattr(signal, n) for n in ('SIGSEGV', 'SIGBUS', 'SIGABRT', 'SIGFPE', 'SIGILL')}
    d = os.path.join(common.VERIF, '.locks')
    os.makedirs(d, exist_ok=True)
    mark = os.path.join(d, 'mark_%s_%d_%d' % (pid, seed, os.getpid()))
    env = dict(os.environ, VERIF_CHILD='1', VERIF_MARKFILE=mark, VERIF_SEED=str(seed))

    def die_with_parent():
        try:
            import ctypes
            ctypes.CDLL('libc.so.6').prctl(1, signal.SIGKILL)
        except Exception:
            pass
    sys.stdout.flush()
    p = subprocess.Popen([sys.executable, '-B', os.path.abspath(__file__), pid, '--tier', tier] +
                         (['--replay', replay] if replay else []), env=env, preexec_fn=die_with_parent)
    for s in (signal.SIGTERM, signal.SIGINT):
        signal.signal(s, lambda sig, frm: p.send_signal(sig))
    rc = p.wait()
    last, tb = '', ''
    for suffix in ('', '.tb'):
        try:
            txt = open(mark + suffix, errors='replace').read()
            os.remove(mark + suffix)
        except OSError:
            txt = ''
        if suffix:
            tb = txt
        else:
            last = txt.rstrip('\x00 \n')
    if rc >= 0:
        return rc
    if -rc not in crash:
        print('INFRASTRUCTURE-ERROR %s: check process killed by signal %d' % (pid, -rc))
        return 2
    name = signal.Signals(-rc).name
    ctx = common.Ctx(pid, tier, seed)
    ctx.rule = 'the check process died with %s inside native code of the implementation; nothing else of this run is recorded' % name
    ctx.obligation('implementation answers every request without crashing the interpreter', False, name)
    ctx.violation('impl-crash:' + name,
                  'the implementation crashed the interpreter (%s) while answering: %s' % (name, last[:1500] or '(no request marked)'),
                  {'signal': name, 'last_marked_request': last, 'python_traceback_at_crash': tb[-6000:]}, bool(last))
    return ctx.finish()


def main():
    ap = argparse.ArgumentParser()
    ap.add_argument('prop')
    ap.add_argument('--tier', default=os.environ.get('VERIF_TIER', 'quick'), choices=['quick', 'thorough'])
    ap.add_argument('--replay', default=None)
    a = ap.parse_args()
    pid = a.prop.upper()
    seed = int(os.environ.get('VERIF_SEED', '0'))
    os.environ.pop('PYIGA_VERIF', None)
    child = os.environ.get('VERIF_CHILD') == '1'
    if a.replay and not child:
        # a replay file names the seed, tier and the failing input / stream; the check is deterministic in
        # (seed, tier), so replaying = showing the recorded input and re-running the check with that seed
        import json
        try:
            rep = json.load(open(a.replay))
            seed = int(rep.get('seed', seed))
            a.tier = rep.get('tier', a.tier)
            print('REPLAY %s: key=%s seed=%d tier=%s found_failing_input=%s' % (
                a.replay, rep.get('key'), seed, a.tier, rep.get('found_failing_input')))
            print('  what: %s' % str(rep.get('what'))[:2000])
            print('  recorded input: %s' % json.dumps(rep.get('replay'), default=str)[:4000])
        except Exception as e:
            print('cannot read replay file %s: %s' % (a.replay, e))
    if not child:
        sys.exit(supervise(pid, a.tier, seed, a.replay))
    import faulthandler
    faulthandler.enable(file=open(os.environ['VERIF_MARKFILE'] + '.tb', 'w'), all_threads=False)
    ctx = common.Ctx(pid, a.tier, seed)
    ctx.replay_file = a.replay
    try:
        mod = importlib.import_module('harness.' + pid.lower())
        mod.run(ctx)
        rc = ctx.finish()
    except common.InfraError as e:
        print('INFRASTRUCTURE-ERROR %s: %s' % (pid, e))
        sys.exit(2)
    except Exception:
        traceback.print_exc()
        print('INFRASTRUCTURE-ERROR %s: unexpected exception in the harness' % pid)
        sys.exit(2)
    sys.exit(rc)


if __name__ == '__main__':
    main()
