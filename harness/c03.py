"""
C03 — hierarchical assembly is the level-wise Galerkin restriction (DESIGN.md §6/C03).

tie: hand-written Lean model (Pyiga.Model.HAssemble on top of Pyiga.Model.Transfer, driver drv_c03)
     vs pyiga._hdiscr.HDiscretization.assemble_matrix / assemble_functional.  The model receives the
     HSpace's per-level index sets, its per-axis prolongation factors, the neighbour query
     cell_supp_indices(remove_dirichlet=False) and the implementation's OWN full tensor-product level
     matrices A_k; it redoes the bookkeeping (neighbors[k][k] cleared, range(max(0,k-d),k),
     function_grandchildren, to_assemble, canonical indices, the three COO blocks per level, duplicate
     summation, T^T A T for THB, symmetric flag) in exact Rat.  Compared: to_assemble[k] as passed to
     the level assembler by the real assemble_matrix (exact), the final matrix / vector (derived bound).
theorems: Pyiga.Props.C03.*
search (model-free): dense (I_k^T A_k I_k)[i,j] with k = max(level i, level j) entry by entry, I_k =
     represent_fine(lv=k) (checked by evaluation in C05); on affine geometry with polynomial data
     additionally I^T A_fine I with the finest-level assembly (Gauss exactness assumed).
"""
import json
import os
import subprocess
import sys

import numpy as np
import scipy.sparse

from .common import plist, frac, PY, VERIF, REPO, InfraError
from .c05 import fmt_space, fmt_mat_in, parse_mat, mat_diff, EPS

THEOREMS = [
    'Pyiga.Props.C03.scatter_unique', 'Pyiga.Props.C03.hb_entry', 'Pyiga.Props.C03.hb_entry_same_level',
    'Pyiga.Props.C03.thb_congruence', 'Pyiga.Props.C03.sym_flag', 'Pyiga.Props.C03.level_blocks_spec',
    'Pyiga.Props.C03.hb_entry_level', 'Pyiga.Props.C03.hb_entry_unique_block', 'Pyiga.Props.C03.interlevel_ix_covers',
    'Pyiga.Props.C03.hb_entry_galerkin',
]
MODULES = ['Pyiga.Model.TransferKnots', 'Pyiga.Model.Transfer', 'Pyiga.Model.HAssemble', 'Pyiga.Proofs.Transfer', 'Pyiga.Proofs.ProlongateTo', 'Pyiga.Proofs.HAssemble', 'Pyiga.Proofs.HAssemble2', 'Pyiga.Props.C03']

FORMS = {
    'mass': ('u*v*dx', True),
    'laplace': ('inner(grad(u),grad(v))*dx', True),
    'conv': ('inner(b,grad(u))*v*dx', False),
    'fun': ('f*v*dx', None),
    'fun2': ('f*f*v*dx', None),      # same inputs as `fun`, different integrand
}
QUICK_FORMS = {1: ['laplace', 'fun', 'fun2'], 2: ['mass', 'conv', 'fun', 'fun2']}   # 7 on-demand assemblers (cached per digest)
ALL_FORMS = {1: ['mass', 'laplace', 'conv', 'fun', 'fun2'], 2: ['mass', 'laplace', 'conv', 'fun', 'fun2']}


def make_args(dim, affine=True, scale=None):
    """geometry (optionally scaled per axis by powers of two) and (polynomial) coefficient fields in parametric coordinates"""
    from pyiga import bspline, geometry
    if dim == 1:
        geo = geometry.line_segment(0.5, 2.5)
        b = geometry.line_segment(1.0, 3.0)
        f = bspline.BSplineFunc((bspline.make_knots(1, 0.0, 1.0, 1),), np.array([1.0, 3.0]))
    else:
        geo = geometry.unit_square().scale((2.0, 0.5)).translate((1.0, -1.0)) if affine else geometry.quarter_annulus()
        b = geometry.unit_square().translate((1.0, 2.0))
        f = bspline.BSplineFunc(2 * (bspline.make_knots(1, 0.0, 1.0, 1),), np.array([[1.0, 2.0], [3.0, 5.0]]))
    if scale is not None:
        geo = geo.scale(tuple(float(x) for x in scale) if dim > 1 else float(scale[0]))
    return {'geo': geo, 'b': b, 'f': f}


def make_vf(name, dim):
    from pyiga import bspline, vform
    kvs = dim * (bspline.make_knots(1, 0.0, 1.0, 1),)
    args = make_args(dim)
    expr = FORMS[name][0]
    return vform.parse_vf(expr, kvs, args={k: v for k, v in args.items()}), args


def prewarm(cache, todo):
    """compile the on-demand assemblers in parallel subprocesses into the private cache"""
    code = ("import os,sys; sys.path.insert(0, %r); os.environ['XDG_CACHE_HOME']=%r\n"
            "from harness import common\n"
            "from harness.c03 import make_vf\n"
            "from pyiga import compile\n"
            "vf,_ = make_vf(sys.argv[1], int(sys.argv[2])); compile.compile_vform(vf, on_demand=True)\n") % (VERIF, cache)
    env = dict(os.environ); env['XDG_CACHE_HOME'] = cache
    marker = lambda t: os.path.join(cache, 'c03-prewarmed-%s-%d' % t)
    todo = [t for t in todo if not os.path.exists(marker(t))]
    procs = [subprocess.Popen([PY, '-B', '-c', code, name, str(dim)], stdout=subprocess.DEVNULL, stderr=subprocess.PIPE, env=env, cwd='/tmp')
             for (name, dim) in todo]
    errs = []
    for p, t in zip(procs, todo):
        _, err = p.communicate(timeout=900)
        if p.returncode != 0:
            errs.append((t, err.decode()[-400:]))
        else:
            open(marker(t), 'w').close()
    return errs


class Recorder:
    """wraps the real HDiscretization so that the rows/bbox it passes to the level assembler are observable"""
    def __init__(self, hd):
        self.hd = hd
        self.calls = []
        orig = hd._assemble_level

        def wrapped(k, rows=None, bbox=None, symmetric=False):
            self.calls.append((int(k), None if rows is None else [int(r) for r in rows], bbox))
            return orig(k, rows=rows, bbox=bbox, symmetric=symmetric)
        hd._assemble_level = wrapped


def full_level_matrix(hd, hs, k):
    N = int(hs.mesh(k).numbf)
    full = tuple((0, int(kv.numspans)) for kv in hs.knotvectors(k))
    from pyiga._hdiscr import HDiscretization
    return HDiscretization._assemble_level(hd, k, rows=np.arange(N), bbox=full)


def full_level_vector(hs, vf, args, k):
    from pyiga import compile
    Rhs = compile.compile_vform(vf, on_demand=True)
    a = {inp.name: args[inp.name] for inp in vf.inputs}
    a['bbox'] = tuple((0, int(kv.numspans)) for kv in hs.knotvectors(k))
    asm = Rhs(hs.knotvectors(k), **a)
    return np.asarray(asm.multi_entries(np.arange(int(hs.mesh(k).numbf))))


def level_of(hs):
    lv = []
    for l, n in enumerate(hs.numactive):
        lv += [l] * n
    return np.array(lv, dtype=int)


def oracle_matrix(hs, A_levels, truncate, affine):
    """the property on dense matrices: entry (i,j) = (I_k^T A_k I_k)[i,j], k = max level; THB: T^T . T"""
    L = hs.numlevels
    n = hs.numdofs
    lev = level_of(hs)
    nt = np.cumsum(hs.numactive)
    want = np.zeros((n, n))
    for k in range(L):
        Ik = hs.represent_fine(lv=k, truncate=False).toarray()[:, :nt[k]]
        G = Ik.T @ A_levels[k].toarray() @ Ik
        mask = np.maximum.outer(lev[:nt[k]], lev[:nt[k]]) == k
        want[:nt[k], :nt[k]][mask] = G[mask]
    fine = None
    if affine:
        I = hs.represent_fine(truncate=False).toarray()
        fine = I.T @ A_levels[L - 1].toarray() @ I
    if truncate:
        T = hs.thb_to_hb().toarray()
        want = T.T @ want @ T
        if fine is not None:
            fine = T.T @ fine @ T
    return want, fine


def gen_space(rng, dim, p, n0, nref, disparity, truncate, bdspecs, maxlevels):
    from pyiga import bspline, hierarchical
    kvs = tuple(bspline.make_knots(p, 0.0, 1.0, n) for n in n0)
    hs = hierarchical.HSpace(kvs, truncate=truncate, disparity=disparity, bdspecs=bdspecs)
    hist = []
    for _ in range(nref):
        lvls = [l for l in range(hs.numlevels) if hs.active_cells(l) and l < maxlevels - 1]
        if not lvls:
            break
        marked = {}
        pick_lv = [lvls[-1]] if rng.integers(0, 3) else [int(x) for x in rng.choice(lvls, size=min(len(lvls), 2), replace=False)]
        for l in pick_lv:
            cells = sorted(hs.active_cells(l))
            k = int(rng.integers(1, min(len(cells), 4) + 1))
            mode = int(rng.integers(0, 3))
            if mode == 0:      # corner / nested
                pick = cells[:k]
            elif mode == 1:    # isolated cells
                pick = [cells[int(q)] for q in rng.choice(len(cells), size=k, replace=False)]
            else:
                s = int(rng.integers(0, len(cells))); pick = [cells[(s + q) % len(cells)] for q in range(k)]
            marked[int(l)] = set(pick)
        hist.append({l: sorted(c) for l, c in marked.items()})
        hs.refine(marked)
    return hs, hist



class _Unready:
    """an assembler input that is not usable yet: every attribute access raises"""
    def __getattr__(self, name):
        raise RuntimeError('input not ready (attribute %s)' % name)

    def __call__(self, *a, **k):
        raise RuntimeError('input not ready')


def retry_history(ctx, rng, snap, desc, dim, mname, fA, vfs, args, truncate, affine, dsp, sp, nbr_s, lvl_cache, req, exp, meta):
    """failure-and-retry history on ONE HDiscretization object: the first assemble_matrix() raises inside the assembly (a required
    entry of asm_args is missing, or is an object that raises on first use), the caller repairs asm_args and calls
    assemble_matrix() / assemble_functional() again.  The stateless model says: the retried results are those of a fresh
    object; the object's observable state (hdiscr.truncate, hs.truncate) must be what it was before the failed call."""
    from pyiga._hdiscr import HDiscretization
    hs2 = snap.copy()
    vf = vfs[(mname, dim)]; vfa = vfs[(fA, dim)]
    names = [inp.name for inp in vf.inputs]
    if not names:
        return
    victim = names[int(rng.integers(0, len(names)))]
    fault = ['missing', 'raises-on-use'][int(rng.integers(0, 2))]
    args2 = dict(args)
    if fault == 'missing':
        del args2[victim]
    else:
        args2[victim] = _Unready()
    ops = ['HDiscretization(hs, %s, asm_args with `%s` %s)' % (FORMS[mname][0], victim, fault)]
    d2 = dict(desc); d2['failure_and_retry_on_one_HDiscretization'] = ops
    L = snap.numlevels
    try:
        hd = HDiscretization(hs2, vf, args2)
    except Exception as ex:
        return      # rejected at construction: nothing to retry
    ctx.count('failure-and-retry histories'); ctx.count('fault=' + fault)
    ctx.mark('C03 %s' % json.dumps(d2, default=str)[:3500])
    raised = None
    try:
        hd.assemble_matrix()
    except Exception as ex:
        if type(ex).__name__ in ('CompileError', 'LinkError', 'DistutilsExecError'):
            raise InfraError('compiling the assembler for `%s` failed: %s' % (mname, str(ex)[:300]))
        raised = type(ex).__name__
    ops.append('assemble_matrix() -> %s' % (('raises ' + raised) if raised else 'returns'))
    if raised is None:
        ctx.count('fault did not raise')
    state = (bool(hd.truncate), bool(hs2.truncate))
    if state != (bool(truncate), bool(truncate)):
        ops.append('state after the exception: hdiscr.truncate=%s hs.truncate=%s (space was created with truncate=%s)' % (state[0], state[1], truncate))
        ctx.violation('hasm-state-after-exception', 'after assemble_matrix() raised %s the discretization object reports truncate=%s, its '
                      'space truncate=%s, but the space was created with truncate=%s' % (raised, state[0], state[1], truncate),
                      {'case': d2}, True)
    args2[victim] = args[victim]           # the caller repairs the cause (same dict the object holds)
    ops.append('asm_args[`%s`] = <valid input>' % victim)
    for si, (kind, name, vfx) in enumerate([('mat', mname, vf), ('fun', fA, vfa), ('mat', mname, vf)]):
        ops.append('%s (retry)' % ('assemble_matrix()' if kind == 'mat' else 'assemble_functional(%s)' % FORMS[name][0]))
        d3 = dict(d2); d3['failure_and_retry_on_one_HDiscretization'] = list(ops); d3['failing_step'] = len(ops) - 1
        ctx.mark('C03 %s' % json.dumps(d3, default=str)[:3500])
        try:
            if kind == 'fun':
                if name not in lvl_cache:
                    lvl_cache[name] = [full_level_vector(snap, vfx, args, k) for k in range(L)]
                e = np.asarray(hd.assemble_functional(vfx))
            else:
                rec = Recorder(hd) if si == 0 else rec
                rec.calls.clear()
                A_impl = hd.assemble_matrix(symmetric=False)
                ta = [None] * L
                for (k, rows, bbox) in rec.calls:
                    if k < L:
                        ta[k] = rows
                e = (ta, A_impl)
        except Exception as ex:
            if type(ex).__name__ in ('CompileError', 'LinkError', 'DistutilsExecError'):
                raise InfraError('compiling the assembler for `%s` failed: %s' % (name, str(ex)[:300]))
            e = 'err-%s: %s' % (type(ex).__name__, str(ex)[:200])
        lv = lvl_cache.get(name)
        if kind == 'fun':
            req.append('hfun bad' if lv is None else 'hfun %s %d %s' % (sp, truncate, plist(lv, lambda v: plist(v.tolist(), frac))))
            exp.append(e); meta.append(('fun', d3, name, snap, lv, affine))
        else:
            req.append('hasm bad' if lv is None else 'hasm %s %d %d %d %s %s' % (sp, dsp, 0, truncate, nbr_s, plist(lv, fmt_mat_in)))
            exp.append(e); meta.append(('mat', d3, name, snap, lv, affine, False))


def run(ctx):
    # private module cache of this check: a sub-directory of the digest-keyed cache (other checks compile
    # `u*v*dx` too; keeping the directories apart avoids concurrent builds of the same module)
    os.environ['XDG_CACHE_HOME'] = os.path.join(ctx.xdg_cache(), 'c03')
    os.makedirs(os.environ['XDG_CACHE_HOME'], exist_ok=True)
    ctx.build_repo()
    quick = ctx.tier == 'quick'
    forms = QUICK_FORMS if quick else ALL_FORMS
    errs = prewarm(os.environ['XDG_CACHE_HOME'], [(n, d) for d in (1, 2) for n in forms[d]])
    from pyiga import bspline, hierarchical, vform, compile
    from pyiga._hdiscr import HDiscretization
    ctx.require_lean(['Pyiga.Props.C03', 'drv_c03'])
    ctx.audit(['Pyiga.Props.C03'], THEOREMS, MODULES)
    if ctx.tier == 'thorough':
        ctx.leanchecker(MODULES)
    for (t, e) in errs:
        ctx.violation('hasm:compile', 'form %s (dim %d) does not compile: %s' % (t[0], t[1], e), {'form': t[0], 'dim': t[1]}, False)
    rng = ctx.rng
    ctx.trusted += ['scipy COO->CSR duplicate summation, sparse products and fancy indexing by their documented behaviour',
                    'the compiled level assemblers (C01) are inputs: the model uses the implementation\'s own full level matrices']
    ctx.assumptions += ['polynomial exactness of Gauss quadrature (oracle I^T A_fine I, affine geometry and polynomial coefficients only)',
                        'cell_supp_indices / represent_fine inputs are those of the HSpace (C04 / C05)',
                        'values: exact Rat on the implementation\'s doubles, bound 64 eps (L+2) |A|_inf |I|_inf^2, relative to the entry scale (no absolute floor)']
    ctx.rule = ('random refinement histories (corner, isolated-cell, multi-level marks), 1-D 2..6 cells p 1..3 up to 4 levels, 2-D 2..3 cells/axis '
                'p 1..2 up to 3 (thorough 4) levels, disparity 1/2/inf, truncate on/off, bdspecs None/[]/faces; forms: mass, Laplace, '
                'non-symmetric convection with a coefficient field, two functionals with the same input field (f v, f^2 v); per history ONE '
                'HDiscretization object runs the sequence matrix, functional A, functional B, functional A, matrix (symmetric flag if the '
                'form is symmetric), then the same HSpace is refined once more and matrix + functional A are assembled again through the '
                'same object; every step is compared with the model sum of THAT form\'s level assemblies and with the dense oracle; '
                'failure-and-retry histories on one object: the first assemble_matrix() raises inside the assembly (an asm_args entry missing '
                'or raising on use), the caller repairs asm_args, matrix / functional / matrix are retried and compared with the stateless '
                'model, and hdiscr.truncate / hs.truncate must be unchanged after the exception; '
                'affine and (2-D) quarter-annulus geometry, scaled per axis by powers of two 2^-30 .. 2^20 (isotropic and anisotropic), all '
                'comparisons relative to the entry scale; non-trivial = >= 2 levels')
    vfs = {}
    for d in (1, 2):
        for n in forms[d]:
            try:
                vfs[(n, d)] = make_vf(n, d)[0]
            except Exception as ex:
                ctx.violation('hasm:parse', 'form %s cannot be parsed: %s' % (n, ex), {'form': n, 'dim': d}, False)

    req, exp, meta = [], [], []
    ncase = 40 if quick else 600
    for it in range(ncase):
        dim = 1 if it % 2 else 2
        p = int(rng.integers(1, 4)) if dim == 1 else int(rng.integers(1, 3))
        n0 = tuple(int(rng.integers(2, 7)) for _ in range(dim)) if dim == 1 else tuple(int(rng.integers(2, 4)) for _ in range(dim))
        disparity = [1, 2, np.inf][int(rng.integers(0, 3))]
        truncate = bool(rng.integers(0, 2))
        bmode = int(rng.integers(0, 3))
        bdspecs = [None, [], ([(0, 0), (0, 1)] if dim == 1 else [(0, 0), (1, 1)])][bmode]
        maxlev = 4 if dim == 1 else (3 if quick else 4)
        affine = dim == 1 or bool(rng.integers(0, 4))
        desc = {'dim': dim, 'p': p, 'n0': list(n0), 'disparity': None if disparity == np.inf else int(disparity), 'truncate': truncate,
                'bdspecs': bdspecs, 'affine_geometry': affine}
        try:
            hs, hist = gen_space(rng, dim, p, n0, int(rng.integers(1, 5)), disparity, truncate, bdspecs, maxlev)
        except Exception as ex:
            ctx.violation('hasm:generate', 'refinement raised %s: %s' % (type(ex).__name__, ex), desc, False)
            continue
        desc['refine_history'] = hist
        L = hs.numlevels
        ctx.case(repr(desc), nontrivial=L >= 2)
        for key in ('dim', 'disparity', 'truncate', 'affine_geometry'):
            ctx.count('%s=%s' % (key, desc[key]))
        ctx.count('levels=%d' % L); ctx.count('bdspecs=%s' % ['None', '[]', 'faces'][bmode])
        if len(ctx.samples) < 5 and L >= 3:
            ctx.sample(desc)
        # physical size over many decades (powers of two: the level-wise Galerkin quantities rescale exactly):
        # isotropic or anisotropic, 2^-30 .. 2^20; a quarter of the histories stay at unit scale
        smode = int(rng.integers(0, 4))
        if smode == 0:
            sexp = [0] * dim
        elif smode == 1:
            sexp = [int(rng.integers(-30, 21))] * dim
        elif smode == 2:
            sexp = [int(rng.integers(-30, 21)) for _ in range(dim)]
        else:
            sexp = [int(rng.choice([-30, -20, -10, 10, 20]))] * dim
        # stratum: the first histories of every run cover the extreme scales with every matrix form
        strata = {0: -30, 1: -30, 2: -20, 3: 20, 4: -30, 5: -20, 6: 20, 7: 10}
        if it in strata:
            sexp = [strata[it]] * dim
        desc['geometry_scale_log2'] = sexp
        ctx.count('geometry scale: %s' % ('unit' if not any(sexp) else 'tiny (<= 2^-15)' if min(sexp) <= -15 else 'huge (>= 2^10)' if max(sexp) >= 10 else 'moderate'))
        args = make_args(dim, affine, [2.0 ** e for e in sexp])
        dsp = -1 if disparity == np.inf else int(disparity)
        mats = [n for n in forms[dim] if FORMS[n][1] is not None and (n, dim) in vfs]
        funs = [n for n in forms[dim] if FORMS[n][1] is None and (n, dim) in vfs]
        if not mats or len(funs) < 2:
            continue
        mname = mats[int(rng.integers(0, len(mats)))]
        if it < 8:      # (form, scale) strata: 2-D first form at 2^-30, 2^-20, 2^20 and second form at 2^-30; 1-D forms in turn
            mname = mats[({0: 0, 2: 0, 4: 1, 6: 0}[it] if dim == 2 else it // 2) % len(mats)]
        fA, fB = funs[0], funs[1]
        # ONE HDiscretization object per history; sequence: matrix, functional A, functional B (other integrand, same
        # inputs), functional A again, matrix again (symmetric flag if the form is symmetric); then one more refinement
        # of the SAME HSpace and matrix + functional A again through the same object (stale caches).
        sym2 = bool(FORMS[mname][1])
        steps = [('mat', mname, False), ('fun', fA, None), ('fun', fB, None), ('fun', fA, None), ('mat', mname, sym2)]
        seq = ['%s:%s%s' % (k, FORMS[n][0], ' symmetric=True' if sy else '') for (k, n, sy) in steps]
        try:
            hd = HDiscretization(hs, vfs[(mname, dim)], args)
            rec = Recorder(hd)
        except Exception as ex:
            ctx.violation('hasm:construct', 'HDiscretization raised %s' % type(ex).__name__, desc, False)
            continue
        stage = 0
        while True:
            snap = hs.copy(); snap._clear_cache()      # frozen, cache-free view of the space for the model inputs and the oracle
            L = snap.numlevels
            sp = fmt_space(snap)
            nbr = [snap.ravel_indices(x) for x in snap.cell_supp_indices(remove_dirichlet=False)]
            nbr_s = plist(nbr, lambda per: plist(per, lambda a: plist(int(i) for i in a)))
            lvl_cache = {}
            for si, (kind, name, sym) in enumerate(steps):
                d2 = dict(desc); d2['sequence_on_one_HDiscretization'] = seq if stage == 0 else seq + ['refine:%s' % extra] + seq2
                d2['failing_step'] = si if stage == 0 else len(seq) + 1 + si
                vf = vfs[(name, dim)]
                ctx.count('form=' + name)
                ctx.mark('C03 %s step %d (%s:%s)' % (json.dumps(d2, default=str)[:3000], d2['failing_step'], kind, FORMS[name][0]))
                try:
                    if kind == 'fun':
                        if name not in lvl_cache:
                            lvl_cache[name] = [full_level_vector(snap, vf, args, k) for k in range(L)]
                        e = np.asarray(hd.assemble_functional(vf))
                    else:
                        rec.calls.clear()
                        A_impl = hd.assemble_matrix(symmetric=sym)
                        ta = [None] * L
                        for (k, rows, bbox) in rec.calls:
                            if k < L:
                                ta[k] = rows
                        if name not in lvl_cache:
                            hd0 = HDiscretization(snap, vf, args)
                            lvl_cache[name] = [full_level_matrix(hd0, snap, k) for k in range(L)]
                        e = (ta, A_impl)
                except Exception as ex:
                    if type(ex).__name__ in ('CompileError', 'LinkError', 'DistutilsExecError'):
                        raise InfraError('compiling the assembler for `%s` failed: %s' % (name, str(ex)[:300]))
                    e = 'err-%s: %s' % (type(ex).__name__, str(ex)[:200])
                lv = lvl_cache.get(name)
                if lv is None:
                    try:
                        lv = ([full_level_vector(snap, vf, args, k) for k in range(L)] if kind == 'fun'
                              else [full_level_matrix(HDiscretization(snap, vf, args), snap, k) for k in range(L)])
                    except Exception:
                        lv = None
                if kind == 'fun':
                    req.append('hfun bad' if lv is None else 'hfun %s %d %s' % (sp, truncate, plist(lv, lambda v: plist(v.tolist(), frac))))
                    exp.append(e); meta.append(('fun', d2, name, snap, lv, affine))
                else:
                    req.append('hasm bad' if lv is None else 'hasm %s %d %d %d %s %s' % (sp, dsp, sym, truncate, nbr_s, plist(lv, fmt_mat_in)))
                    exp.append(e); meta.append(('mat', d2, name, snap, lv, affine, sym))
            if stage == 0:
                retry_history(ctx, rng, snap, desc, dim, mname, fA, vfs, args, truncate, affine, dsp, sp, nbr_s, lvl_cache,
                              req, exp, meta)
            if stage == 1:
                break
            # one more refinement of the same HSpace (often activating-only: a single cell next to the refined region)
            lvls = [l for l in range(hs.numlevels) if hs.active_cells(l) and l < maxlev - 1]
            if not lvls or (quick and it % 4 == 0):
                break
            l = int(lvls[int(rng.integers(0, len(lvls)))])
            cells = sorted(hs.active_cells(l))
            extra = {l: [cells[int(rng.integers(0, len(cells)))]]}
            try:
                hs.refine({l: set(extra[l])})
            except Exception as ex:
                ctx.violation('hasm:generate', 'refinement raised %s: %s' % (type(ex).__name__, ex), desc, False)
                break
            ctx.count('re-assembled after a further refinement')
            steps = [('mat', mname, False), ('fun', fA, None)]
            seq2 = ['%s:%s' % (k, FORMS[n][0]) for (k, n, sy) in steps]
            stage = 1


    got = ctx.model('drv_c03', req)
    ndis = 0
    nor = 0
    for r, e, g, m in zip(req, exp, got, meta):
        kind, desc, name, hs = m[0], m[1], m[2], m[3]
        L = hs.numlevels
        bad = None
        try:
            if isinstance(e, str) and e.startswith('err-'):
                bad = 'implementation raised ' + e[4:]
            elif g == 'bad-request':
                bad = 'model rejected the request'
            elif kind == 'fun':
                vals = np.array([float(__import__('fractions').Fraction(t)) for t in g.split()[1:]])
                mag = float(np.abs(vals).max()) if len(vals) else 0.0      # relative to the entry scale: a zero vector cannot pass
                if vals.shape != e.shape or (len(vals) and np.abs(vals - e).max() > 64 * EPS * (L + 2) * mag * 4):
                    bad = 'assembled functional differs from the model by %.3e' % (np.abs(vals - e).max() if vals.shape == e.shape else np.inf)
            else:
                parts = g.split(' | ')
                ta_model = _parse_lists(parts[1])
                ta_impl, A_impl = e
                if [x for x in ta_impl] != ta_model:
                    bad = 'to_assemble passed to the level assembler differs: implementation %s, model %s' % (str(ta_impl)[:200], str(ta_model)[:200])
                else:
                    ok, d, nrm = mat_diff(parse_mat(parts[3]), A_impl)
                    tol = 64 * EPS * (L + 2) * nrm * 4        # relative to |A|_inf of the exact model value: a zero matrix cannot pass
                    if not ok or d > tol:
                        bad = 'assembled matrix differs from the model sum of level contributions by %.3e (bound %.2e)' % (d, tol)
        except Exception as ex:
            bad = 'comparison failed: %s %s' % (type(ex).__name__, ex)
        # model-free oracle: on every case (cheap), it *is* the property
        found = None
        try:
            if m[4] is not None and not (isinstance(e, str)):
                nor += 1
                found = oracle(hs, m, e)
        except Exception as ex:
            found = 'oracle failed: %s %s' % (type(ex).__name__, ex)
        if bad is None and found is not None:
            ctx.violation('hasm-oracle:' + name, found, {'case': desc, 'form': name, 'oracle': found}, True)
        if bad:
            ndis += 1
            if ndis <= 10:
                if found is None and isinstance(e, str):
                    found = 'assembling `%s` over this space raises %s' % (FORMS[name][0], e[4:])
                ctx.violation('hasm-corr:' + name, 'model and implementation disagree (%s): %s%s' % (name, bad, ('; oracle: ' + found) if found else ''),
                              {'case': desc, 'form': name, 'symmetric': m[6] if kind == 'mat' else None, 'request': r[:2000], 'model': g[:1000],
                               'oracle': found, 'stream': 'hasm (drv_c03)'}, found is not None)
    ctx.obligation('correspondence stream hasm: %d requests, model == implementation within the derived bound' % len(req), ndis == 0,
                   '%d disagreements' % ndis)
    ctx.extra['requests'] = len(req)
    ctx.extra['oracle_checks'] = nor


def _parse_lists(s):
    toks = s.split()
    n = int(toks[0]); pos = 1; out = []
    for _ in range(n):
        k = int(toks[pos]); out.append([int(t) for t in toks[pos + 1: pos + 1 + k]]); pos += 1 + k
    return out


def oracle(hs, m, e):
    kind, desc, name = m[0], m[1], m[2]
    L = hs.numlevels
    if kind == 'fun':
        b_lv = m[4]
        IA = hs.active_indices()
        want = np.concatenate([b_lv[k][IA[k]] for k in range(L)])
        fine = hs.represent_fine(truncate=False).T @ b_lv[L - 1] if m[5] else None
        if hs.truncate:
            T = hs.thb_to_hb()
            want = T.T @ want
            fine = T.T @ fine if fine is not None else None
        mag = float(np.abs(want).max())
        if want.shape != np.shape(e):
            return 'functional: vector of length %s returned, the space has %d dofs' % (np.shape(e), len(want))
        if np.abs(want - e).max() > 256 * EPS * (L + 2) * mag:
            return 'functional: entry differs from the level-wise definition by %.3e' % np.abs(want - e).max()
        if fine is not None and np.abs(fine - e).max() > 1e-11 * mag:
            return 'functional differs from I^T b_fine by %.3e' % np.abs(fine - e).max()
        return None
    A_lv, affine, sym = m[4], m[5], m[6]
    A = e[1].toarray()
    want, fine = oracle_matrix(hs, A_lv, hs.truncate, affine)
    if want.shape != A.shape:
        return 'matrix of shape %s returned, the space has %d dofs' % (A.shape, want.shape[0])
    mag = float(np.abs(want).max())
    d = np.abs(want - A)
    if d.max() > 256 * EPS * (L + 2) * mag * 8:
        i, j = np.unravel_index(int(d.argmax()), d.shape)
        return ('matrix entry (%d,%d) = %r differs from the level-wise Galerkin definition %r (symmetric=%s)' % (i, j, A[i, j], want[i, j], sym))
    if fine is not None and np.abs(fine - A).max() > 1e-10 * mag:
        return 'matrix differs from I^T A_fine I by %.3e (affine geometry, polynomial data)' % np.abs(fine - A).max()
    return None
