"""
C11 — relaxation and multigrid are consistent, contractive iterations (DESIGN.md §6/C11).

tie:   hand-written Lean model (Pyiga.Model.Relax, driver drv_c11) vs relaxation_cy.gauss_seidel(_indexed),
       solvers.gauss_seidel (dense + sparse branches, every sparse format), local_mg_step, iterative_solve,
       solve_hmultigrid, twogrid, HSpace.indices_to_smooth on the same inputs (K-streams `relax`, `mg`).
theorems: Pyiga.Props.C11.*
search (model-free): textbook Gauss-Seidel in Fractions; energies computed directly; fixed points;
       set inclusions of the smoothing sets computed from the HSpace's own level data.
"""
import contextlib
import io
import math
import sys
import warnings
from fractions import Fraction as Fr

import numpy as np

from .common import plist, frac

sys.set_int_max_str_digits(0)

THEOREMS = ['Pyiga.Props.C11.' + t for t in [
    'gs_as_coded', 'gs_textbook', 'gs_duplicate_diagonal_not_textbook', 'gs_sweep_order', 'gs_backward_is_reversed',
    'gs_symmetric_is_forward_backward', 'gs_dense_sparse_agree', 'gs_fixed_point', 'gs_energy', 'gs_energy_le',
    'gs_sweep_energy_le', 'subspace_correction_energy', 'subspace_correction_energy_le', 'mg_energy', 'mg_fixed_point', 'driver_stop', 'driver_stop_zero_residual', 'twogrid_stop',
    'smoothing_sets', 'local_mg_step_energy', 'local_mg_step_energy_top', 'local_mg_step_fixed_point',
    'local_mg_step_fixed_point_levels', 'local_mg_step_energy_from_top', 'galerkin_chain_spec',
]]
MODULES = ['Pyiga.Model.Relax', 'Pyiga.Model.LocalMG', 'Pyiga.Model.RatVec', 'Pyiga.Proofs.Relax', 'Pyiga.Proofs.RelaxMG', 'Pyiga.Proofs.LocalMG', 'Pyiga.Props.C11']
SWEEPS = ['forward', 'backward', 'symmetric']
SMOOTHERS = ['gs', 'forward_gs', 'backward_gs', 'symmetric_gs', 'exact']


def fl(v):
    return plist([float(a) for a in np.asarray(v, dtype=float).ravel()], frac)


def parse_rats(s):
    t = s.split()
    n = int(t[0])
    return [Fr(x) for x in t[1:1 + n]]


def fexact(a):
    a = np.asarray(a, dtype=float)
    if a.ndim == 1:
        return [Fr(float(x)) for x in a]
    return [[Fr(float(x)) for x in r] for r in a]


def textbook_gs(A, b, x, idx_lists):
    """oracle: x_i <- (b_i - sum_{j != i} a_ij x_j)/a_ii in list order, Fractions (rows with a_ii = 0 skipped)"""
    A = fexact(A); b = fexact(b); x = list(fexact(x)); n = len(b)
    for idx in idx_lists:
        for i in idx:
            if A[i][i] != 0:
                x[i] = (b[i] - sum((A[i][j] * x[j] for j in range(n) if j != i), Fr(0))) / A[i][i]
    return x


def passes(indices, n, iterations, sweep):
    idx = list(range(n)) if indices is None else list(indices)
    if sweep == 'forward':
        return [idx] * iterations
    if sweep == 'backward':
        return [idx[::-1]] * iterations
    return [idx, idx[::-1]] * iterations


def energy(A, b, x):
    x = [Fr(float(v)) for v in x]
    Ax = [sum((a * v for a, v in zip(r, x)), Fr(0)) for r in A]
    return sum((xi * axi for xi, axi in zip(x, Ax)), Fr(0)) / 2 - sum((bi * xi for bi, xi in zip(b, x)), Fr(0))


def close(impl, exact, tol):
    impl = np.asarray(impl, dtype=float).ravel()
    if len(impl) != len(exact):
        return False
    return all(math.isfinite(a) and abs(Fr(float(a)) - e) <= tol for a, e in zip(impl, exact))


def rand_system(rng, n):
    kind = int(rng.integers(0, 4))
    if kind == 0:      # SPD integer
        B = rng.integers(-2, 3, size=(n, n)).astype(float)
        A = B @ B.T + np.diag(rng.integers(1, 4, size=n).astype(float))
        name = 'spd'
    elif kind == 1:    # strictly diagonally dominant, nonsymmetric
        A = rng.integers(-2, 3, size=(n, n)).astype(float)
        A[rng.random((n, n)) < 0.4] = 0.0
        np.fill_diagonal(A, 0.0)
        A += np.diag(np.abs(A).sum(axis=1) + rng.integers(1, 3, size=n))
        name = 'diagdom'
    elif kind == 2:    # dyadic: power-of-two diagonal, small integer off-diagonal (exact in floating point)
        A = rng.integers(-2, 3, size=(n, n)).astype(float)
        A[rng.random((n, n)) < 0.3] = 0.0
        np.fill_diagonal(A, [float(rng.choice([1, 2, 4, 8, -2, -4])) for _ in range(n)])
        name = 'dyadic'
    else:              # general nonsymmetric with nonzero diagonal
        A = rng.integers(-3, 4, size=(n, n)).astype(float)
        np.fill_diagonal(A, [float(rng.choice([-3, -2, -1, 1, 2, 3, 5])) for _ in range(n)])
        name = 'general'
    if name == 'dyadic':
        b = rng.integers(-4, 5, size=n).astype(float)
        x = rng.integers(-4, 5, size=n).astype(float) / 2
    else:
        b = rng.integers(-4, 5, size=n).astype(float) / float(rng.choice([1, 2]))
        x = rng.integers(-4, 5, size=n).astype(float) / float(rng.choice([1, 2, 4]))
    return name, A, b, x


def csr_variants(rng, A, fmt):
    """returns (scipy matrix or ndarray, (indptr, indices, data) the kernel will see, dense matrix it denotes, flags)"""
    import scipy.sparse as sp
    n = A.shape[0]
    if fmt == 'csr':
        M = sp.csr_matrix(A)
        return M, (M.indptr, M.indices, M.data), A, ''
    if fmt in ('csc', 'coo', 'lil', 'bsr', 'dia'):
        M = getattr(sp, fmt + '_matrix')(A)
        C = sp.csr_matrix(M)
        return M, (C.indptr, C.indices, C.data), A, ''
    # hand-built CSR: explicit zeros, unsorted column indices, off-diagonal duplicates, optional diagonal duplicates
    indptr = [0]; indices = []; data = []
    dense = A.copy()
    dupdiag = fmt == 'csr-dupdiag'
    for i in range(n):
        ent = [(j, A[i, j]) for j in range(n) if A[i, j] != 0 or rng.random() < 0.25]       # explicit zeros
        extra = []
        for (j, v) in list(ent):
            if j != i and v != 0 and rng.random() < 0.3:        # split an off-diagonal entry into two
                part = float(rng.integers(-2, 3))
                ent.remove((j, v)); extra += [(j, part), (j, v - part)]
        if dupdiag and A[i, i] != 0 and rng.random() < 0.6:
            part = float(rng.choice([1.0, 2.0, -1.0, 0.5]))
            ent = [(j, v) for (j, v) in ent if j != i]
            extra += [(i, part), (i, A[i, i] - part)]
        ent += extra
        perm = rng.permutation(len(ent))
        for k in perm:
            indices.append(ent[k][0]); data.append(ent[k][1])
        indptr.append(len(indices))
    M = sp.csr_matrix((np.array(data, dtype=float), np.array(indices, dtype=np.int32), np.array(indptr, dtype=np.int32)), shape=(n, n))
    return M, (M.indptr, M.indices, M.data), dense, 'hand'


LAYOUTS = ['contiguous', 'strided', 'reversed', 'column-of-C-2d', 'row-of-F-2d']


def as_view(v, style, rng):
    """an array with the values of `v` in the given memory layout (the caller's vector the sweep must update in place)"""
    v = np.asarray(v)
    n = len(v)
    if style == 'strided':
        base = np.full(2 * n, 7, dtype=v.dtype); view = base[::2]
    elif style == 'reversed':
        base = np.zeros(n, dtype=v.dtype); view = base[::-1]
    elif style == 'column-of-C-2d':
        base = np.full((n, 3), 7, dtype=v.dtype, order='C'); view = base[:, 1]
    elif style == 'row-of-F-2d':
        base = np.full((3, n), 7, dtype=v.dtype, order='F'); view = base[1, :]
    else:
        base = np.zeros(n, dtype=v.dtype); view = base
    view[...] = v
    return view


def SCALES(rng):
    """dyadic scaling 2^k, k in -60..40 (keeps the Rat model exact)"""
    return float(2.0 ** int(rng.choice([-60, -40, -20, -10, 0, 0, 0, 10, 40])))


def gen_hspace(rng):
    from pyiga import bspline, hierarchical
    dim = int(rng.choice([1, 1, 2]))
    p = int(rng.integers(1, 3))
    n0 = int(rng.integers(2, 5)) if dim == 2 else int(rng.integers(3, 7))
    disparity = np.inf if rng.integers(0, 2) == 0 else 1
    faces = [(d, s) for d in range(dim) for s in (0, 1)]
    k = int(rng.integers(0, len(faces) + 1))
    bdspecs = [faces[i] for i in rng.permutation(len(faces))[:k]]
    hs = hierarchical.HSpace(dim * (bspline.make_knots(p, 0.0, 1.0, n0),), truncate=bool(rng.integers(0, 2)),
                             disparity=disparity, bdspecs=bdspecs)
    hist = []
    nlev = int(rng.integers(1, 3)) if dim == 2 else int(rng.integers(1, 4))
    base = {'dim': dim, 'p': p, 'n0': n0, 'disparity': 'inf' if disparity == np.inf else 1, 'bdspecs': bdspecs, 'truncate': hs.truncate}
    # phase 0: the unrefined space is queried too (so that every later phase follows an earlier query on the same object)
    yield hs, dict(base, refine_history=[], phase=0, note='one HSpace object: queried after every refine()')
    for lv in range(nlev):
        # refine on the finest level or (sometimes) again on a coarser one
        lvr = lv if rng.integers(0, 4) > 0 else int(rng.integers(0, hs.numlevels))
        cells = sorted(hs.hmesh.active[lvr])
        if not cells:
            break
        m = int(rng.integers(1, min(len(cells), 3) + 1))
        marked = [cells[i] for i in rng.permutation(len(cells))[:m]]
        hs.refine({lvr: marked})
        hist.append({lvr: [tuple(int(c) for c in cell) for cell in marked]})
        yield hs, dict(base, refine_history=[dict(h) for h in hist], phase=len(hist), note='one HSpace object: queried after every refine()')


def run(ctx):
    ctx.build_repo()
    import scipy.sparse as sp
    from pyiga import solvers, relaxation_cy
    ctx.require_lean(['Pyiga.Props.C11', 'drv_c11'])
    ctx.audit(['Pyiga.Props.C11'], THEOREMS, MODULES)
    if ctx.tier == 'thorough':
        ctx.leanchecker(MODULES)
    ctx.trusted += ['make_solver (Cholesky/LU/SuperLU) is a parameter of the model with contract A*solve(b)=b (exact Gauss-Jordan in the driver)',
                    'modelled, not verified: IEEE rounding of the sweeps (model is exact Rat; dyadic cases are compared exactly, others within 1e-9*scale, solves on systems with condition number <= 1e6)',
                    'scipy.sparse format conversion (csr_matrix(A) sums duplicates) by its documented behaviour']
    ctx.assumptions += ['synthetic SPD integer matrices on the dofs of real HSpace objects for the multigrid streams (the cycle is algebraic in A, P, index sets)',
                        'smoothing-set strategy `trunc`: the pre-Dirichlet candidate sets are taken from the implementation (idempotent removal), so only inclusion/disjointness is checked for it']
    rng = ctx.rng
    quick = ctx.tier == 'quick'
    req, meta = [], []

    def add(r, m):
        req.append(r); meta.append(m)

    def guarded(f):
        try:
            with contextlib.redirect_stdout(io.StringIO()) as out, warnings.catch_warnings():
                warnings.simplefilter('ignore')
                r = f()
            return ('ok', r, out.getvalue())
        except AssertionError:
            return ('err-AssertionError', None, '')
        except Exception as ex:
            return ('err-' + type(ex).__name__, str(ex)[:200], '')

    # ------------------------------------------------------------------ stream relax
    formats = ['dense', 'csr', 'csr-hand', 'csr-dupdiag', 'csc', 'coo', 'lil', 'bsr', 'dia']
    nrel = 1500 if quick else 20000
    for it in range(nrel):
        n = int(rng.integers(1, 8))
        name, A, b, x = rand_system(rng, n)
        fmt = formats[int(rng.integers(0, len(formats)))]
        iterations = int(rng.integers(0, 4))
        sweep = SWEEPS[int(rng.integers(0, 3))]
        if rng.integers(0, 2) == 0:
            indices = None
        else:
            k = int(rng.integers(0, n + 2))
            indices = [int(i) for i in rng.integers(0, n, size=k)]       # unsorted, repetitions allowed
        mode = int(rng.integers(0, 5))
        if mode == 0:          # start from the exact solution of A x = b  (fixed point)
            x = rng.integers(-3, 4, size=n).astype(float)
            b = A @ x
        ctx.case(('relax', it), nontrivial=(n >= 2 and iterations >= 1))
        ctx.count('fmt=' + fmt); ctx.count('matrix=' + name); ctx.count('sweep=' + sweep)
        ix = '0' if indices is None else '1 ' + plist(indices)
        sw = SWEEPS.index(sweep)
        # memory layout of the caller's vectors: the sweep must update *this* array in place
        lx = LAYOUTS[int(rng.integers(0, len(LAYOUTS)))] if rng.integers(0, 2) else 'contiguous'
        lb = LAYOUTS[int(rng.integers(0, len(LAYOUTS)))] if rng.integers(0, 3) == 0 else 'contiguous'
        li = LAYOUTS[int(rng.integers(0, 3))] if (indices is not None and rng.integers(0, 3) == 0) else 'contiguous'
        bv = as_view(b, lb, rng)
        iarg = indices if (indices is None or li == 'contiguous') else as_view(np.array(indices, dtype=np.intc), li, rng)
        ctx.count('layout x=' + lx); ctx.count('layout b=' + lb)
        layout = 'x:%s b:%s indices:%s' % (lx, lb, li)
        if fmt == 'dense':
            xi = as_view(x, lx, rng)
            tag, _, _ = guarded(lambda: solvers.gauss_seidel(A, xi, bv, iterations=iterations, indices=iarg, sweep=sweep))
            add('gsd %d %s %s %s %s %d %d' % (n, fl(A), fl(b), fl(x), ix, iterations, sw),
                ('gs', fmt, name, A, A, b, x, indices, iterations, sweep, tag, xi, mode == 0, False, layout))
        else:
            M, (ptr, ind, dat), dense, flags = csr_variants(rng, A, fmt)
            xi = as_view(x, lx, rng)
            tag, _, _ = guarded(lambda: solvers.gauss_seidel(M, xi, bv, iterations=iterations, indices=iarg, sweep=sweep))
            dup = fmt == 'csr-dupdiag' and any(sum(1 for jj in range(ptr[i], ptr[i + 1]) if ind[jj] == i) > 1 for i in range(n))
            add('gs %d %s %s %s %s %s %s %d %d' % (n, plist(ptr), plist(ind), fl(dat), fl(b), fl(x), ix, iterations, sw),
                ('gs', fmt, name, A, dense, b, x, indices, iterations, sweep, tag, xi, mode == 0, dup, layout))
            if dup:
                ctx.count('non-canonical CSR with duplicate diagonal entries')
            # the two Cython kernels called directly (forward/backward only)
            if rng.integers(0, 4) == 0 and sweep != 'symmetric' and fmt == 'csr':
                xi2 = as_view(x, lx, rng)
                if indices is None:
                    st = (0, n, 1) if sweep == 'forward' else (n - 1, -1, -1)
                    tag2, _, _ = guarded(lambda: [relaxation_cy.gauss_seidel(M.indptr, M.indices, M.data, xi2, bv, *st) for _ in range(iterations)])
                else:
                    ia = np.asarray(indices, dtype=np.intc) if li == 'contiguous' else iarg
                    tag2, _, _ = guarded(lambda: [relaxation_cy.gauss_seidel_indexed(M.indptr, M.indices, M.data, xi2, bv, ia, sweep == 'backward') for _ in range(iterations)])
                add(req[-1], ('gs', 'cython-direct', name, A, dense, b, x, indices, iterations, sweep, tag2, xi2, mode == 0, False, layout))

    # ------------------------------------------------------------------ stream mg
    nhs = 40 if quick else 400
    def phases():
        for it_ in range(nhs):
            g_ = gen_hspace(rng)
            while True:
                try:
                    hs_, desc_ = next(g_)
                except StopIteration:
                    break
                except Exception as ex:      # refinement itself is C04's business
                    ctx.count('hspace generator: ' + type(ex).__name__); break
                yield it_, hs_, desc_
    for it, hs, desc in phases():
        L = hs.numlevels
        ctx.count('hspace phase=%d' % desc['phase'])
        ctx.count('hspace levels=%d' % L); ctx.count('hspace dim=%d' % desc['dim'])
        smooth_sets_case(ctx, hs, desc, add)
        if hs.numdofs > 30:
            ctx.count('mg: skipped (> 30 dofs)'); continue
        tagp, Ps, _ = guarded(lambda: hs.virtual_hierarchy_prolongators())
        if tagp != 'ok':
            ctx.count('mg: prolongators ' + tagp); continue
        Pd = [np.asarray(P.todense(), dtype=float) for P in Ps]
        n = hs.numdofs
        sizes = ([Pd[0].shape[1]] + [P.shape[0] for P in Pd]) if Pd else [n]      # a single level has no prolongators
        ctx.count('mg levels=%d' % L)
        B = rng.integers(-1, 2, size=(n, n)).astype(float)
        B[rng.random((n, n)) < 0.6] = 0.0
        Ad = B @ B.T + np.diag(rng.integers(2, 5, size=n).astype(float))
        A = sp.csr_matrix(Ad)
        dirichlet = [int(i) for i in hs.dirichlet_dofs()]
        nond = [int(i) for i in hs.non_dirichlet_dofs()]
        for rep in range(2 if quick else 4):
            strategy = ['new', 'trunc', 'func_supp', 'cell_supp'][int(rng.integers(0, 4))]
            smoother = SMOOTHERS[int(rng.integers(0, 5))]
            steps = int(rng.integers(1, 3))
            tagi, inds, _ = guarded(lambda: hs.indices_to_smooth(strategy))
            if tagi != 'ok':
                ctx.violation('mg:indices_to_smooth', 'indices_to_smooth(%r) raised %s' % (strategy, tagi), {'hspace': desc}, True); continue
            inds = [[int(i) for i in ii] for ii in inds]
            if len(inds) != L or any(i >= sizes[lv] for lv in range(L) for i in inds[lv]):
                ctx.violation('mg:indices_to_smooth', 'indices_to_smooth(%r) does not fit the current space (%d sets for %d levels / indices beyond the level sizes %s)' % (
                    strategy, len(inds), L, sizes), {'hspace': desc, 'strategy': strategy, 'sets': inds}, True); continue
            if any(len(ii) == 0 for ii in inds[:1]) or (smoother == 'exact' and any(len(ii) == 0 for ii in inds)):
                ctx.count('mg: skipped (empty smoothing set on a level that needs a solver)'); continue
            # condition numbers of every system that is factored
            As = [Ad]
            for P in reversed(Pd):
                As.append(P.T @ As[-1] @ P)
            As.reverse()
            lvls = range(L) if smoother == 'exact' else [0]
            kappa = max(np.linalg.cond(As[lv][np.ix_(inds[lv], inds[lv])]) for lv in lvls)
            if not kappa < 1e6:
                ctx.count('mg: skipped (condition number > 1e6)'); continue
            start = int(rng.integers(0, 3))
            xstar = np.zeros(n); xstar[nond] = rng.integers(-3, 4, size=len(nond)).astype(float)
            if start == 0:        # exact discrete solution: residual vanishes on the non-Dirichlet rows
                f = Ad @ xstar
                f[dirichlet] += rng.integers(-2, 3, size=len(dirichlet)).astype(float)
                x0 = xstar.copy()
            else:
                f = rng.integers(-3, 4, size=n).astype(float)
                if dirichlet and rng.integers(0, 2) == 0:
                    f[dirichlet] = rng.integers(-3, 4, size=len(dirichlet)).astype(float) * 64     # large entries on eliminated dofs
                x0 = np.zeros(n) if start == 1 else np.where(np.isin(np.arange(n), nond), rng.integers(-2, 3, size=n).astype(float), 0.0)
            tag, x1, _ = guarded(lambda: solvers.local_mg_step(hs, A, f, Ps, [np.array(ii, dtype=int) for ii in inds], smoother, steps)(x0.copy()))
            head = 'mg %d %s %s %s %s %d %d' % (L, plist(sizes), fl(Ad), ' '.join(fl(P) for P in Pd),
                                             ' '.join(plist(ii) for ii in inds), SMOOTHERS.index(smoother), steps)
            add('%s %s %s' % (head, fl(x0), fl(f)),
                ('mg', desc, strategy, smoother, steps, Ad, Pd, inds, x0, f, tag, x1, start == 0, nond, kappa))
            ctx.case(('mg', it, desc['phase'], rep), nontrivial=True)
            ctx.count('mg smoother=' + smoother); ctx.count('mg strategy=' + strategy)
            # whole solve through solve_hmultigrid (glue + iterative_solve)
            if rep == 0 and smoother != 'exact':
                tol = float(rng.choice([0.5, 1e-1, 1e-2, 1e-4])); maxiter = int(rng.choice([1, 2, 3, 4]))
                f = f * SCALES(rng)
                tag2, res2, out2 = guarded(lambda: solvers.solve_hmultigrid(hs, A, f, strategy=strategy, smoother=smoother, smooth_steps=2, tol=tol, maxiter=maxiter))
                head2 = 'mgsolve %d %s %s %s %s %d %d' % (L, plist(sizes), fl(Ad), ' '.join(fl(P) for P in Pd),
                                                     ' '.join(plist(ii) for ii in inds), SMOOTHERS.index(smoother), 2)
                add('%s %s %s %s %d' % (head2, fl(f), plist(nond), frac(tol), maxiter),
                    ('mgsolve', desc, strategy, smoother, Ad, f, nond, tol, maxiter, tag2, res2, kappa))
                ctx.case(('mgsolve', it, desc['phase']), nontrivial=True)

    # ------------------------------------------------------------------ iterative_solve with a scalar affine step
    nis = 300 if quick else 4000
    for it in range(nis):
        c = float(rng.choice([0.5, 0.25, -0.5, 1.0, 2.0, 0.0])); a = float(rng.choice([1.0, 2.0, -1.0, 4.0]))
        sc = SCALES(rng)
        f = float(rng.integers(-4, 5)) * sc; d = float(rng.integers(-2, 3)) / 2 * sc
        hx = bool(rng.integers(0, 2)); x0 = float(rng.integers(-3, 4)) * sc
        ctx.count('isolve scale=2^%d' % int(round(math.log2(sc))))
        tol = float(rng.choice([0.5, 0.125, 2.0 ** -10, 2.0 ** -20])); maxiter = int(rng.choice([0, 1, 2, 3, 10, 40]))
        Aop = np.array([[a]])
        tag, res, out = guarded(lambda: solvers.iterative_solve(lambda x_: c * x_ + d, Aop, np.array([f]), x0=(np.array([x0]) if hx else None), tol=tol, maxiter=maxiter))
        add('isolve %s %s %s %s %d%s %s %d' % (frac(c), frac(d), frac(a), frac(f), hx, ' ' + frac(x0) if hx else '', frac(tol), maxiter),
            ('isolve', c, d, a, f, x0 if hx else None, tol, maxiter, tag, res, out))
        ctx.case(('isolve', it), nontrivial=(maxiter >= 2))

    # ------------------------------------------------------------------ iterative_solve on vectors with active_dofs subsets
    niv = 250 if quick else 3000
    for it in range(niv):
        n = int(rng.integers(2, 6))
        Aop = rng.integers(-2, 3, size=(n, n)).astype(float) + 4 * np.eye(n)
        w = float(rng.choice([0.25, 0.125, 0.5]))
        Bm = np.eye(n) - w * Aop                    # Richardson step x <- x + w (f - A x)
        mode = int(rng.integers(0, 3))
        if mode == 0:
            active = None
        else:
            ka = int(rng.integers(1, n))            # strict subset
            active = sorted(int(i) for i in rng.permutation(n)[:ka])
        f = rng.integers(-4, 5, size=n).astype(float)
        if active is not None and rng.integers(0, 3) > 0:
            inact = [i for i in range(n) if i not in active]
            f[inact] = rng.integers(-4, 5, size=len(inact)).astype(float) * float(rng.choice([16, 256, 1024]))   # large entries on eliminated dofs
        sc = SCALES(rng)
        f = f * sc
        cvec = w * f
        hx = bool(rng.integers(0, 3) == 0)
        x0 = rng.integers(-2, 3, size=n).astype(float) * sc if hx else None
        ctx.count('isolvev scale=2^%d' % int(round(math.log2(sc))))
        tol = float(rng.choice([0.5, 0.25, 2.0 ** -4, 2.0 ** -8])); maxiter = int(rng.choice([1, 2, 3, 5, 8]))
        aarg = None if active is None else (np.array(active) if rng.integers(0, 2) else list(active))
        tag, res, out = guarded(lambda: solvers.iterative_solve(lambda x_: Bm @ x_ + cvec, Aop, f, x0=(None if x0 is None else x0.copy()),
                                                                active_dofs=aarg, tol=tol, maxiter=maxiter))
        add('isolvev %d %s %s %s %s %d%s %s %s %d' % (n, fl(Aop), fl(f), fl(Bm), fl(cvec), hx, ' ' + fl(x0) if hx else '',
                                                    plist(range(n) if active is None else active), frac(tol), maxiter),
            ('isolvev', Aop, f, Bm, cvec, x0, active, tol, maxiter, tag, res))
        ctx.case(('isolvev', it), nontrivial=(active is not None))
        ctx.count('isolvev active=' + ('all' if active is None else 'strict subset') + (', x0=None' if x0 is None else ', x0 given'))

    # ------------------------------------------------------------------ twogrid
    ntg = 150 if quick else 2000
    for it in range(ntg):
        nc = int(rng.integers(1, 4)); n = nc + int(rng.integers(1, 4))
        name, A, b, x = rand_system(rng, n)
        if rng.integers(0, 3) > 0:
            B = rng.integers(-2, 3, size=(n, n)).astype(float); A = B @ B.T + np.diag(rng.integers(1, 4, size=n).astype(float)); name = 'spd'
        if np.any(np.diag(A) == 0):
            continue
        Pm = rng.integers(-1, 3, size=(n, nc)).astype(float) / 2
        if np.linalg.matrix_rank(Pm) < nc or not np.linalg.cond(Pm.T @ A @ Pm) < 1e6:
            ctx.count('twogrid: skipped (singular/ill-conditioned coarse matrix)'); continue
        f = rng.integers(-4, 5, size=n).astype(float)
        u0mode = int(rng.integers(0, 3))
        u0 = None if u0mode == 0 else rng.integers(-3, 4, size=n).astype(float)
        tol = float(rng.choice([1e-1, 1e-3, 1e-8])); steps = int(rng.integers(0, 3)); maxiter = int(rng.choice([0, 1, 3, 6]))
        gsits = int(rng.integers(1, 3)); sweep = SWEEPS[int(rng.integers(0, 3))]
        fmt = ['dense', 'csr'][int(rng.integers(0, 2))]
        Aobj = A if fmt == 'dense' else sp.csr_matrix(A)
        u0arg = None if u0 is None else (u0.copy() if u0mode == 1 else u0.tolist())
        tag, res, out = guarded(lambda: solvers.twogrid(Aobj, f, Pm if fmt == 'dense' else sp.csr_matrix(Pm), solvers.GaussSeidelSmoother(gsits, sweep), u0=u0arg, tol=tol, smooth_steps=steps, maxiter=maxiter))
        add('twogrid %d %d %s %s %s %d%s %s %d %d %d %d' % (n, nc, fl(A), fl(Pm), fl(f), 0 if u0 is None else 1, '' if u0 is None else ' ' + fl(u0),
                                                           frac(tol), steps, maxiter, gsits, SWEEPS.index(sweep)),
            ('twogrid', name, A, Pm, f, u0, u0mode, tol, steps, maxiter, gsits, sweep, tag, res, out))
        ctx.case(('twogrid', it), nontrivial=(maxiter >= 1))
        ctx.count('twogrid u0=' + ['None', 'array', 'list'][u0mode])

    got = ctx.model('drv_c11', req)
    ndis = 0
    perkey = {}
    nreq = {}
    for r, g, m in zip(req, got, meta):
        nreq[m[0]] = nreq.get(m[0], 0) + 1
        bad = compare(ctx, r, g, m)
        if bad:
            ndis += 1
            perkey[bad[0]] = perkey.get(bad[0], 0) + 1
            if perkey[bad[0]] <= 2:
                key, what, replay, found = bad
                replay.update({'request': r[:3000], 'model': g[:2000], 'stream': 'relax/mg (drv_c11)'})
                ctx.violation(key, what, replay, found)
    ctx.obligation('correspondence streams relax+mg: %d requests, model == implementation' % len(req), ndis == 0, '%d disagreements' % ndis)
    ctx.extra['requests'] = len(req); ctx.extra['requests_by_op'] = nreq
    ctx.rule = ('relax: n<=7 systems (SPD / diagonally dominant / dyadic / general integer) in dense, csr, hand-built csr (explicit zeros, unsorted, duplicates, '
                'duplicate diagonals), csc, coo, lil, bsr, dia; index lists with repetitions or None; 0-3 iterations; 3 sweeps; 20% start at the exact solution; '
                'direct calls of both Cython kernels. mg: random HSpaces (1-2D, p<=2, <=3 refinements, HB/THB, disparity inf/1, random Dirichlet faces) x 4 strategies x '
                '5 smoothers x starts {exact solution, zero, random}; solve_hmultigrid; iterative_solve (scalar affine steps, maxiter 0..40); twogrid (u0 None/array/list). '
                'non-trivial = n>=2 and >=1 iteration; >=2 levels; distinct by generated case')


def smooth_sets_case(ctx, hs, desc, add):
    """model request for every strategy + model-free oracle of the smoothing_sets clause"""
    L = hs.numlevels
    disparity = hs.disparity
    rav = lambda sets: [[int(v) for v in a] for a in hs.ravel_indices([sorted(s) for s in sets])]
    act = rav(hs.actfun); deact = rav(hs.deactfun)
    dirs = [rav(hs.index_dirichlet[lv]) for lv in range(L)]
    avail = [[[int(v) for v in a] for a in hs.ravel_global[lv]] for lv in range(L)]
    for strategy in ('new', 'trunc', 'func_supp', 'cell_supp'):
        try:
            with contextlib.redirect_stdout(io.StringIO()):
                got = [[int(i) for i in ii] for ii in hs.indices_to_smooth(strategy)]
                tp = getattr(hs, strategy + '_indices')()
        except Exception as ex:
            ctx.violation('smooth:' + strategy, 'indices_to_smooth(%r) raised %s: %s' % (strategy, type(ex).__name__, ex), {'hspace': desc}, True)
            continue
        ctx.case(('smooth', strategy, str(desc)), nontrivial=(L >= 2))
        ctx.count('smoothing-set cases')
        # oracle (model-free): new dofs of level lv minus Dirichlet are contained, no Dirichlet dof is
        if len(got) != L:
            ctx.violation('smooth:' + strategy, 'indices_to_smooth(%r) returns %d level sets for a space with %d levels (sets of an earlier state of the object)' % (strategy, len(got), L),
                          {'hspace': desc, 'strategy': strategy, 'sets': got}, True)
        for lv in range(min(L, len(got))):
            off = sum(len(avail[lv][l]) for l in range(lv))
            newdofs = set(range(off, off + len(avail[lv][lv])))
            dird = set(int(i) for i in hs.dirichlet_dofs(lv))
            S = set(got[lv])
            if not (newdofs - dird) <= S:
                ctx.violation('smooth:' + strategy, 'smoothing set of level %d misses new non-Dirichlet dofs %s' % (lv, sorted((newdofs - dird) - S)[:8]),
                              {'hspace': desc, 'strategy': strategy, 'level': lv, 'set': got[lv]}, True)
            if S & dird:
                ctx.violation('smooth:' + strategy, 'smoothing set of level %d contains Dirichlet dofs %s' % (lv, sorted(S & dird)[:8]),
                              {'hspace': desc, 'strategy': strategy, 'level': lv, 'set': got[lv]}, True)
        # model request
        extra = [[[] for _ in range(L)] for _ in range(L)]
        if strategy != 'new':
            for lv in range(L):
                for i in range(L):
                    if lv - disparity <= i < lv:
                        if strategy == 'func_supp':
                            fs = set(hs.hmesh.function_grandparents(lv, hs.actfun[lv], i)) & hs.actfun[i]
                        elif strategy == 'cell_supp':
                            fs = hs.hmesh.meshes[i].supported_in(hs.hmesh.cell_grandparent(lv, hs.hmesh.meshes[lv].support(hs.actfun[lv]), i)) & hs.actfun[i]
                        else:
                            fs = set(tp[lv][i])
                        lst = [[] for _ in range(L)]; lst[i] = sorted(fs)
                        extra[lv][i] = [int(v) for v in hs.ravel_indices(lst)[i]]
        flat2 = lambda t: ' '.join(plist(t[lv][i]) for lv in range(L) for i in range(L))
        r = 'smooth %d %d %d %s %s %s %s %s' % (L, 0 if strategy == 'new' else 1, -1 if disparity == np.inf else int(disparity),
                                             ' '.join(plist(a) for a in act), ' '.join(plist(a) for a in deact), flat2(dirs), flat2(extra), flat2(avail))
        add(r, ('smooth', desc, strategy, got))


def compare(ctx, r, g, m):
    op = m[0]
    if g == 'bad-request':
        return (op + '-corr', 'driver rejected the request', {}, False)
    if op == 'gs':
        _, fmt, name, A, dense, b, x, indices, iterations, sweep, tag, xi, at_solution, dup, layout = m
        n = len(b)
        call = {'call': 'solvers.gauss_seidel(A, x, b, iterations, indices, sweep)' if fmt != 'cython-direct' else 'relaxation_cy kernel called directly',
                'format': fmt, 'memory_layout': layout, 'A_dense': dense.tolist(), 'b': b.tolist(), 'x': x.tolist(), 'indices': indices, 'iterations': iterations, 'sweep': sweep,
                'implementation_x': np.asarray(xi).tolist(), 'implementation': tag}
        if tag != 'ok':
            return ('relax-corr:' + fmt, 'gauss_seidel raised %s on a system with nonzero diagonal' % tag, call, True)
        xm = parse_rats(g)
        scale = 1 + max([abs(v) for v in xm] + [abs(Fr(float(v))) for v in x] + [abs(Fr(float(v))) for v in b])
        exact_case = name == 'dyadic' and not dup and all(v.denominator & (v.denominator - 1) == 0 and v.denominator <= 2 ** 30 and abs(v.numerator) < 2 ** 45 for v in xm)
        tol = Fr(0) if exact_case else scale * Fr(1, 10 ** 9)
        if exact_case:
            ctx.count('relax: compared exactly (dyadic)')
        ok_model = close(xi, xm, tol)
        # oracle: the property on the implementation (textbook update on the matrix the input denotes)
        verdict = None
        if not dup:
            xt = textbook_gs(dense, b, x, passes(indices, n, iterations, sweep))
            if not close(xi, xt, tol if exact_case else scale * Fr(1, 10 ** 9)):
                verdict = 'result differs from the textbook Gauss-Seidel update in list order by %.3e' % max(abs(float(a) - float(e)) for a, e in zip(xi, xt))
            elif at_solution and not close(xi, fexact(x), tol):
                verdict = 'an exact solution was changed by the sweep'
            elif name == 'spd':
                Af = fexact(dense); bf = fexact(b)
                e0 = energy(Af, bf, x); e1 = energy(Af, bf, xi)
                if e1 > e0 + scale * scale * Fr(1, 10 ** 9):
                    verdict = 'energy increased from %.12g to %.12g on an SPD system' % (float(e0), float(e1))
        if ok_model and verdict is None:
            return None
        return ('relax-corr:' + fmt, ('gauss_seidel disagrees with the model' if not ok_model else 'gauss_seidel') + ('; ' + verdict if verdict else ''),
                call, verdict is not None)
    if op == 'mg':
        _, desc, strategy, smoother, steps, Ad, Pd, inds, x0, f, tag, x1, at_solution, nond, kappa = m
        call = {'call': 'solvers.local_mg_step(hs, A, f, Ps, hs.indices_to_smooth(strategy), smoother, smooth_steps)(x0)', 'hspace': desc,
                'strategy': strategy, 'smoother': smoother, 'smooth_steps': steps, 'A': Ad.tolist(), 'f': f.tolist(), 'x0': x0.tolist(),
                'implementation': tag, 'implementation_x': None if x1 is None else np.asarray(x1).tolist()}
        if g == 'err-singular':
            ctx.count('mg: skipped (singular in exact arithmetic)'); return None
        if tag != 'ok':
            return ('mg-corr', 'local_mg_step raised ' + tag, call, True)
        xm = parse_rats(g)
        scale = 1 + max([abs(v) for v in xm] + [abs(Fr(float(v))) for v in x0] + [abs(Fr(float(v))) for v in f])
        tol = scale * Fr(int(kappa) + 1000, 10 ** 12)
        ok_model = close(x1, xm, tol)
        verdict = None
        if at_solution and not close(x1, fexact(x0), tol):
            verdict = 'the exact discrete solution is not a fixed point of the cycle (change %.3e)' % float(np.max(np.abs(x1 - x0)))
        elif smoother in ('exact', 'symmetric_gs', 'gs', 'forward_gs', 'backward_gs') and not at_solution:
            # energy of the error on the non-Dirichlet block must not increase (x0 vanishes on Dirichlet dofs, which are never touched)
            Af = fexact(Ad); ff = fexact(f)
            touched = sorted(set(i for ii in inds for i in ii))
            if set(touched) <= set(nond) and all(x0[i] == 0 for i in range(len(x0)) if i not in nond):
                e0 = energy(Af, ff, x0); e1 = energy(Af, ff, x1)
                if e1 > e0 + scale * scale * Fr(int(kappa) + 1000, 10 ** 10):
                    verdict = 'energy increased from %.12g to %.12g' % (float(e0), float(e1))
        if ok_model and verdict is None:
            return None
        key = 'mg-corr' if verdict is None else ('mg:fixed-point' if at_solution else 'mg:energy')
        call['levels'] = len(inds)
        return (key, ('local_mg_step (%d level%s) disagrees with the model cycle' % (len(inds), '' if len(inds) == 1 else 's') if not ok_model else 'local_mg_step') + ('; ' + verdict if verdict else ''),
                call, verdict is not None)
    if op == 'mgsolve':
        _, desc, strategy, smoother, Ad, f, nond, tol, maxiter, tag, res, kappa = m
        call = {'call': 'solvers.solve_hmultigrid(hs, A, f, strategy, smoother, 2, tol, maxiter)', 'hspace': desc, 'strategy': strategy,
                'smoother': smoother, 'tol': tol, 'maxiter': maxiter, 'A': Ad.tolist(), 'f': f.tolist(), 'implementation': tag}
        if g == 'err-singular':
            return None
        if tag != 'ok' and not np.any(f[nond]):
            return ('isolve:zero-initial-residual', 'solve_hmultigrid raises %s when f vanishes on the non-Dirichlet dofs' % tag, call, True)
        if tag != 'ok':
            return ('mgsolve-corr', 'solve_hmultigrid raised ' + tag, call, True)
        xs, ks, ratios = g.split(' ; ')
        xm = parse_rats(xs); rat = parse_rats(ratios)
        t2 = Fr(float(tol)) ** 2
        if any(v >= 0 and t2 > 0 and abs(v / t2 - 1) < Fr(1, 10 ** 4) for v in rat) or any(0 <= v < Fr(1, 10 ** 24) for v in rat[:-1]):
            ctx.count('mgsolve: skipped (borderline residual test)'); return None
        x, k = res
        kimpl = 'inf' if k == np.inf else str(int(k))
        call['implementation_iterations'] = kimpl
        # oracle: the stopping contract on the implementation
        r_ = f - Ad @ x
        res0 = np.linalg.norm(f[nond]); resn = np.linalg.norm(r_[nond])
        verdict = None
        if res0 == 0:
            verdict = None if k == 0 else 'zero initial residual but %s iterations reported' % kimpl
        elif k != np.inf and not (res0 > 0 and resn / res0 < tol * (1 + 1e-6)):
            verdict = 'returned k=%s but the residual reduction is %.3e >= tol %.1e' % (kimpl, resn / res0 if res0 else float('nan'), tol)
        elif k == np.inf and res0 > 0 and resn / res0 < tol * (1 - 1e-6):
            verdict = 'reported non-convergence although the final residual reduction %.3e < tol' % (resn / res0)
        if kimpl != ks:
            if rat and rat[-1] >= 0 and rat[-1] < Fr(1, 10 ** 22):
                ctx.count('mgsolve: skipped (residual at rounding level)'); return None
            return ('mgsolve-corr', 'solve_hmultigrid iteration count %s, model %s' % (kimpl, ks) + ('; ' + verdict if verdict else ''), call, verdict is not None)
        scale = max([abs(v) for v in xm] + [abs(Fr(float(v))) for v in f])
        if not close(x, xm, scale * Fr(int(kappa) + 1000, 10 ** 11) * max(1, len(rat))):
            return ('mgsolve-corr', 'solve_hmultigrid iterate differs from the model' + ('; ' + verdict if verdict else ''), call, verdict is not None)
        return None if verdict is None else ('mgsolve-corr', 'solve_hmultigrid: ' + verdict, call, True)
    if op == 'isolve':
        _, c, d, a, f, x0, tol, maxiter, tag, res, out = m
        call = {'call': 'solvers.iterative_solve(lambda x: c*x+d, [[a]], [f], x0, tol=tol, maxiter=maxiter)', 'c': c, 'd': d, 'a': a, 'f': f, 'x0': x0,
                'tol': tol, 'maxiter': maxiter, 'implementation': tag}
        res0_zero = (f - a * x0 == 0) if x0 is not None else (f == 0)
        if res0_zero:
            ctx.count('isolve: zero initial residual')
            if tag != 'ok' or not (res[1] == 0):
                return ('isolve:zero-initial-residual', 'iterative_solve with a zero initial residual: %s %s (expected (x0, 0))' % (tag, res if tag != 'ok' else res[1]), call, True)
        if tag != 'ok':
            return ('isolve-corr', 'iterative_solve raised ' + tag, call, True)
        x, k = res
        want = '%s ; %s' % (frac(float(np.ravel(x)[0])), 'inf' if k == np.inf else str(int(k)))
        if want == g:
            return None
        if ' ; ' in g:
            xm_, km_ = g.split(' ; ')
            # same iteration count; iterate equal up to rounding of the (up to 40) affine steps
            if km_ == want.split(' ; ')[1] and abs(Fr(float(np.ravel(x)[0])) - Fr(xm_)) <= (abs(Fr(xm_)) + abs(Fr(float(d))) + abs(Fr(float(f)))) * Fr(1, 10 ** 12):
                return None
        # oracle: replay the definition
        xx = 0.0 if x0 is None else x0
        res0 = abs(f - a * xx) if x0 is not None else abs(f)
        kk = 0; verdict = None
        while res0 != 0:
            xx = c * xx + d; kk += 1
            with np.errstate(all='ignore'):
                conv = bool(np.float64(abs(f - a * xx)) / np.float64(res0) < tol)
            if conv or kk >= maxiter:
                break
        exp = (xx, kk if conv else np.inf) if res0 != 0 else (xx, 0)
        if (float(np.ravel(x)[0]), k) != exp:
            verdict = 'returned (%r, %r), the stopping rule gives (%r, %r)' % (float(np.ravel(x)[0]), k, exp[0], exp[1])
        return ('isolve-corr', 'iterative_solve disagrees with the model' + ('; ' + verdict if verdict else ''), dict(call, implementation_result=want), verdict is not None)
    if op == 'isolvev':
        _, Aop, f, Bm, cvec, x0, active, tol, maxiter, tag, res = m
        n = len(f)
        act = list(range(n)) if active is None else active
        call = {'call': 'solvers.iterative_solve(lambda x: B@x + c, A, f, x0, active_dofs=active, tol=tol, maxiter=maxiter)', 'A': Aop.tolist(),
                'f': f.tolist(), 'B': Bm.tolist(), 'c': cvec.tolist(), 'x0': None if x0 is None else x0.tolist(), 'active_dofs': active,
                'tol': tol, 'maxiter': maxiter, 'implementation': tag}
        if tag != 'ok':
            return ('isolve-corr', 'iterative_solve raised ' + tag, call, True)
        x, k = res
        kimpl = 'inf' if k == np.inf else str(int(k))
        call['implementation_iterations'] = kimpl
        xs, ks, ratios = g.split(' ; ')
        xm = parse_rats(xs); rat = parse_rats(ratios)
        t2 = Fr(float(tol)) ** 2
        if any(v >= 0 and t2 > 0 and abs(v / t2 - 1) < Fr(1, 10 ** 6) for v in rat):
            ctx.count('isolvev: skipped (borderline residual test)'); return None
        # oracle: the property, recomputed independently in Fractions
        Af = fexact(Aop); ff = fexact(f); xf = fexact(np.ravel(x)); x0f = fexact(x0) if x0 is not None else [Fr(0)] * n
        rr = lambda xv: [ff[i] - sum((Af[i][j] * xv[j] for j in range(n)), Fr(0)) for i in act]
        r0 = sum((v * v for v in rr(x0f)), Fr(0)); r1 = sum((v * v for v in rr(xf)), Fr(0))
        verdict = None
        if k != np.inf and k != 0 and r0 > 0 and not (r1 < t2 * r0 * (1 + Fr(1, 10 ** 6))):
            verdict = 'returned k=%s although the residual on the active dofs was only reduced by %.3e (tol %.3e)' % (
                kimpl, math.sqrt(float(r1 / r0)) if r0 else float('nan'), tol)
        elif k != np.inf and k != 0 and r0 == 0:
            verdict = 'the initial residual on the active dofs is zero (the start solves the system there) but %s iterations were made and reported as converged' % kimpl
        elif k == 0 and r0 != 0:
            verdict = 'returned k=0 although the initial residual on the active dofs is not zero'
        problems = []
        if kimpl != ks:
            problems.append('iteration count (impl %s, model %s)' % (kimpl, ks))
        scale = max([abs(v) for v in xm] + [abs(Fr(float(v))) for v in cvec] + [abs(Fr(float(v))) for v in (x0 if x0 is not None else [0.0])])
        if not problems and not close(x, xm, scale * Fr(1, 10 ** 10)):
            problems.append('iterate')
        if not problems and verdict is None:
            return None
        return ('isolve-corr:active', 'iterative_solve with active_dofs ' + ('disagrees with the model on: ' + ', '.join(problems) if problems else '') +
                ('; ' + verdict if verdict else ''), call, verdict is not None)
    if op == 'twogrid':
        _, name, A, Pm, f, u0, u0mode, tol, steps, maxiter, gsits, sweep, tag, res, out = m
        call = {'call': 'solvers.twogrid(A, f, P, GaussSeidelSmoother(gsits, sweep), u0, tol, smooth_steps, maxiter)', 'A': A.tolist(), 'P': Pm.tolist(),
                'f': f.tolist(), 'u0': None if u0 is None else u0.tolist(), 'u0_type': ['None', 'ndarray', 'list'][u0mode], 'tol': tol, 'smooth_steps': steps,
                'maxiter': maxiter, 'gs_iterations': gsits, 'sweep': sweep, 'implementation': tag}
        if g == 'err-singular':
            return None
        if tag != 'ok':
            return ('twogrid-corr', 'twogrid raised %s (%s)' % (tag, res), call, True)
        us, ks, es, ratios = g.split(' ; ')
        um = parse_rats(us); rat = parse_rats(ratios)
        lines = out.strip().split('\n')
        kimpl = int(lines[-1].split()[0]) if lines and lines[-1].endswith('iterations') else None
        eimpl = 'diverged' if 'Diverged' in out else ('toomany' if 'too many iterations' in out else 'converged')
        t2 = Fr(float(tol)) ** 2
        if any(v >= 0 and ((t2 > 0 and abs(v / t2 - 1) < Fr(1, 10 ** 4)) or abs(v / 400 - 1) < Fr(1, 10 ** 4)) for v in rat) or any(0 <= v < Fr(1, 10 ** 22) for v in rat):
            ctx.count('twogrid: skipped (borderline residual test)'); return None
        problems = []
        if kimpl != int(ks):
            problems.append('iteration count (impl %s, model %s)' % (kimpl, ks))
        if eimpl != es:
            problems.append('exit (impl %s, model %s)' % (eimpl, es))
        scale = 1 + max(abs(v) for v in um)
        if not problems and not close(res, um, scale * Fr(1, 10 ** 7)):
            problems.append('solution vector')
        if not problems:
            return None
        # oracle: exits as documented
        verdict = None
        if eimpl == 'converged' and kimpl is not None and kimpl > maxiter + 1:
            verdict = 'more than maxiter+1 iterations'
        return ('twogrid-corr', 'twogrid disagrees with the model on: ' + ', '.join(problems) + ('; ' + verdict if verdict else ''),
                dict(call, implementation_stdout=out[-300:]), verdict is not None)
    if op == 'smooth':
        _, desc, strategy, got = m
        want = ' ; '.join(plist(ii) for ii in got)
        if want == g:
            return None
        return ('smooth-corr:' + strategy, 'indices_to_smooth(%r) differs from the modelled set construction' % strategy,
                {'hspace': desc, 'strategy': strategy, 'implementation': want}, False)
    return None
